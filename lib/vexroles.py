"""VEX.R/X/B operand roles: the register a VEX instruction's ModRM byte carries in its reg field is the one extended by VEX.R,
the register in r/m (or the base of a memory operand) the one extended by VEX.B.

Both emitters (output_3byte_vex_opcode for the prefix, orc_vex_insn_output_modrm for the ModRM byte) choose their operands by
instruction type, number of sources and operand form.  For every combination the call that each of them reaches is found by
walking its CFG under that configuration (exprval.reachable_under) and the operand expressions are compared by role."""
from facts import AnalysisBroken, access_path, init_rows, strip_casts, unparse
from exprval import reachable_under
from x86enc import MODRM_ROLES, switch_arms, type_switches


def check_vex_rxb_roles(db, rep, rule):
    tu = db.tu("orcx86insn")
    f3, fm, cg = tu.fn["output_3byte_vex_opcode"], tu.fn["orc_vex_insn_output_modrm"], tu.fn["orc_vex_insn_codegen"]
    for g in (f3, fm):
        rep.saw(g)
    enc = set()
    for sw in type_switches(cg):
        for labels, stmts in switch_arms(sw):
            if any(c.k == "CallExpr" and c.name == "output_vex_opcode" for st in stmts for c in st.walk()):
                enc |= {l for l in labels if l != "default"}
    if len(enc) < 10:
        raise AnalysisBroken("only %d VEX-encodable instruction types found" % len(enc))
    tnames = {v: k[len("ORC_X86_INSN_TYPE_"):] for k, v in tu.enums.items() if k.startswith("ORC_X86_INSN_TYPE_")}
    xt = {db.enum(n): n[len("ORC_X86_RM_"):] for n in ("ORC_X86_RM_REG", "ORC_X86_RM_MEMOFFSET", "ORC_X86_RM_MEMINDEX")}
    mcalls = [c for c in fm.calls() if c.name in MODRM_ROLES]
    fl = tu.fn["orc_x86_insn_output_modrm"]
    rep.saw(fl)
    lcalls = [c for c in fl.calls() if c.name in MODRM_ROLES]
    rcalls = [c for c in f3.calls("orc_vex_get_rex")]
    if len(mcalls) < 9 or len(rcalls) < 8:
        raise AnalysisBroken("VEX emitters: %d ModRM calls, %d orc_vex_get_rex calls" % (len(mcalls), len(rcalls)))
    # shapes that some emit site can produce: (row type, number of register sources, operand form)
    rows = init_rows(tu.global_("orc_x86_opcodes"))
    FORM = {"orc_vex_emit_cpuinsn_size": ("ORC_X86_RM_REG", 3, 4), "orc_vex_emit_cpuinsn_imm": ("ORC_X86_RM_REG", 3, 4),
            "orc_vex_emit_cpuinsn_load_memoffset": ("ORC_X86_RM_MEMOFFSET", 5, 6), "orc_vex_emit_cpuinsn_store_memoffset": ("ORC_X86_RM_MEMOFFSET", None, None),
            "orc_vex_emit_cpuinsn_load_memindex": ("ORC_X86_RM_MEMINDEX", None, None), "orc_vex_emit_cpuinsn_store_memindex": ("ORC_X86_RM_MEMINDEX", None, None)}
    producible = {}
    for g in db.all_functions():
        if not g.relfile.startswith("orc/"):
            continue
        for c in g.calls():
            if c.name not in FORM:
                continue
            a = c.args()
            rv = strip_casts(a[1]).v
            if rv is None or not (0 <= rv < len(rows)):
                continue
            T = rows[rv]["type"] if isinstance(rows[rv].get("type"), int) else db.enum(rows[rv]["type"][1]) if isinstance(rows[rv].get("type"), tuple) else None
            form, _, s1 = FORM[c.name]
            nsrc = 1
            if s1 is not None and len(a) > s1 and strip_casts(a[s1]).v != 0:
                nsrc = 2
            producible.setdefault((T, nsrc, db.enum(form)), []).append((g, c))
    if len(producible) < 10:
        raise AnalysisBroken("only %d (type, sources, form) shapes found at the VEX emit sites" % len(producible))
    LO = 64
    n = 0
    for T in sorted(enc):
        for nsrc in (1, 2):
            for X in sorted(xt):
                env = {"xinsn->src[0]": LO, "xinsn->src[1]": LO if nsrc == 2 else 0, "xinsn->dest": LO, "xinsn->type": X,
                       "xinsn->opcode->type": T, "xinsn->opcode->flags": 0, "p->is_64bit": 1, "xinsn->opcode->prefix": 1, "xinsn->prefix": 0}
                m = [c for c in mcalls if reachable_under(fm, env, lambda e, c=c: e is c)]
                if not m and reachable_under(fm, env, lambda e: e.k == "CallExpr" and e.name == "orc_x86_insn_output_modrm"):
                    # this shape is delegated to the legacy ModRM emitter
                    m = [c for c in lcalls if reachable_under(fl, env, lambda e, c=c: e is c)]
                r = [c for c in rcalls if reachable_under(f3, env, lambda e, c=c: e is c)]
                if not m:
                    continue                        # no ModRM byte for this shape (or the emitter refuses it)
                if (T, nsrc, X) not in producible:
                    continue                        # no emit site builds an instruction of this shape
                where_ = "orc/orcx86insn.c::output_3byte_vex_opcode"
                inst = "%s/%dsrc/%s" % (tnames.get(T, T), nsrc, xt[X])
                n += 1
                if len(m) > 1 or len(r) > 1:
                    raise AnalysisBroken("VEX roles: %s reaches %d ModRM calls and %d orc_vex_get_rex calls" % (inst, len(m), len(r)))
                rm_i, reg_i = MODRM_ROLES[m[0].name]
                rm, rg = strip_casts(m[0].args()[rm_i]), strip_casts(m[0].args()[reg_i])
                rg_is_ext = (access_path(rg) or "").endswith("opcode->code2")       # /digit opcode extension, not a register
                if not r:
                    rep.violation(rule, where_, inst, "the ModRM byte of %s carries %s / %s but the three-byte prefix computes no R/X/B bits for this shape: "
                                  "a register 8..15 in either field is encoded as the low register" % (inst, unparse(rg), unparse(rm)), line=m[0].line)
                    continue
                a = [strip_casts(x) for x in r[0].args()]
                R, B = a[1], a[3]
                probs = []
                if unparse(B) != unparse(rm):
                    probs.append("ModRM.rm/base is `%s` but VEX.B is computed from `%s`" % (unparse(rm), unparse(B)))
                if rg_is_ext:
                    if R.v != 0:
                        probs.append("ModRM.reg is the opcode extension but VEX.R is computed from `%s`" % unparse(R))
                elif unparse(R) != unparse(rg):
                    probs.append("ModRM.reg is `%s` but VEX.R is computed from `%s`" % (unparse(rg), unparse(R)))
                if probs:
                    low = _all_sites_low(db, producible[(T, nsrc, X)], FORM)
                    if low:
                        rep.ok(rule, where_, inst, "latent role mismatch (%s), not reachable: every emit site of this shape passes %s, registers below 8" % ("; ".join(probs), low))
                        continue
                rep.check(not probs, rule, where_, inst,
                          "VEX.R <- %s, VEX.B <- %s, as in the ModRM byte" % (unparse(R), unparse(B)),
                          "%s: %s -- with a register 8..15 the prefix extends the wrong field and the machine code names other registers than the listing" % (inst, "; ".join(probs)),
                          line=r[0].line)
    return n


REGARGS = {"orc_vex_emit_cpuinsn_size": (3, 4, 5), "orc_vex_emit_cpuinsn_imm": (3, 4, 5), "orc_vex_emit_cpuinsn_load_memoffset": (5, 6, 7),
           "orc_vex_emit_cpuinsn_store_memoffset": (5, 6), "orc_vex_emit_cpuinsn_load_memindex": (5, 6, 8), "orc_vex_emit_cpuinsn_store_memindex": (4, 6, 7)}


def _all_sites_low(db, sites, FORM):
    """description of the register arguments if every emit site passes only registers whose number has bit 3 clear (a constant,
    or compiler->exec_reg when every x86 assignment to it is such a constant), else None."""
    exec_vals = []
    for f in db.tu("orcprogram-x86").main_functions():
        for x in f.walk():
            if x.k == "BinaryOperator" and x.op == "=" and (access_path(x.c[0]) or "").endswith("->exec_reg"):
                exec_vals.append(strip_casts(x.c[1]).v)
    exec_low = bool(exec_vals) and all(v is not None and not (v & 8) for v in exec_vals)
    seen = set()
    for g, c in sites:
        a = c.args()
        regs = [a[i] for i in REGARGS[c.name] if i < len(a)]
        for r in regs:
            e = strip_casts(r)
            if e is None:
                return None
            if e.v is not None:
                if e.v >= 32 and (e.v & 8):                     # a register number (>= ORC_GP_REG_BASE) with bit 3 set
                    return None
                continue
            if (access_path(e) or "").endswith("->exec_reg") and exec_low:
                seen.add("compiler->exec_reg")
                continue
            return None
    return " / ".join(sorted(seen)) or "constants"
