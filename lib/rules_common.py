"""Rule families shared by several properties (R-CAP, R-SENT, R-NULL, ...)."""
from facts import ASSIGN_OPS, AnalysisBroken, access_path, strip_casts, unparse, root_var
from flow import Facts, linear, paths_in, single_defs, upper_bound, written_paths


def where(func):
    return "%s::%s" % (func.relfile, func.name)


# ---------------------------------------------------------------------------
# R-CAP
# ---------------------------------------------------------------------------
def incremented_paths(func):
    """paths that the function advances as a counter: P++, P += k, P = P + k."""
    out = {}
    for n in func.walk():
        if n.k == "UnaryOperator" and n.op == "++":
            p = access_path(n.c[0])
            if p:
                out.setdefault(p, []).append(n)
        elif n.k == "CompoundAssignOperator" and n.op == "+=":
            p = access_path(n.c[0])
            if p:
                out.setdefault(p, []).append(n)
        elif n.k == "BinaryOperator" and n.op == "=":
            p = access_path(n.c[0])
            r = linear(n.c[1])
            if p and r and r[0] == p and r[1] > 0:
                out.setdefault(p, []).append(n)
    return out


def store_targets(func):
    """yield (store-node, lhs-node) for every assignment / inc / dec and for
    the destination argument of memcpy/memset/strcpy/sprintf-style calls."""
    for n in func.walk():
        if n.k in ("BinaryOperator", "CompoundAssignOperator") and n.op in ASSIGN_OPS:
            yield n, n.c[0]
        elif n.k == "UnaryOperator" and n.op in ("++", "--"):
            yield n, n.c[0]
        elif n.k == "CallExpr" and n.name in ("memcpy", "memset", "memmove", "strcpy", "sprintf", "snprintf",
                                               "__builtin_memcpy", "__builtin_memset"):
            if len(n.c) > 1:
                yield n, n.c[1]
        elif n.k == "ReturnStmt" and n.c and n.c[0] is not None and "*" in n.c[0].ty:
            # a pointer into a table handed to the caller (append helper)
            yield n, n.c[0]


def indexed_accesses(lhs, sd):
    """walk down an l-value chain and yield (array-node, alen, index-node,
    array-path) for each fixed-capacity array indexed on the way, following
    single-definition pointer locals of the form ARR + idx / &ARR[idx]."""
    seen = 0
    n = strip_casts(lhs)
    while n is not None and seen < 12:
        seen += 1
        if n.k == "ArraySubscriptExpr":
            base = strip_casts(n.c[0])
            alen = n.get("alen")
            if alen is not None:
                yield base, alen, n.c[1], access_path(base)
            n = base
        elif n.k == "MemberExpr":
            n = strip_casts(n.c[0])
        elif n.k == "UnaryOperator" and n.op in ("*", "&"):
            n = strip_casts(n.c[0])
        elif n.k == "BinaryOperator" and n.op in ("+", "-"):
            a = strip_casts(n.c[0])
            if a is not None and a.get("alen") is not None and a.k in ("MemberExpr", "DeclRefExpr"):
                yield a, a.get("alen"), n.c[1], access_path(a)
            n = a
        elif n.k == "DeclRefExpr":
            d = sd.get(n.name)
            if d is not None and "*" in n.ty:
                n = strip_casts(d)
            else:
                return
        else:
            return


def _eq_counter_fact(func, facts, st, idxname, counters):
    """search-or-append idiom:  if (i == P) { P++; A[i] = ... }  — returns
    (P, increment-node) when the store is dominated by the true edge of
    `i == P` and by an increment of P that the test dominates."""
    for n in func.walk():
        if n.k != "BinaryOperator" or n.op != "==":
            continue
        l, r = access_path(n.c[0]), access_path(n.c[1])
        P = r if l == idxname else l if r == idxname else None
        if P is None or P not in counters:
            continue
        # the test's TRUE edge must dominate the store
        pos = func.pos(n)
        if pos is None:
            continue
        tb = None
        for b in func.blocks.values():
            if b.cond is n and len(b.succs) == 2 and b.succs[0] is not None:
                tb = b.succs[0]
        spos = func.pos(st)
        if tb is None or spos is None or tb not in func.dom().get(spos[0], ()):
            continue
        for inc in counters[P]:
            ipos = func.pos(inc)
            if ipos is not None and tb in func.dom().get(ipos[0], ()) and func.dominates(inc, st):
                return P, inc
    return None, None


def rcap(db, func, rep, rule="R-CAP", counters_only=True, caller_summaries=True, extra_counters=(),
         same_object=True, armed=None):
    """Capacity rule on append-style stores of `func`.
    armed(apath, func) -> True (verdict) / False (info only) / None (skip)."""
    sd = single_defs(func)
    resolve = lambda name: sd.get(name)
    counters = incremented_paths(func)
    for p in extra_counters:
        counters.setdefault(p, [])
    facts = Facts(func)
    seen = set()
    count = 0
    for st, lhs in store_targets(func):
        for arr, alen, idx, apath in indexed_accesses(lhs, sd):
            hres = _index_helper(db, func, idx, sd)
            if hres is not None:
                # index computed by a static helper: the bound must hold on every non-constant return of the helper
                H, rets = hres
                isarmed = True if armed is None else armed(apath, func)
                if isarmed is None or not facts.reachable(st):
                    continue
                hf = Facts(H)
                hsd = single_defs(H)
                for r, hlin in rets:
                    if hlin[0] is None:
                        ok, ubtxt, cp = 0 <= hlin[1] <= alen - 1, "constant %d" % hlin[1], "const"
                    else:
                        cp, hoff = hlin
                        ub = upper_bound(hf.conds(r), cp, lambda nm: hsd.get(nm))
                        ok, ubtxt = ub is not None and ub + hoff <= alen - 1, "ub=%s%+d" % (ub, hoff)
                    key = (apath, "%s():%s" % (H.name, cp))
                    if key in seen:
                        continue
                    seen.add(key)
                    count += 1
                    rep.saw(func)
                    inst = "%s[%s()]" % (apath, H.name) if cp == "const" else "%s[%s]" % (apath, cp)
                    if ok:
                        rep.ok(rule, where(func), inst, "store %s: index returned by %s is bounded (%s, capacity %d)" % (unparse(lhs)[:80], H.name, ubtxt, alen))
                    elif isarmed:
                        rep.violation(rule, where(func), inst,
                                      "store to %s uses the index returned by %s (`return %s`), which is not bounded by the capacity %d on that return path (%s)" %
                                      (unparse(lhs)[:80], H.name, unparse(r.c[0])[:80], alen, ubtxt), line=st.line)
                    else:
                        rep.info("%s: unarmed R-CAP instance %s in %s (index helper %s) has no bound" % (rule, inst, where(func), H.name))
                continue
            lin = linear(idx, resolve)
            if lin is None or lin[0] is None:
                continue
            cpath, off = lin
            at = st          # where the bound must hold
            ix = strip_casts(idx)
            if ix is not None and ix.k == "DeclRefExpr" and ix.name in sd and func.pos(sd[ix.name]) is not None:
                at = sd[ix.name]   # index value is fixed where the local is defined
            comps = cpath.split("+")
            direct = any(c in counters for c in comps) and \
                (not same_object or all(_same_object(apath, c, func) for c in comps))
            if counters_only and not direct:
                # search-or-append through a local index
                if len(comps) == 1 and "->" not in cpath and "." not in cpath:
                    P, inc = _eq_counter_fact(func, facts, st, cpath, counters)
                    if P is None or (same_object and not _same_object(apath, P, func)):
                        continue
                    cpath, comps, at = P, [P], inc
                else:
                    continue
            if not facts.reachable(st):
                continue
            key = (apath, cpath)
            if key in seen:
                continue
            isarmed = True if armed is None else armed(apath, func)
            if isarmed is None:
                continue
            conds = facts.conds(at)
            ub = upper_bound(conds, cpath, resolve)
            if at is not st and (ub is None or ub + off > alen - 1):
                conds2 = facts.conds(st)
                ub2 = upper_bound(conds2, cpath, resolve)
                if ub2 is not None and (ub is None or ub2 < ub):
                    ub, conds = ub2, conds2
            asserted = False
            if ub is not None:
                for c in conds:
                    if c[0] != "switch" and "ORC_ASSERT" in c[0].mac and (set(comps) & paths_in(c[0])):
                        asserted = True
            ok = ub is not None and ub + off <= alen - 1
            via = "own check"
            if not ok and caller_summaries and func.static and len(comps) == 1:
                ok2, why = _callers_bound(db, func, cpath, off, alen, st)
                if ok2:
                    ok, via = True, why
            inst = "%s[%s]" % (apath, cpath)
            seen.add(key)
            count += 1
            rep.saw(func)
            if ok:
                rep.ok(rule, where(func), inst,
                       "store %s index=%s%+d bounded by %s (capacity %d)%s" %
                       (unparse(lhs)[:80], cpath, off, via if via != "own check" else "ub=%s" % ub, alen,
                        " [abort-guarded by ORC_ASSERT]" if asserted else ""))
            elif isarmed:
                rep.violation(rule, where(func), inst,
                              "store to %s at index %s%+d with capacity %d is not dominated by a bound check on %s (best upper bound: %s)" %
                              (unparse(lhs)[:80], cpath, off, alen, cpath, ub), line=st.line)
            else:
                rep.info("%s: unarmed R-CAP instance %s in %s has no dominating bound (count is fixed by the backend skeleton; see tables/c05_rcap.json)" %
                         (rule, inst, where(func)))
    return count


def _index_helper(db, func, idx, sd):
    """(helper, [(return node, linear form)]) if the index is a local whose only definition is a call to a function of the
    same translation unit that is passed the caller's variables unchanged and returns linear index expressions."""
    ix = strip_casts(idx)
    if ix is None or ix.k != "DeclRefExpr" or ix.name not in sd:
        return None
    d = strip_casts(sd[ix.name])
    if d is None or d.k != "CallExpr" or not d.name:
        return None
    H = func.tu.fn.get(d.name)
    if H is None or H is func:
        return None
    pn = [p["name"] for p in H.params]
    an = [access_path(a) for a in d.args()]
    if pn != an:
        return None
    hsd = single_defs(H)
    rets = []
    for r in H.walk():
        if r.k == "ReturnStmt" and r.c and r.c[0] is not None:
            e = strip_casts(r.c[0])
            if e.v is not None:
                rets.append((r, (None, e.v)))
                continue
            lin = linear(e, lambda nm: hsd.get(nm))
            if lin is None:
                return None
            rets.append((r, lin))
    if not any(l[0] is not None for _, l in rets):
        return None
    return H, rets


def _parent(path):
    for sep in ("->", "."):
        i = path.rfind(sep)
        if i > 0:
            return path[:i]
    return None


def _same_object(apath, cpath, func):
    if apath is None:
        return False
    pa, pc = _parent(apath), _parent(cpath)
    if pa is not None and pc is not None:
        return pa == pc
    if pa is None and pc is None:
        # both plain variables: only file-scope tables with file-scope counters
        locs = {p["name"] for p in func.params}
        for n in func.walk():
            if n.k == "VarDecl" and not n.get("static"):
                locs.add(n.name)
        return apath not in locs and cpath not in locs
    return False


def _callers_bound(db, func, cpath, off, alen, store):
    """every caller checks the counter before the call (one level)."""
    callers = [(f, c) for (f, c) in db.callers().get(func.name, []) if f.tu is func.tu or not func.static]
    if not callers:
        return False, "no callers"
    # counter must not be advanced in the callee before the store
    for n in func.walk():
        if cpath in written_paths(n) and not func.dominates(store, n):
            return False, "callee writes counter before store"
    pnames = [p["name"] for p in func.params]
    for f, call in callers:
        m = {}
        for pn, a in zip(pnames, call.args()):
            ap = access_path(a)
            if ap:
                m[pn] = ap[1:] if ap.startswith("&") else ap
        root = cpath.split("->")[0].split(".")[0].split("[")[0]
        if root not in m:
            return False, "cannot map %s into caller %s" % (root, f.name)
        cp2 = m[root] + cpath[len(root):]
        if cpath[len(root):].startswith("->") and not call.args()[pnames.index(root)].ty.endswith("*"):
            cp2 = m[root] + "." + cpath[len(root) + 2:]
        fc = Facts(f)
        sd = single_defs(f)
        ub = upper_bound(fc.conds(call), cp2, lambda nm: sd.get(nm))
        if ub is None or ub + off > alen - 1:
            return False, "caller %s does not bound %s" % (f.name, cp2)
    return True, "bound checked by every caller (%s)" % ", ".join(sorted({f.name for f, _ in callers}))


# ---------------------------------------------------------------------------
# R-SENT : failure sentinel of a callee must be tested before use
# ---------------------------------------------------------------------------
def returned_constants(func):
    """set of integer constants / 'NULL' the function returns literally."""
    out = set()
    for n in func.walk():
        if n.k == "ReturnStmt" and n.c and n.c[0] is not None:
            e = strip_casts(n.c[0])
            if e.v is not None:
                out.add(e.v)
    return out


def result_uses(func, call):
    """(var-name or None, nodes using the result).  Handles `x = f()`,
    `T x = f()`, and direct use of the call as an operand."""
    p = call.parent
    while p is not None and p.k in ("CStyleCastExpr",):
        p = p.parent
    if p is None:
        return None, []
    if p.k == "VarDecl":
        return p.name, None
    if p.k == "BinaryOperator" and p.op == "=" and strip_casts(p.c[1]) is call:
        return access_path(p.c[0]), None
    return None, [p]


def is_null_test(cond, pol, path, sentinel):
    """does (cond, pol) establish `path != sentinel`?  sentinel: int or 'NULL'(0)
    For sentinel -1 accepts  x != -1, x >= 0, x > -1, !(x < 0), !(x == -1)."""
    n = cond
    if n.k in ("DeclRefExpr", "MemberExpr", "ArraySubscriptExpr"):
        return sentinel == 0 and access_path(n) == path and pol
    if n.k != "BinaryOperator":
        return False
    from flow import CMP, NEG, SWAP
    if n.op not in CMP:
        return False
    op = n.op if pol else NEG[n.op]
    l, r = strip_casts(n.c[0]), strip_casts(n.c[1])
    if access_path(l) == path and r.v is not None:
        k = r.v
    elif access_path(r) == path and l.v is not None:
        k = l.v
        op = SWAP[op]
    else:
        return False
    if op == "!=":
        return k == sentinel
    if sentinel < 0 or sentinel == 0:
        if op == ">=":
            return k > sentinel
        if op == ">":
            return k >= sentinel
    if op == "==":
        return k != sentinel
    return False


def free_then_null(f, rep, rule, recs, releasers=("free", "orc_code_free")):
    """R-NULL after release: a field of a longer-lived record that function f frees must be overwritten (NULL or a
    new value) on every path from the free to the function's exit.  Returns the number of instances judged."""
    from flow import paths_avoiding
    from ownership import object_key
    n = 0
    for c in f.calls():
        if c.name not in releasers:
            continue
        a = strip_casts(c.args()[0])
        if a is None or a.k not in ("MemberExpr", "ArraySubscriptExpr"):
            continue
        rec, suf = object_key(a)
        if rec not in recs:
            continue
        p = access_path(a)
        n += 1
        w = paths_avoiding(f, c, lambda e, pp=p: e.k == "BinaryOperator" and e.op == "=" and access_path(e.c[0]) == pp)
        rep.check(w is None, rule, where(f), p,
                  "freed field is overwritten (NULL or new value) before the function returns",
                  "%s frees %s and can return with the dangling pointer still in the field (double free / use after free later)" % (f.name, p),
                  line=c.line)
    return n


def check_code_exec_nonnull(db, rep, rule):
    """Every value the compile driver stores into program->code_exec (and from there into orccode->exec, which generated
    wrappers call directly) is a definite function pointer: the address of a function, the JIT entry point, or a pointer
    field that is known to be non-NULL at the store."""
    f = db.func("orc_compiler_compile_program", "orccompiler")
    fc = Facts(f)
    n = 0
    for st in f.walk():
        if not (st.k == "BinaryOperator" and st.op == "=" and (access_path(st.c[0]) or "").endswith("->code_exec")):
            continue
        n += 1
        v = strip_casts(st.c[1])
        ok, why = False, ""
        if v is not None and v.k == "DeclRefExpr" and v.get("dk") == "func":
            ok, why = True, "address of %s" % v.name
        elif v is not None and v.k == "UnaryOperator" and v.op == "&":
            ok, why = True, "address-of expression"
        else:
            p = access_path(v)
            conds = fc.conds(st)
            if p and any(c[0] != "switch" and access_path(c[0]) == p and c[1] is True for c in conds):
                ok, why = True, "%s tested non-NULL" % p
            elif p and p.endswith("->exec"):
                # the JIT entry point: valid once the chunk test has passed (C05 D2a decides that)
                ok, why = any(c[0] != "switch" and (access_path(c[0]) or "").endswith("->chunk") and c[1] is True for c in conds), "JIT entry after the chunk test"
        rep.check(ok, rule, where(f), "code_exec=%s" % (access_path(v) or unparse(v))[:40],
                  "code_exec is given a definite function pointer (%s)" % why,
                  "program->code_exec is set to `%s`, which may be NULL here: the detached OrcCode (orccode->exec) is called directly by generated "
                  "wrappers, so a NULL fallback crashes instead of emulating" % unparse(v)[:60], line=st.line)
    if n < 4:
        raise AnalysisBroken("only %d stores into program->code_exec found in the compile driver" % n)
    return n


FMT_BOUNDED = ("snprintf", "vsnprintf")
LENGTH_SINKS = {"memcpy": 2, "memmove": 2, "strncpy": 2, "memset": 2, "fwrite": 2}


def check_snprintf_lengths(db, funcs, rep, rule):
    """snprintf/vsnprintf return the length the output WOULD have had, which can exceed the buffer.  A variable holding
    that result may be used as a copy length, subscript or pointer advance only where it is known to be smaller than the
    size that was passed (or the use is preceded by a clamp)."""
    n = 0
    for f in funcs:
        sd = None
        for c in f.calls():
            if c.name not in FMT_BOUNDED:
                continue
            p = c.parent
            while p is not None and p.k in ("CStyleCastExpr", "ParenExpr", "ImplicitCastExpr"):
                p = p.parent
            var = None
            if p is not None and p.k == "BinaryOperator" and p.op == "=" and strip_casts(p.c[1]) is c:
                var = access_path(p.c[0])
            elif p is not None and p.k == "VarDecl":
                var = p.name
            if var is None:
                continue
            size = c.args()[1]
            fc = Facts(f)
            for u in f.walk():
                sink = None
                if u.k == "CallExpr" and u.name in LENGTH_SINKS and len(u.args()) > LENGTH_SINKS[u.name]:
                    if var in paths_in(u.args()[LENGTH_SINKS[u.name]]):
                        sink = "%s length" % u.name
                elif u.k == "ArraySubscriptExpr" and var in paths_in(u.c[1]):
                    sink = "subscript"
                elif u.k == "CompoundAssignOperator" and u.op == "+=" and var in paths_in(u.c[1]) and "*" in (u.c[0].get("ty") or ""):
                    sink = "pointer advance"
                if sink is None or not f.dominates(c, u):
                    continue
                n += 1
                ub = upper_bound(fc.conds(u), var, None)
                szv = strip_casts(size).v
                ok = ub is not None and szv is not None and ub <= szv - 1
                rep.check(ok, rule, where(f), "%s->%s" % (c.name, sink),
                          "result of %s is bounded by the buffer size before it is used as %s" % (c.name, sink),
                          "%s uses the return value of %s (`%s`) as %s without bounding it by the buffer size %s: for output longer than the buffer the "
                          "value exceeds what was written and the access runs past the buffer" % (f.name, c.name, var, sink, unparse(size)), line=u.line)
    return n


def _lower_terms(e, sd=None):
    """set of expressions (unparsed) that e is known to be >= of, for sums and MAX-style conditionals: used for
    `new_size >= old_size + needed`.  Returns list of linear forms {text: coef} + const that are lower bounds of e."""
    e = strip_casts(e)
    if e is None:
        return []
    if e.k == "ConditionalOperator":
        # (a > b ? a : b)  >= a  and  >= b   (MAX);   any conditional >= min of both: only the MAX shape is used
        c = strip_casts(e.c[0])
        a, b = strip_casts(e.c[1]), strip_casts(e.c[2])
        if c is not None and c.k == "BinaryOperator" and c.op in ("<", "<=", ">", ">="):
            ta, tb = unparse(a), unparse(b)
            l, r = unparse(strip_casts(c.c[0])), unparse(strip_casts(c.c[1]))
            ismax = ({ta, tb} == {l, r}) and ((c.op in (">", ">=") and ta == l) or (c.op in ("<", "<=") and ta == r))
            if ismax:
                return _lower_terms(a, sd) + _lower_terms(b, sd)
        return []
    if e.k == "BinaryOperator" and e.op == "+":
        out = []
        for x in _lower_terms(e.c[0], sd):
            for y in _lower_terms(e.c[1], sd):
                t = dict(x[0])
                for k, v in y[0].items():
                    t[k] = t.get(k, 0) + v
                out.append((t, x[1] + y[1]))
        return out
    if e.k == "BinaryOperator" and e.op == "*" and strip_casts(e.c[0]) is not None and strip_casts(e.c[0]).v is not None and strip_casts(e.c[0]).v >= 1:
        return [({k: v * strip_casts(e.c[0]).v for k, v in t.items()}, c * strip_casts(e.c[0]).v) for t, c in _lower_terms(e.c[1], sd)]
    if e.k == "BinaryOperator" and e.op == "*" and strip_casts(e.c[1]) is not None and strip_casts(e.c[1]).v is not None and strip_casts(e.c[1]).v >= 1:
        return [({k: v * strip_casts(e.c[1]).v for k, v in t.items()}, c * strip_casts(e.c[1]).v) for t, c in _lower_terms(e.c[0], sd)]
    if e.v is not None:
        return [({}, e.v)]
    return [({unparse(e): 1}, 0)]


def check_guarded_growth(db, funcs, rep, rule):
    """`if (used + need >= size) { size = E; buf = realloc (buf, size); }` followed by writing `need` bytes at buf + used:
    the new size must be at least old size + need (or used + need + 1).  A growth policy that does not add the amount about
    to be written (e.g. pure doubling) overflows the buffer for one long item."""
    n = 0
    for f in funcs:
        for iff in f.walk():
            if iff.k != "IfStmt" or iff.c[0] is None or iff.c[1] is None:
                continue
            c = strip_casts(iff.c[0])
            if c is None or c.k != "BinaryOperator" or c.op not in (">=", ">", "<", "<="):
                continue
            # orientation: (used + need) >= size   or  size <= used + need
            a, b = strip_casts(c.c[0]), strip_casts(c.c[1])
            if c.op in ("<", "<="):
                a, b = b, a
            if a is None or b is None or a.k != "BinaryOperator" or a.op != "+" or access_path(b) is None:
                continue
            S = access_path(b)
            used, need = unparse(strip_casts(a.c[0])), unparse(strip_casts(a.c[1]))
            body = iff.c[1]
            grows = [x for x in body.walk() if x.k in ("BinaryOperator", "CompoundAssignOperator") and x.op in ("=", "+=") and access_path(x.c[0]) == S]
            reallocs = [x for x in body.walk() if x.k == "CallExpr" and x.name in ("orc_realloc", "realloc") and S in paths_in(x)]
            if len(grows) != 1 or not reallocs:
                continue
            g = grows[0]
            lows = _lower_terms(g.c[1])
            if g.op == "+=":
                lows = [(dict(t, **{S: t.get(S, 0) + 1}), k) for t, k in lows]
            n += 1
            ok = False
            for t, k in lows:
                # >= size + need     or   >= used + need + 1
                if t.get(S, 0) >= 1 and (t.get(need, 0) >= 1):
                    ok = True
                if t.get(used, 0) >= 1 and t.get(need, 0) >= 1 and k >= 1:
                    ok = True
            rep.check(ok, rule, where(f), "grow:%s" % S,
                      "buffer grows by at least the %s about to be written" % need,
                      "%s enlarges `%s` to `%s` when %s + %s no longer fits, but that is not known to be >= %s + %s: one item longer than the "
                      "added room is written past the end of the buffer" % (f.name, S, unparse(g.c[1]) if g.op == "=" else "%s + %s" % (S, unparse(g.c[1])), used, need, S, need), line=g.line)
    return n


ALLOCATORS = {"malloc": 0, "orc_malloc": 0}
BYTE_POINTEES = ("char", "unsigned char", "signed char", "orc_uint8", "orc_int8", "void", "guint8", "uint8_t")


def check_block_offsets(db, funcs, rep, rule):
    """A pointer computed as  block + E  where block is a local holding the result of malloc(S) with constant S must not lie
    beyond the end of the block (pointer arithmetic past one-past-the-end is already undefined; every use of such a slot is out
    of bounds).  E is bounded by interval arithmetic over the enclosing counted loops' index ranges and the declared types."""
    from interval import interval
    from loops import counted
    n = 0
    for f in funcs:
        blocks = {}
        defs = {}
        for x in f.walk():
            if x.k == "VarDecl" and x.c and x.c[0] is not None:
                defs.setdefault(x.name, []).append(x.c[0])
            elif x.k == "BinaryOperator" and x.op == "=" and strip_casts(x.c[0]) is not None and strip_casts(x.c[0]).k == "DeclRefExpr":
                defs.setdefault(strip_casts(x.c[0]).name, []).append(x.c[1])
            elif x.k == "UnaryOperator" and x.op == "&" and strip_casts(x.c[0]) is not None and strip_casts(x.c[0]).k == "DeclRefExpr":
                defs.setdefault(strip_casts(x.c[0]).name, []).append(None)
        for nm, ds in defs.items():
            if len(ds) != 1 or ds[0] is None:
                continue
            r = strip_casts(ds[0])
            if r is not None and r.k == "CallExpr" and r.name in ALLOCATORS:
                a = r.args()[ALLOCATORS[r.name]]
                iv = interval(a)
                if iv is not None and iv[0] == iv[1]:
                    blocks[nm] = (iv[0], r)
        if not blocks:
            continue
        for x in f.walk():
            if x.k != "BinaryOperator" or x.op != "+" or "*" not in (x.ty or ""):
                continue
            for b, e in ((x.c[0], x.c[1]), (x.c[1], x.c[0])):
                sb = strip_casts(b)
                if sb is None or sb.k != "DeclRefExpr" or sb.name not in blocks:
                    continue
                # element size of the pointer the addition is performed on (casts between the variable and the `+` count)
                pt = (b.get("toty") if b.k == "CStyleCastExpr" else b.ty) or ""
                pointee = pt.replace("const ", "").replace("*", "").strip()
                if pointee not in BYTE_POINTEES:
                    continue
                env = {}
                p = x.parent
                while p is not None:
                    if p.k == "ForStmt":
                        c = counted(p)
                        if c and c["first"][0] is None and c["last"][0] is None:
                            lo, hi = sorted((c["first"][1], c["last"][1]))
                            env[c["var"]] = (lo, hi)
                    p = p.parent
                iv = interval(e, 0, env)
                size, alloc = blocks[sb.name]
                n += 1
                bad = iv is not None and iv[1] > size
                rep.check(not bad, rule, where(f), "%s+%s" % (sb.name, unparse(e)[:40]),
                          "offset %s into the %d-byte block `%s` stays inside it" % (iv, size, sb.name),
                          "`%s + %s` reaches byte offset %s of a block that %s(%s) made only %d bytes long%s: the slot lies outside the allocation" %
                          (sb.name, unparse(e)[:60], iv[1] if iv else "?", alloc.name, unparse(alloc.args()[0])[:50], size,
                           " (loop index ranges: %s)" % env if env else ""), line=x.line)
    return n


def check_exact_name_lookup(f, rep, rule, consequence):
    """every return of a found object in lookup function f lies where strcmp (<its name>, <requested name>) == 0 is known."""
    from flow import Facts
    fc = Facts(f)
    rets = [r for r in f.walk() if r.k == "ReturnStmt" and r.c and r.c[0] is not None and strip_casts(r.c[0]).v is None
            and strip_casts(r.c[0]).k != "CallExpr"]                 # delegation to another lookup (no name given) is not a match
    if not rets:
        raise AnalysisBroken("%s: no return of a found object" % f.name)
    for r in rets:
        exact = False
        how = []
        for c in fc.conds(r):
            if c[0] == "switch":
                continue
            n, pol = c
            for e in n.walk():
                if e.k == "CallExpr":
                    how.append(e.name)
                    if e.name == "strcmp" and pol is False:
                        exact = True
        rep.check(exact, rule, where(f), "return@%s" % r.line, "an object is returned only where strcmp (...) == 0",
                  "%s returns an object without an exact comparison of the whole name (comparisons on the path: %s): %s" % (f.name, how, consequence), line=r.line)
    return len(rets)
