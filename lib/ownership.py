"""R-OWN helpers: which fields own heap memory, what a destructor releases."""
from facts import ASSIGN_OPS, access_path, strip_casts, unparse, root_var
from flow import single_defs

ALLOCATORS = {"malloc", "calloc", "realloc", "strdup", "strndup", "orc_malloc", "orc_realloc", "_strndup",
              "orc_bytecode_parse_get_string", "orc_code_new", "_orc_getenv", "strsplit", "get_proc_cpuinfo",
              "get_tag_value", "orc_program_new", "orc_bytecode_new", "orc_parse_error_new", "orc_code_region_new",
              "orc_code_region_alloc"}
RELEASERS = {"free": 0, "orc_code_free": 0, "orc_code_chunk_free": 0, "orc_program_free": 0, "orc_bytecode_free": 0,
             "orc_parse_error_free": 0, "orc_parse_error_freev": 0}


def record_of_root(node):
    """record name the l-value chain is rooted in (through the root variable's pointer type)."""
    r = root_var(node)
    if r is None:
        return None, None
    ty = r.ty.replace("const ", "").replace("struct ", "").strip()
    if ty.endswith("*"):
        rec = ty[:-1].strip().lstrip("_")
        if rec.endswith("*"):
            return None, None
        return rec, r.name
    return None, None


def suffix_of(path, rootname):
    if path is None or not path.startswith(rootname):
        return None
    s = path[len(rootname):]
    if s.startswith("->"):
        return s[2:]
    return None


def is_alloc_expr(e, sd, depth=0):
    e = strip_casts(e)
    if e is None or depth > 3:
        return None
    if e.k == "CallExpr" and e.name in ALLOCATORS:
        return e.name
    if e.k == "DeclRefExpr" and e.name in sd:
        return is_alloc_expr(sd[e.name], sd, depth + 1)
    return None


def vasprintf_targets(func):
    """locals filled by vasprintf(&s, ...)"""
    out = set()
    for c in func.calls("vasprintf", "asprintf"):
        a = c.args()
        if a:
            p = access_path(a[0])
            if p and p.startswith("&"):
                out.add(p[1:])
    return out


def object_key(l):
    """(record, suffix) of the object that directly holds the l-value: the
    record of the last `->` dereference and the member chain from there."""
    l = strip_casts(l)
    chain = []
    n = l
    while n is not None and n.k in ("MemberExpr", "ArraySubscriptExpr"):
        chain.append(n)
        n = strip_casts(n.c[0])
    # chain is outermost..innermost; find the outermost arrow member
    parts = []
    for x in chain:
        if x.k == "ArraySubscriptExpr":
            parts.append("[]")
        else:
            parts.append(("." if parts and parts[-1] != "[]" or parts else "") + x.name if False else x.name)
            if x.get("arrow"):
                rec = (x.get("rec") or "").lstrip("_")
                parts.reverse()
                suf = ""
                for prt in parts:
                    if prt == "[]":
                        suf += "[]"
                    else:
                        suf += ("." if suf else "") + prt
                return rec, suf
    return None, None


def owned_fields(db, funcs):
    """{record: {suffix: [(func, node, how)]}} for stores of fresh allocations
    into fields; a second pass adds transfers from an owning field."""
    out = {}
    stores = []
    for f in funcs:
        sd = single_defs(f)
        vas = vasprintf_targets(f)
        for n in f.walk():
            if n.k != "BinaryOperator" or n.op != "=":
                continue
            l = strip_casts(n.c[0])
            if l is None or l.k not in ("MemberExpr", "ArraySubscriptExpr"):
                continue
            rec, suf = object_key(l)
            if rec is None:
                continue
            stores.append((f, n, rec, suf))
            al = is_alloc_expr(n.c[1], sd)
            r = strip_casts(n.c[1])
            if al is None and r is not None and r.k == "DeclRefExpr" and r.name in vas:
                al = "vasprintf"
            if al is None:
                continue
            out.setdefault(rec, {}).setdefault(suf, []).append((f, n, al))
    for f, n, rec, suf in stores:
        r = strip_casts(n.c[1])
        if r is not None and r.k in ("MemberExpr", "ArraySubscriptExpr"):
            rrec, rsuf = object_key(r)
            if rrec in out and rsuf in out[rrec] and not (rrec == rec and rsuf == suf):
                out.setdefault(rec, {}).setdefault(suf, []).append((f, n, "transfer from %s.%s" % (rrec, rsuf)))
    return out


def released_keys(db, func, depth=1):
    """{(record, suffix): [call nodes]} released by func, one level of callees included."""
    out = {}
    for c in func.calls():
        if c.name in RELEASERS:
            a = c.args()
            if not a:
                continue
            arg = strip_casts(a[RELEASERS[c.name]])
            if arg is not None and arg.k in ("MemberExpr", "ArraySubscriptExpr"):
                rec, suf = object_key(arg)
                if rec:
                    out.setdefault((rec, suf), []).append(c)
        elif depth > 0 and c.name and db.has_func(c.name):
            cf = db.func(c.name)
            if cf.body is not None and cf is not func:
                for k, v in released_keys(db, cf, depth - 1).items():
                    out.setdefault(k, []).append(c)
    return out


def released_suffixes(func, pname=None):
    """{suffix: [call nodes]} released through parameter `pname` (default: first param)."""
    if pname is None:
        if not func.params:
            return {}
        pname = func.params[0]["name"]
    out = {}
    for c in func.calls():
        if c.name in RELEASERS:
            a = c.args()
            if not a:
                continue
            p = access_path(a[RELEASERS[c.name]])
            s = suffix_of(p, pname)
            if s is not None:
                out.setdefault(s, []).append(c)
    return out
