"""Symbolic evaluation of the instruction sequence a straight-line x86 emitter produces.

orc_x86_emit_split_2_regions / _3_regions emit a short piece of scalar code that splits ex->n into the region counters the
main loop consumes:  counter1 (unaligned head, element by element), counter2 (full vector iterations), counter3 (tail).
The emit calls are read in source order (the emitters contain no C-level control flow besides the early error return); the
emitted branches and labels give the paths of the GENERATED code.  Registers and executor fields hold linear terms over
symbols; `sar` and `and` with an immediate produce structured symbols.  At the end of every emitted path the regions must
tile the array:

        counter1 + X == n      where  counter2 == X >> S  and  counter3 == X & ((1 << S) - 1)      (or both are 0 and X == 0)

Nothing is executed; what is evaluated is the emitter's own description of the code."""
from facts import AnalysisBroken, access_path, strip_casts, unparse

COND_BRANCHES = ("je", "jne", "jle", "jl", "jge", "jg", "jz", "jnz", "ja", "jae", "jb", "jbe")


class Lin(dict):
    """symbol -> coefficient, '1' is the constant term"""

    def add(self, o, k=1):
        r = Lin(self)
        for s, c in o.items():
            r[s] = r.get(s, 0) + k * c
            if r[s] == 0:
                del r[s]
        return r

    def key(self):
        return tuple(sorted(self.items()))


def _field(args):
    for a in args:
        for z in a.walk():
            if z.k == "OffsetOfExpr":
                return (z.get("opath") or "?")
    return None


def _rows(c):
    return [x.name[len("ORC_X86_"):] for x in c.args()[1].walk() if x.k == "DeclRefExpr" and (x.name or "").startswith("ORC_X86_")] if len(c.args()) > 1 else []


def emitted_ops(f):
    """abstract operations in emission order: (kind, operands..., line)"""
    ops = []
    seen = set()
    calls = sorted({c.id: c for c in f.calls()}.values(), key=lambda c: (c.line, c.id))
    for c in calls:
        nm = c.name or ""
        a = c.args()
        A = [unparse(strip_casts(x)) for x in a]
        op = None
        if nm == "orc_x86_emit_mov_memoffset_reg":
            op = ("load", _field(a), A[-1])
        elif nm == "orc_x86_emit_mov_reg_memoffset":
            op = ("store", A[2], _field(a))
        elif nm == "orc_x86_emit_cpuinsn_imm_reg":
            fam = {r.split("_")[0] for r in _rows(c)}
            if fam == {"mov"}:
                op = ("movi", a[3], A[4])
            elif fam == {"and"}:
                op = ("and", a[3], A[4])
            elif fam == {"sar"}:
                op = ("sar", a[3], A[4])
            elif fam <= {"add", "sub", "or", "xor", "shl", "shr", "imul"}:
                op = ("clobber", A[4])
        elif nm == "orc_x86_emit_cpuinsn_size":
            fam = {r.split("_")[0] for r in _rows(c)}
            if fam == {"mov"}:
                op = ("mov", A[3], A[4])
            elif fam == {"sub"}:
                op = ("sub", A[3], A[4])
            elif fam == {"add"}:
                op = ("addr", A[3], A[4])
            elif fam <= {"test", "cmp"}:
                op = ("nop",)
            else:
                op = ("clobber", A[4])
        elif nm == "orc_x86_emit_cpuinsn_memoffset_reg":
            fam = {r.split("_")[0] for r in _rows(c)}
            op = ("submem", _field(a), A[-1]) if fam == {"sub"} else ("clobber", A[-1])
        elif nm in ("orc_x86_emit_cpuinsn_reg_memoffset_s", "orc_x86_emit_cpuinsn_reg_memoffset", "orc_x86_emit_cmp_reg_memoffset", "orc_x86_emit_cmp_imm_memoffset"):
            fam = {r.split("_")[0] for r in _rows(c)}
            op = ("nop",) if fam <= {"cmp", "test"} else ("storeop", _field(a))
        elif nm == "orc_x86_emit_cpuinsn_branch":
            r = _rows(c)
            op = ("br", r[0] if r else "?", strip_casts(a[2]).v)
        elif nm == "orc_x86_emit_cpuinsn_label":
            op = ("label", strip_casts(a[2]).v)
        elif nm.startswith("orc_x86_emit_") or nm.startswith("orc_sse_emit") or nm.startswith("orc_avx"):
            raise AnalysisBroken("%s: emit call `%s` (line %s) is not modelled" % (f.name, nm, c.line))
        if op is None:
            continue
        k = (c.line, op[0]) + tuple(str(x) if not hasattr(x, "id") else unparse(x) for x in op[1:])
        if k in seen:
            continue                        # the macro's alternative encodings of one instruction
        seen.add(k)
        ops.append(op + (c.line,))
    return ops


def run_paths(ops, max_paths=64):
    """end states (mem) of every emitted path"""
    labels = {op[1]: i for i, op in enumerate(ops) if op[0] == "label"}
    info = {}
    fresh = [0]

    def sym(kind, x, s):
        name = "%s(%s,%s)" % (kind, x.key() if isinstance(x, Lin) else x, s)
        info[name] = (kind, x, s)
        return Lin({name: 1})

    def val_of(regs, r):
        if r not in regs:
            fresh[0] += 1
            regs[r] = Lin({"%s@entry%d" % (r, fresh[0]): 1})
        return regs[r]
    out = []
    stack = [(0, {}, {}, ())]
    while stack:
        i, regs, mem, trace = stack.pop()
        regs, mem = dict(regs), dict(mem)
        while i < len(ops):
            op = ops[i]
            k = op[0]
            if k == "load":
                regs[op[2]] = mem.get(op[1], Lin({op[1]: 1}))
            elif k == "store":
                mem[op[2]] = val_of(regs, op[1])
            elif k == "movi":
                v = strip_casts(op[1]).v
                regs[op[2]] = Lin({"1": v} if v else {}) if v is not None else Lin({"imm(%s)" % unparse(op[1]): 1})
            elif k == "mov":
                regs[op[2]] = val_of(regs, op[1])
            elif k == "sub":
                regs[op[2]] = val_of(regs, op[2]).add(val_of(regs, op[1]), -1)
            elif k == "addr":
                regs[op[2]] = val_of(regs, op[2]).add(val_of(regs, op[1]), 1)
            elif k == "submem":
                regs[op[2]] = val_of(regs, op[2]).add(mem.get(op[1], Lin({op[1]: 1})), -1)
            elif k in ("and", "sar"):
                regs[op[2]] = sym(k, val_of(regs, op[2]), unparse(op[1]))
            elif k == "clobber":
                fresh[0] += 1
                regs[op[1]] = Lin({"?%d" % fresh[0]: 1})
            elif k == "storeop":
                fresh[0] += 1
                mem[op[1]] = Lin({"?%d" % fresh[0]: 1})
            elif k == "br":
                if op[2] not in labels:
                    raise AnalysisBroken("emitted branch to label %s which this emitter does not define" % op[2])
                if op[1] in COND_BRANCHES:
                    if len(out) + len(stack) > max_paths:
                        raise AnalysisBroken("too many emitted paths")
                    stack.append((labels[op[2]], regs, mem, trace + ((op[-1], "taken"),)))
                    trace = trace + ((op[-1], "not taken"),)
                else:
                    i = labels[op[2]]
                    continue
            i += 1
        out.append((mem, trace))
    return out, info


def check_tiling(f, rep, rule, where):
    ops = emitted_ops(f)
    if not any(o[0] == "store" and (o[2] or "").startswith("counter") for o in ops):
        raise AnalysisBroken("%s: no emitted store to a region counter found" % f.name)
    # the emitter itself must be straight-line C (apart from an early error return)
    for x in f.body.walk():
        if x.k == "DoStmt" and x.c and len(x.c) > 1 and x.c[1] is not None and strip_casts(x.c[1]).v == 0:
            continue                        # do { ... } while (0) of a statement macro
        if x.k in ("ForStmt", "WhileStmt", "DoStmt", "SwitchStmt"):
            raise AnalysisBroken("%s contains C-level control flow (%s): emitted order is no longer the source order" % (f.name, x.k))
        if x.k == "IfStmt" and x.mac:
            continue                        # encoding choice inside an emit macro (imm8 / imm32 row, shift by 1, shift by 0 = nothing)
        if x.k == "IfStmt" and not any(y.k == "ReturnStmt" for y in x.c[1].walk()):
            raise AnalysisBroken("%s emits conditionally (if at line %s): not modelled" % (f.name, x.line))
    paths, info = run_paths(ops)
    n = 0
    for mem, trace in paths:
        n += 1
        c1, c2, c3 = mem.get("counter1", Lin()), mem.get("counter2"), mem.get("counter3")
        tr = ", ".join("branch at line %s %s" % t for t in trace) or "straight line"
        if c2 is None or c3 is None:
            rep.violation(rule, where(f), "path:%s" % tr, "on the emitted path (%s) counter2/counter3 are not both stored: the main loop and the tail run on stale counts" % tr)
            continue
        X = None
        why = None
        if not c2 and not c3:
            X = Lin()
        elif len(c2) == 1 and len(c3) == 1 and list(c2.values()) == [1] and list(c3.values()) == [1]:
            i2, i3 = info.get(next(iter(c2))), info.get(next(iter(c3)))
            if i2 and i3 and i2[0] == "sar" and i3[0] == "and" and i2[1].key() == i3[1].key():
                S, M = i2[2].replace(" ", ""), i3[2].replace(" ", "")
                if M in ("((1<<%s)-1)" % S, "((1<<(%s))-1)" % S, "(1<<%s)-1" % S, "((1<<%s)-1)" % S.strip("()")) or M == "((1<<%s)-1)" % S:
                    X = i2[1]
                else:
                    why = "counter3 is masked with `%s`, which is not (1 << %s) - 1 for the shift of counter2" % (i3[2], i2[2])
            else:
                why = "counter2 / counter3 are not the quotient and remainder of the same count (counter2 = %s, counter3 = %s)" % (dict(c2), dict(c3))
        else:
            why = "counter2 / counter3 are not of the form x >> s / x & mask (counter2 = %s, counter3 = %s)" % (dict(c2), dict(c3))
        if X is None:
            rep.violation(rule, where(f), "path:%s" % tr, "%s: on the emitted path (%s) %s" % (f.name, tr, why))
            continue
        total = c1.add(X)
        ok = total.key() == Lin({"n": 1}).key()
        rep.check(ok, rule, where(f), "path:%s" % tr,
                  "counter1 + (counter2 << s) + counter3 == n on this emitted path",
                  "%s: on the emitted path (%s) the three regions do not add up to ex->n: counter1 = %s, regions 2+3 cover %s, together %s. The generated "
                  "loops then process a different number of elements than the caller asked for (reads and writes past element n-1 when it is larger)" %
                  (f.name, tr, dict(c1) or 0, dict(X) or 0, dict(total) or 0))
    return n
