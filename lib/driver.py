"""Check driver: scratch build dir -> facts -> rule module -> verdict + evidence."""
import atexit
import concurrent.futures
import importlib
import json
import os
import shutil
import subprocess
import sys
import tempfile
import time

HERE = os.path.dirname(os.path.abspath(__file__))
VERIF = os.path.dirname(HERE)
REPO = os.environ.get("ORC_REPO", "/repo")
sys.path.insert(0, HERE)
sys.path.insert(0, VERIF)

import facts  # noqa: E402
from facts import AnalysisBroken  # noqa: E402

ORCSA = os.path.join(VERIF, "build", "orcsa")
ORCSA_SRC = os.path.join(VERIF, "tools", "orcsa.cc")
LLVM = "/usr/lib/llvm-14/lib"


def build_orcsa():
    """(Re)build the extractor when missing or older than its source."""
    if os.path.exists(ORCSA) and os.path.getmtime(ORCSA) >= os.path.getmtime(ORCSA_SRC):
        return
    os.makedirs(os.path.dirname(ORCSA), exist_ok=True)
    cxxflags = subprocess.check_output(["llvm-config-14", "--cxxflags"], text=True).split()
    tmp = ORCSA + ".tmp.%d" % os.getpid()
    cmd = ["clang++"] + cxxflags + ["-O1", "-fno-rtti", ORCSA_SRC, "-o", tmp,
                                     LLVM + "/libclang-cpp.so.14", LLVM + "/libLLVM-14.so"]
    subprocess.check_call(cmd)
    os.replace(tmp, ORCSA)


class Violation:
    def __init__(self, rule, where, instance, detail, line=None):
        self.rule, self.where, self.instance, self.detail, self.line = rule, where, instance, detail, line

    @property
    def key(self):
        return "%s|%s|%s" % (self.rule, self.where, self.instance)


class Report:
    def __init__(self, pid):
        self.pid = pid
        self.obligations = []      # (rule, instance-key, detail)
        self.violations = []
        self.infos = []
        self.floors = {}
        self.assumptions = []
        self.explanation = ""
        self.analysed = {"units": set(), "functions": set()}
        self.extra = {}

    def ok(self, rule, where, instance, detail=""):
        self.obligations.append((rule, "%s|%s" % (where, instance), "held", detail))

    def violation(self, rule, where, instance, detail, line=None):
        self.obligations.append((rule, "%s|%s" % (where, instance), "VIOLATED", detail))
        self.violations.append(Violation(rule, where, instance, detail, line))

    def check(self, cond, rule, where, instance, detail_ok="", detail_bad="", line=None):
        if cond:
            self.ok(rule, where, instance, detail_ok)
        else:
            self.violation(rule, where, instance, detail_bad or detail_ok, line)
        return cond

    def info(self, text):
        self.infos.append(text)

    def floor(self, rule, n):
        """at least n obligations must have been generated for `rule`."""
        self.floors[rule] = n

    def saw(self, func):
        self.analysed["functions"].add("%s::%s" % (func.relfile, func.name))
        self.analysed["units"].add(func.tu.base)

    def count(self, rule):
        return sum(1 for o in self.obligations if o[0] == rule)


class Ctx:
    def __init__(self, pid, tier, scratch, builddir, factdir):
        self.pid, self.tier, self.scratch, self.builddir, self.factdir = pid, tier, scratch, builddir, factdir
        self._db = None
        self._fixdb = {}
        self.report = Report(pid)
        self.repo = REPO
        self.verif = VERIF
        self.seed = int(os.environ.get("VERIF_SEED", "0") or 0)

    # ---- facts ----------------------------------------------------------
    def compile_db(self):
        with open(os.path.join(self.builddir, "compile_commands.json")) as f:
            return json.load(f)

    def extract(self, sources, outdir, builddir=None):
        os.makedirs(outdir, exist_ok=True)
        builddir = builddir or self.builddir

        def one(src):
            base = os.path.splitext(os.path.basename(src))[0]
            out = os.path.join(outdir, base + ".json")
            p = subprocess.run([ORCSA, "-p", builddir, src, "-o", out],
                               stdout=subprocess.PIPE, stderr=subprocess.PIPE, text=True)
            if p.returncode != 0 or not os.path.exists(out) or os.path.getsize(out) == 0:
                return (src, p.stderr[-2000:])
            return None
        with concurrent.futures.ThreadPoolExecutor(max_workers=16) as ex:
            errs = [e for e in ex.map(one, sources) if e]
        if errs:
            raise AnalysisBroken("extractor failed on %s: %s" % (errs[0][0], errs[0][1]))

    def db(self):
        """Facts for every library / tool TU of the build (all backends)."""
        if self._db is None:
            srcs = []
            for e in self.compile_db():
                f = os.path.normpath(os.path.join(e["directory"], e["file"]))
                rel = os.path.relpath(f, REPO)
                if rel.startswith("orc/") or rel.startswith("tools/") or rel == "examples/volscale.c":
                    srcs.append(f)
            srcs = sorted(set(srcs))
            if len(srcs) < 40:
                raise AnalysisBroken("compile database lists only %d library/tool units" % len(srcs))
            self.extract(srcs, self.factdir)
            self._db = facts.DB(self.factdir)
        return self._db

    def fixture_db(self, names):
        """Facts for /verif/fixtures/<name>.c (positive controls)."""
        key = tuple(sorted(names))
        if key in self._fixdb:
            return self._fixdb[key]
        fdir = os.path.join(self.scratch, "fix")
        bdir = os.path.join(self.scratch, "fixb")
        os.makedirs(bdir, exist_ok=True)
        cdb = []
        srcs = []
        for n in names:
            src = os.path.join(VERIF, "fixtures", n + ".c")
            if not os.path.exists(src):
                raise AnalysisBroken("fixture %s missing" % src)
            srcs.append(src)
            cdb.append({"directory": bdir, "file": src,
                        "command": "cc -I%s -I%s -I%s/orc -DHAVE_CONFIG_H -DORC_ENABLE_UNSTABLE_API -D_GNU_SOURCE -c %s" %
                        (self.builddir, REPO, REPO, src)})
        with open(os.path.join(bdir, "compile_commands.json"), "w") as f:
            json.dump(cdb, f)
        self.extract(srcs, fdir, bdir)
        d = facts.DB(fdir)
        self._fixdb[key] = d
        return d

    def snippet_db(self, name, text, flags=""):
        """Facts for a synthetic translation unit (e.g. instantiated code templates of a generator), compiled with the
        include paths and defines of the library build.  The file lives in the scratch directory only."""
        sdir = os.path.join(self.scratch, "snip_" + name)
        os.makedirs(sdir, exist_ok=True)
        src = os.path.join(sdir, name + ".c")
        with open(src, "w") as f:
            f.write(text)
        with open(os.path.join(sdir, "compile_commands.json"), "w") as f:
            json.dump([{"directory": sdir, "file": src,
                        "command": "cc %s -I%s -I%s -I%s/orc -DHAVE_CONFIG_H -DORC_ENABLE_UNSTABLE_API -D_GNU_SOURCE -c %s" %
                        (flags, self.builddir, REPO, REPO, src)}], f)
        self.extract([src], os.path.join(sdir, "facts"), sdir)
        return facts.DB(os.path.join(sdir, "facts"))

    def read(self, rel):
        with open(os.path.join(REPO, rel), errors="replace") as f:
            return f.read()


def load_known(pid):
    path = os.path.join(VERIF, "known_findings.txt")
    known = {}
    if os.path.exists(path):
        for line in open(path):
            line = line.strip()
            if not line or line.startswith("#"):
                continue
            if line.startswith("known:"):
                parts = line.split(None, 3)
                # known: property=Cxx key=<key> <text>
                kv = dict(p.split("=", 1) for p in parts[1:3] if "=" in p)
                if kv.get("property") == pid and "key" in kv:
                    known[kv["key"]] = parts[3] if len(parts) > 3 else ""
    return known


def main(argv=None):
    argv = argv or sys.argv[1:]
    if not argv:
        print("usage: check <property-id> [--tier quick|thorough] [--explain <replay.json>]")
        return 2
    pid = argv[0]
    tier = os.environ.get("VERIF_TIER", "quick")
    explain = None
    i = 1
    while i < len(argv):
        if argv[i] == "--tier":
            tier = argv[i + 1]
            i += 2
        elif argv[i] in ("--explain", "--replay"):
            explain = argv[i + 1]
            i += 2
        else:
            i += 1
    if tier not in ("quick", "thorough"):
        tier = "quick"
    t0 = time.time()
    evdir = os.environ.get("VERIF_EVIDENCE_DIR") or os.path.join(VERIF, "evidence")
    os.makedirs(os.path.join(evdir, "replay"), exist_ok=True)
    evfile = os.path.join(evdir, pid + ".json")

    base = os.environ.get("TMPDIR") or "/var/tmp"
    os.makedirs(base, exist_ok=True)
    scratch = tempfile.mkdtemp(prefix="orcverif.%s." % pid, dir=base)
    atexit.register(lambda: shutil.rmtree(scratch, ignore_errors=True))
    ctx = None
    rc = 0
    broken = None
    try:
        build_orcsa()
        bdir = os.path.join(scratch, "b")
        p = subprocess.run(["meson", "setup", bdir, REPO], stdout=subprocess.PIPE,
                           stderr=subprocess.STDOUT, text=True)
        if p.returncode != 0:
            raise AnalysisBroken("meson setup failed:\n" + p.stdout[-3000:])
        ctx = Ctx(pid, tier, scratch, bdir, os.path.join(scratch, "facts"))
        mod = importlib.import_module("rules.%s" % pid.lower())
        mod.run(ctx)
        rep = ctx.report
        for rule, n in rep.floors.items():
            got = rep.count(rule)
            if got < n:
                raise AnalysisBroken("rule %s matched %d instances, floor is %d (anchor drifted?)" % (rule, got, n))
        if not rep.obligations:
            raise AnalysisBroken("no obligations generated")
    except AnalysisBroken as e:
        broken = str(e)
    except Exception as e:  # extractor / rule crash = analysis broken, never a verdict
        import traceback
        broken = "internal error: %s\n%s" % (e, traceback.format_exc())

    rep = ctx.report if ctx else Report(pid)
    known = load_known(pid)
    new_viol = []
    known_hit = []
    for v in rep.violations:
        if v.key in known:
            known_hit.append(v)
        else:
            new_viol.append(v)
    for v in known_hit:
        print("KNOWN-FINDING: property=%s %s -- %s" % (pid, v.key, v.detail))
    stale = [k for k in known if k not in {v.key for v in rep.violations}]
    n = 0
    for v in new_viol:
        n += 1
        rp = os.path.join(evdir, "replay", "%s-%d.json" % (pid, n))
        with open(rp, "w") as f:
            json.dump({"property": pid, "rule": v.rule, "where": v.where, "instance": v.instance,
                       "detail": v.detail, "line": v.line, "key": v.key,
                       "how": "re-run `bin/check %s --explain %s`; the rule names the construct, read it at the given location" % (pid, rp)},
                      f, indent=1)
        print("%s:%s: %s: %s [%s]" % (v.where, v.line or "?", v.rule, v.detail, v.instance))
        print("VIOLATION property=%s replay=%s" % (pid, rp))
    if broken:
        print("ANALYSIS-BROKEN property=%s: %s" % (pid, broken))
        rc = 2
    if new_viol:
        rc = 1          # a rule instance that was judged and failed is a verdict even if a later rule could not run
    for s in stale:
        if not broken:
            print("NOTE: known finding no longer reported (fixed? move to a fixed: line): %s" % s)

    # ---- evidence ---------------------------------------------------------
    per_rule = {}
    for rule, key, st, det in rep.obligations:
        r = per_rule.setdefault(rule, {"obligations": 0, "held": 0, "violated": 0})
        r["obligations"] += 1
        r["held" if st == "held" else "violated"] += 1
    distinct = len({(o[0], o[1]) for o in rep.obligations})
    samples = []
    seen_rules = set()
    for o in rep.obligations:
        if o[0] not in seen_rules or len(samples) < 12:
            if sum(1 for s in samples if s["rule"] == o[0]) < 3:
                samples.append({"rule": o[0], "instance": o[1], "status": o[2], "detail": o[3][:300]})
            seen_rules.add(o[0])
    ev = {
        "property_id": pid,
        "tier": tier,
        "seed": int(os.environ.get("VERIF_SEED", "0") or 0),
        "level": "other",
        "coverage": {
            "explanation": rep.explanation or "static analysis; see rules",
            "evaluations": len(rep.obligations),
            "distinct_nontrivial": distinct,
            "rule": "one obligation per (rule, construct) instance found in the current /repo sources; distinct = distinct (rule, instance) keys",
            "samples": samples[:40],
            "per_rule": per_rule,
            "floors": rep.floors,
            "units_analysed": sorted(rep.analysed["units"]),
            "functions_analysed": len(rep.analysed["functions"]),
            "functions_sample": sorted(rep.analysed["functions"])[:25],
            "known_findings_reported": [v.key for v in known_hit],
            "info": rep.infos[:200],
            "analysis_broken": broken,
            "exhaustive": False,
        },
        "assumptions": rep.assumptions,
        "wall_s": round(time.time() - t0, 2),
        "violations": len(new_viol),
    }
    ev["coverage"].update(rep.extra)
    with open(evfile, "w") as f:
        json.dump(ev, f, indent=1, sort_keys=True)
    print("%s: %s tier=%s obligations=%d violations=%d known=%d wall=%.1fs" %
          (pid, ("FAIL+BROKEN" if (rc == 1 and broken) else {0: "PASS", 1: "FAIL", 2: "BROKEN"}[rc]), tier, len(rep.obligations), len(new_viol),
           len(known_hit), time.time() - t0))
    if explain:
        try:
            want = json.load(open(explain)).get("key")
        except Exception:
            want = explain
        for o in rep.obligations:
            if want and want.split("|", 1)[-1] in o[1]:
                print("EXPLAIN", o)
    return rc


if __name__ == "__main__":
    sys.exit(main())
