"""Integer interval of a C expression, from the declared types of its leaves (no values are run).

interval(n) -> (lo, hi) over-approximating every value the expression can take, or None when nothing is known.
The only facts used are: the width/signedness of each leaf's type, integer literals, and the arithmetic of
+ - * / & >> unary- ?: and casts.  A result that does not fit the node's own integer type is replaced by that
type's full range (wrap-around), so the result is always a sound superset.

saturations(func) finds two-sided saturation expressions  (X < LO) ? LO : ((HI < X) ? HI : X)  (any orientation of
the comparisons, either nesting order) and says whether they can take effect: X's interval is not inside [LO, HI].
"""
from facts import strip_casts, unparse
from flow import cmp_parts
from widen import INT_TYPES

CASTS = ("ImplicitCastExpr", "CStyleCastExpr", "ParenExpr")


def type_range(ty):
    t = (ty or "").replace("const ", "").replace("volatile ", "").strip()
    r = INT_TYPES.get(t)
    if r is None:
        return None
    bits, signed = r
    return (-(1 << (bits - 1)), (1 << (bits - 1)) - 1) if signed else (0, (1 << bits) - 1)


def _fit(iv, ty):
    tr = type_range(ty)
    if iv is None:
        return tr
    if tr is None:
        return iv
    if iv[0] < tr[0] or iv[1] > tr[1]:
        return tr
    return iv


def _sp(n):
    while n is not None and n.k in ("ParenExpr", "ImplicitCastExpr") and n.c:
        n = n.c[0]
    return n


def _key(n):
    return unparse(_sp(n))


def _common(ta, tb):
    """(bits, signed) of the usual arithmetic conversions of two integer types, or None."""
    a, b = INT_TYPES.get(_tn(ta)), INT_TYPES.get(_tn(tb))
    if a is None or b is None:
        return None
    a = (32, True) if a[0] < 32 else a
    b = (32, True) if b[0] < 32 else b
    if a[1] == b[1]:
        return (max(a[0], b[0]), a[1])
    u, sg = (a, b) if not a[1] else (b, a)
    return (u[0], False) if u[0] >= sg[0] else (sg[0], True)


def _tn(ty):
    return (ty or "").replace("const ", "").replace("volatile ", "").strip()


SWAPOP = {"<": ">", ">": "<", "<=": ">=", ">=": "<="}


def cmp_const(cond, env=None, depth=0):
    """Split `X op K` / `K op X` (K an integer constant) as C evaluates it: both sides are converted to the common type
    first.  -> (X node, op with X on the left, K converted, interval of X converted) or None."""
    c = _sp(cond)
    if c is None or c.k != "BinaryOperator" or c.op not in SWAPOP:
        return None
    a, b, op = _sp(c.c[0]), _sp(c.c[1]), c.op
    if a is not None and a.v is not None and isinstance(a.v, int) and not (b is not None and b.v is not None):
        a, b, op = b, a, SWAPOP[op]
    if a is None or b is None or b.v is None or not isinstance(b.v, int):
        return None
    ct = _common(a.ty, b.ty)
    iv = interval(a, depth + 1, env)
    k = b.v
    if ct is not None and not ct[1]:
        k %= 1 << ct[0]
        if iv is None or iv[0] < 0 or iv[1] >= (1 << ct[0]):
            iv = (0, (1 << ct[0]) - 1)
    return a, op, k, iv


def _meet(a, b):
    if a is None:
        return b
    if b is None:
        return a
    lo, hi = max(a[0], b[0]), min(a[1], b[1])
    return (lo, hi) if lo <= hi else None          # None here = unreachable; callers treat it as "no constraint"


def _refine(cond, env, depth):
    """(env_true, env_false) for a comparison of an expression with a constant; (env, env) otherwise."""
    p = cmp_const(cond, env, depth)
    if p is None or p[3] is None:
        return env, env
    x, op, k, iv = p
    if interval(x, depth + 1, env) != iv:
        return env, env            # the comparison sees a converted value; no refinement of the unconverted one
    big = 1 << 70
    t = {"<": (-big, k - 1), "<=": (-big, k), ">": (k + 1, big), ">=": (k, big)}[op]
    f = {"<": (k, big), "<=": (k + 1, big), ">": (-big, k), ">=": (-big, k - 1)}[op]
    key = _key(x)
    et, ef = dict(env), dict(env)
    et[key], ef[key] = _meet(iv, t) or iv, _meet(iv, f) or iv
    return et, ef


def interval(n, depth=0, env=None):
    env = env or {}
    if n is None or depth > 40:
        return None
    if n.v is not None and isinstance(n.v, int):
        return (n.v, n.v)
    if env:
        kx = _key(n)
        if kx in env:
            return env[kx]
    k = n.k
    if k in CASTS:
        return _fit(interval(n.c[0], depth + 1, env) if n.c else None, n.get("toty") or n.ty)
    if k == "UnaryOperator" and n.op == "-":
        a = interval(n.c[0], depth + 1, env)
        return _fit((-a[1], -a[0]) if a else None, n.ty)
    if k == "UnaryOperator" and n.op == "+":
        return _fit(interval(n.c[0], depth + 1, env), n.ty)
    if k == "ConditionalOperator":
        et, ef = _refine(n.c[0], env, depth)
        a, b = interval(n.c[1], depth + 1, et), interval(n.c[2], depth + 1, ef)
        if a is None or b is None:
            return type_range(n.ty)
        return _fit((min(a[0], b[0]), max(a[1], b[1])), n.ty)
    if k == "BinaryOperator":
        a, b = interval(n.c[0], depth + 1, env), interval(n.c[1], depth + 1, env)
        op = n.op
        if op in ("<", ">", "<=", ">=", "==", "!=", "&&", "||"):
            return (0, 1)
        if a is None or b is None:
            if op == "&" and (a or b) and (a or b)[0] >= 0:
                return _fit((0, (a or b)[1]), n.ty)
            return type_range(n.ty)
        if op == "+":
            return _fit((a[0] + b[0], a[1] + b[1]), n.ty)
        if op == "-":
            return _fit((a[0] - b[1], a[1] - b[0]), n.ty)
        if op == "*":
            ps = [x * y for x in a for y in b]
            return _fit((min(ps), max(ps)), n.ty)
        if op == "/" and b[0] > 0:
            qs = [int(x / y) for x in a for y in b]
            return _fit((min(qs + [0] if a[0] <= 0 <= a[1] else qs), max(qs + [0] if a[0] <= 0 <= a[1] else qs)), n.ty)
        if op == "&":
            if a[0] >= 0 and b[0] >= 0:
                return _fit((0, min(a[1], b[1])), n.ty)
            if a[0] >= 0:
                return _fit((0, a[1]), n.ty)
            if b[0] >= 0:
                return _fit((0, b[1]), n.ty)
            return type_range(n.ty)
        if op == ">>" and b[0] == b[1] and 0 <= b[0] < 64:
            return _fit((a[0] >> b[0], a[1] >> b[0]), n.ty)
        if op == "<<" and b[0] == b[1] and 0 <= b[0] < 64 and a[0] >= 0:
            return _fit((a[0] << b[0], a[1] << b[0]), n.ty)
        return type_range(n.ty)
    return type_range(n.ty)


def _same(a, b):
    return a is not None and b is not None and unparse(strip_casts(a)) == unparse(strip_casts(b))


def _one_sided(c):
    """For  (X < K) ? K' : R  or  (K < X) ? K' : R  return (X, 'lo'|'hi', K, R) (K constant, K' the same constant)."""
    if c is None or c.k != "ConditionalOperator":
        return None
    p = cmp_parts(c.c[0])
    if p is None:
        return None
    x, op, kk = p
    if kk is None or kk.v is None or op not in ("<", "<=", ">", ">="):
        return None
    t = strip_casts(c.c[1])
    if t is None or t.v is None or t.v != kk.v:
        return None
    return x, ("lo" if op in ("<", "<=") else "hi"), kk.v, c.c[2]


def saturations(func):
    """[(node, X, lo, hi, interval(X), effective)] for every two-sided saturation in func."""
    out, inner = [], set()
    for n in func.walk():
        if n.k != "ConditionalOperator" or n.id in inner:
            continue
        a = _one_sided(n)
        if a is None:
            continue
        r = strip_casts(a[3])
        b = _one_sided(r)
        if b is None or b[1] == a[1] or not _same(a[0], b[0]) or not _same(b[0], b[3]):
            continue
        inner.add(r.id)
        lo, hi = (a[2], b[2]) if a[1] == "lo" else (b[2], a[2])
        iv = interval(a[0])
        eff = iv is None or iv[0] < lo or iv[1] > hi
        out.append((n, a[0], lo, hi, iv, eff))
    return out


def bounds(func):
    """One-sided saturations against a constant, anywhere in func:
         (X < K) ? K : R     (K < X) ? K : R     (X < K) ? X : K     (K < X) ? X : K      (either comparison orientation)
    -> [(node, X, 'lo'|'hi', K, interval(X), effective)]; effective = X can lie beyond K on that side."""
    out = []
    for n in func.walk():
        if n.k != "ConditionalOperator":
            continue
        t, f = strip_casts(n.c[1]), strip_casts(n.c[2])
        p0 = cmp_const(n.c[0])
        if p0 is None:
            continue
        x0 = p0[0]
        kraw = [o.v for o in (_sp(_sp(n.c[0]).c[0]), _sp(_sp(n.c[0]).c[1])) if o is not None and o.v is not None][0]

        def side_of(op, k, t=t, f=f, x0=x0, kraw=kraw):
            if t is not None and t.v == kraw and not (f is not None and f.v is not None):
                return "lo" if op in ("<", "<=") else "hi"          # beyond K on that side -> K
            if f is not None and f.v == kraw and _same(t, x0):
                return "hi" if op in ("<", "<=") else "lo"          # min(X, K) / max(X, K)
            return None
        if side_of(p0[1], p0[2]) is None:
            continue
        # path conditions of enclosing conditionals refine X
        env, c = {}, n
        chain = []
        while c.parent is not None:
            if c.parent.k == "ConditionalOperator" and c.parent.c[0] is not c:
                chain.append((c.parent, c.parent.c[1] is c))
            c = c.parent
        for par, tb in reversed(chain):
            et, ef = _refine(par.c[0], env, 0)
            env = et if tb else ef
        p = cmp_const(n.c[0], env)
        x, op, k, iv = p
        side = side_of(op, k)
        if side is None:
            continue
        eff = iv is None or (iv[0] < k if side == "lo" else iv[1] > k)
        out.append((n, x, side, k, iv, eff))
    return out


def enclosing_assignment(n):
    while n is not None and not (n.k == "BinaryOperator" and n.op == "="):
        n = n.parent
    return n
