"""Finite evaluation of pure integer/boolean guard expressions.

Used to decide whether a guard is *equivalent* to a reference predicate by
enumerating a small domain for the variables it mentions (bit masks of a few
bits), instead of matching its source text."""
from facts import access_path, strip_casts, unparse


class NotPure(Exception):
    pass


def key_of(n):
    """access path of an l-value; constant subscripts are kept (`p->s[1]`), others collapse to `[]`."""
    n = strip_casts(n)
    if n is not None and n.k == "ArraySubscriptExpr" and strip_casts(n.c[1]) is not None and strip_casts(n.c[1]).v is not None:
        b = key_of(n.c[0])
        return None if b is None else "%s[%d]" % (b, strip_casts(n.c[1]).v)
    if n is not None and n.k == "MemberExpr":
        b = key_of(n.c[0])
        return None if b is None else b + ("->" if n.get("arrow") else ".") + n.name
    return access_path(n)


def variables(n, resolve=None):
    """access paths of the l-values read by expression n (single-definition locals replaced by their definitions)."""
    out = set()

    def walk(x, depth=0):
        x = strip_casts(x)
        if x is None:
            return
        if resolve is not None and x.k == "DeclRefExpr" and depth < 4:
            d = resolve(x.name)
            if d is not None:
                walk(d, depth + 1)
                return
        if x.k in ("MemberExpr", "DeclRefExpr", "ArraySubscriptExpr") and x.v is None:
            p = key_of(x)
            if p:
                out.add(p)
                return
        for c in x.c:
            if c is not None:
                walk(c, depth)
    walk(n)
    return out


def evaluate(n, env, width=32, resolve=None, depth=0):
    """value of expression n with env: access path -> int.  Raises NotPure for calls, assignments, unknown paths."""
    if n is not None and n.k == "CStyleCastExpr":
        from widen import INT_TYPES
        v = evaluate(n.c[0], env, width, resolve, depth)
        t = INT_TYPES.get((n.get("toty") or "").replace("const ", "").strip())
        if t is not None:
            bits, signed = t
            v &= (1 << bits) - 1
            if signed and v >= 1 << (bits - 1):
                v -= 1 << bits
        return v
    n = strip_casts(n)
    if n is None:
        raise NotPure("empty")
    if resolve is not None and n.k == "DeclRefExpr" and depth < 4 and access_path(n) not in env:
        d = resolve(n.name)
        if d is not None:
            return evaluate(d, env, width, resolve, depth + 1)
    mask = (1 << width) - 1
    if n.v is not None and n.k not in ("MemberExpr", "DeclRefExpr", "ArraySubscriptExpr"):
        return n.v
    if n.k == "IntegerLiteral":
        # literals beyond int64 (UINT64_MAX) carry no evaluated value in the facts: take the spelling
        from facts import unparse as _up
        try:
            return int(_up(n).rstrip("uUlL"), 0)
        except ValueError:
            pass
    if n.k in ("MemberExpr", "DeclRefExpr", "ArraySubscriptExpr"):
        p = key_of(n)
        if p in env:
            return env[p]
        if n.v is not None:
            return n.v
        raise NotPure("unknown %s" % p)
    if n.k == "ParenExpr":
        return evaluate(n.c[0], env, width, resolve, depth)
    if n.k == "UnaryOperator":
        a = evaluate(n.c[0], env, width, resolve, depth)
        if n.op == "~":
            return (~a) & mask
        if n.op == "!":
            return 0 if a else 1
        if n.op == "-":
            return -a
        if n.op == "+":
            return a
        raise NotPure(n.op)
    if n.k == "BinaryOperator":
        if n.op == "&&":
            return 1 if (evaluate(n.c[0], env, width, resolve, depth) and evaluate(n.c[1], env, width, resolve, depth)) else 0
        if n.op == "||":
            return 1 if (evaluate(n.c[0], env, width, resolve, depth) or evaluate(n.c[1], env, width, resolve, depth)) else 0
        a, b = evaluate(n.c[0], env, width, resolve, depth), evaluate(n.c[1], env, width, resolve, depth)
        ops = {"&": lambda: a & b, "|": lambda: a | b, "^": lambda: a ^ b, "+": lambda: a + b, "-": lambda: a - b, "*": lambda: a * b,
               "==": lambda: int(a == b), "!=": lambda: int(a != b), "<": lambda: int(a < b), ">": lambda: int(a > b),
               "<=": lambda: int(a <= b), ">=": lambda: int(a >= b), "<<": lambda: (a << b) & mask, ">>": lambda: a >> b}
        if n.op in ops:
            return ops[n.op]()
        raise NotPure(n.op)
    if n.k == "ConditionalOperator":
        return evaluate(n.c[1], env, width, resolve, depth) if evaluate(n.c[0], env, width, resolve, depth) else evaluate(n.c[2], env, width, resolve, depth)
    if n.k == "CallExpr" and n.name == "__builtin_expect":
        return evaluate(n.args()[0], env, width, resolve, depth)
    raise NotPure(n.k)


def admitted(conds, paths, domain, resolve=None):
    """set of assignments (tuples in the order of `paths`) under which every fact that mentions only `paths` holds."""
    import itertools
    rel = []
    for c in conds:
        if c[0] == "switch":
            continue
        vs = variables(c[0], resolve)
        if vs and vs <= set(paths):
            rel.append(c)
    out = set()
    for vals in itertools.product(domain, repeat=len(paths)):
        env = dict(zip(paths, vals))
        ok = True
        for n, pol in rel:
            try:
                v = evaluate(n, env, resolve=resolve)
            except NotPure:
                continue
            if bool(v) != bool(pol):
                ok = False
                break
        if ok:
            out.add(vals)
    return out, rel


def reachable_under(func, env, is_target, resolve=None):
    """Can control reach a CFG element satisfying is_target when every branch whose condition can be evaluated under env
    (access path -> int) goes the way env dictates?  Branches that cannot be evaluated are taken both ways."""
    seen = set()
    stack = [func.entry]
    while stack:
        b = stack.pop()
        if b in seen:
            continue
        seen.add(b)
        blk = func.blocks[b]
        for e in blk.el:
            if is_target(e):
                return True
        if blk.noreturn:
            continue
        succ = [(i, s) for i, s in enumerate(blk.succs) if s is not None]
        val = None
        if blk.cond is not None and getattr(blk, "tk", None) == "SwitchStmt":
            try:
                v = evaluate(blk.cond, env, resolve=resolve)
            except (NotPure, ValueError, ZeroDivisionError):
                v = None
            if v is not None:
                kinds = [(func.edge_kind(b, i), s) for i, s in succ]
                hit = [s for k, s in kinds if k and k[0] == "case" and k[1] is not None and k[1] <= v <= (k[2] if k[2] is not None else k[1])]
                stack.extend(hit if hit else [s for k, s in kinds if k == ("default",)])
                continue
        if blk.cond is not None and len(succ) >= 2 and all(func.edge_kind(b, i) in (True, False) for i, _ in succ):
            try:
                val = bool(evaluate(blk.cond, env, resolve=resolve))
            except (NotPure, ValueError, ZeroDivisionError):
                val = None
        for i, s in succ:
            if val is None or func.edge_kind(b, i) == val:
                stack.append(s)
    return False
