"""GNU `as` as the ISA oracle: assemble instruction strings built from a
table's OWN mnemonics and decode the resulting bytes into
(prefixes, rex/vex, escape map, opcode, modrm) — no Orc code runs."""
import os
import re
import subprocess


def assemble(lines, workdir, mode64=True, tag="a"):
    """lines: list of asm statements (one instruction each).  Returns list of
    bytes-or-None (None = the assembler rejected that line)."""
    src = os.path.join(workdir, "%s.s" % tag)
    obj = os.path.join(workdir, "%s.o" % tag)
    alive = list(range(len(lines)))
    rejected = {}
    for attempt in range(10):
        with open(src, "w") as f:
            f.write(".text\n")
            for i in alive:
                f.write("L%d:\n  %s\n" % (i, lines[i]))
            f.write("Lend:\n")
        p = subprocess.run(["as", "--64" if mode64 else "--32", src, "-o", obj],
                           stdout=subprocess.PIPE, stderr=subprocess.PIPE, text=True)
        if p.returncode == 0:
            break
        bad = set()
        for m in re.finditer(r"\.s:(\d+): Error: (.*)", p.stderr):
            ln = int(m.group(1))
            # line 1 = .text ; then pairs (label, insn)
            k = (ln - 2) // 2
            if 0 <= k < len(alive):
                bad.add(alive[k])
                rejected[alive[k]] = m.group(2)
        if not bad:
            raise RuntimeError("as failed without line diagnostics: " + p.stderr[:500])
        alive = [i for i in alive if i not in bad]
    else:
        raise RuntimeError("as did not converge")
    out = [None] * len(lines)
    if not alive:
        return out, rejected
    nm = subprocess.run(["nm", obj], stdout=subprocess.PIPE, text=True, check=True).stdout
    offs = {}
    for l in nm.splitlines():
        parts = l.split()
        if len(parts) == 3 and parts[2].startswith("L"):
            offs[parts[2]] = int(parts[0], 16)
    binf = os.path.join(workdir, "%s.bin" % tag)
    subprocess.run(["objcopy", "-O", "binary", "-j", ".text", obj, binf], check=True)
    data = open(binf, "rb").read()
    order = sorted(alive, key=lambda i: offs["L%d" % i])
    for j, i in enumerate(order):
        a = offs["L%d" % i]
        b = offs["L%d" % order[j + 1]] if j + 1 < len(order) else offs["Lend"]
        out[i] = data[a:b]
    return out, rejected


def decode(b, mode64=True):
    """decode one instruction's leading bytes."""
    d = {"legacy": [], "rex": None, "vex": None, "map": None, "opcode": None, "modrm": None, "rest": b""}
    i = 0
    while i < len(b) and b[i] in (0x66, 0xF2, 0xF3, 0x2E, 0x3E, 0x67):
        d["legacy"].append(b[i])
        i += 1
    if i < len(b) and b[i] in (0xC5, 0xC4) and (mode64 or (i + 1 < len(b) and (b[i + 1] & 0xC0) == 0xC0)):
        if b[i] == 0xC5:
            x = b[i + 1]
            d["vex"] = {"len": 2, "R": (x >> 7) ^ 1, "vvvv": (~(x >> 3)) & 0xF, "L": (x >> 2) & 1, "pp": x & 3, "W": None, "mmmmm": 1}
            i += 2
        else:
            x, y = b[i + 1], b[i + 2]
            d["vex"] = {"len": 3, "mmmmm": x & 0x1F, "W": (y >> 7) & 1, "vvvv": (~(y >> 3)) & 0xF, "L": (y >> 2) & 1, "pp": y & 3}
            i += 3
        d["map"] = {1: "0F", 2: "0F38", 3: "0F3A"}.get(d["vex"]["mmmmm"], "?")
        d["opcode"] = b[i]
        i += 1
    else:
        if mode64 and i < len(b) and 0x40 <= b[i] <= 0x4F:
            d["rex"] = b[i]
            i += 1
        if i < len(b) and b[i] == 0x0F:
            i += 1
            if i < len(b) and b[i] in (0x38, 0x3A):
                d["map"] = "0F38" if b[i] == 0x38 else "0F3A"
                i += 1
            else:
                d["map"] = "0F"
        else:
            d["map"] = "1"
        d["opcode"] = b[i] if i < len(b) else None
        i += 1
    if i < len(b):
        d["modrm"] = b[i]
    d["rest"] = b[i:]
    return d


PTR_BYTES = {"BYTE": 1, "WORD": 2, "DWORD": 4, "QWORD": 8, "XMMWORD": 16, "YMMWORD": 32, "TBYTE": 10, "FWORD": 6}


def mem_widths(lines, workdir, tag="w"):
    """bytes of memory touched by each instruction string (None when the line
    does not assemble or has no sized memory operand), read from objdump's
    Intel-syntax `<SIZE> PTR` annotation."""
    enc, rejected = assemble(lines, workdir, True, tag)
    obj = os.path.join(workdir, "%s.o" % tag)
    out = [None] * len(lines)
    if not any(e is not None for e in enc):
        return out
    dis = subprocess.run(["objdump", "-d", "-M", "intel", "--no-show-raw-insn", obj], stdout=subprocess.PIPE, text=True, check=True).stdout
    cur = None
    for l in dis.splitlines():
        m = re.match(r"^[0-9a-f]+ <L(\d+)>:", l)
        if m:
            cur = int(m.group(1))
            continue
        if cur is None or ":" not in l:
            continue
        m = re.search(r"\b(BYTE|WORD|DWORD|QWORD|XMMWORD|YMMWORD|TBYTE|FWORD) PTR", l)
        if m and out[cur] is None:
            out[cur] = PTR_BYTES[m.group(1)]
    return out
