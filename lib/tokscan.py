"""Abstract interpretation of a hand-written tokenizer over character classes.

The .orc line tokenizer (orc_line_parse_tokens and the helpers it calls) moves a cursor `line->p` over a private copy of the
line, records token starts in line->tokens[] and overwrites the character after each token with NUL.  What the cursor points
at is abstracted to one representative per class of the .orc syntax - NUL, ' ', '\\t', ',', '#', and 'a' for every other
character; when the cursor moves the next character is ANY of them (every successor is explored, there is no input string).
Helpers that take the line are followed through their own CFGs (call strings, no recursion); one-expression predicates are
expanded and evaluated on the representative; conditions that do not depend on the character are taken both ways, except
`p == v` for a local v that was assigned the cursor, which is exact because the cursor only moves forward.

Along every path the analysis tracks, since the last token start: the classes of the characters stepped over, whether a
separator / a blank was among them, whether the token has been NUL-terminated and which classes lie before the terminator.
Verdicts (all necessary for "the result is independent of spacing and comments"):

  START-CLASS   a token never starts on NUL, a blank or '#' (an empty token at the end of a line with trailing blanks, a
                trailing comment taken for operands)
  SEP-AFTER-BLANKS   a token never starts on ',' when only blanks were stepped over since the previous token: `d1 , s1` must
                tokenise like `d1, s1`
  TOKEN-TEXT    the characters of a token (those before its terminator) contain no blank and no separator, and ' ' and '\\t'
                are treated alike
  TERMINATED    every token is terminated before the next one starts / before the tokenizer returns

Nothing is executed and no input is enumerated: the state space is (call string, CFG position, class under the cursor, a few
flags), explored exhaustively."""
from facts import AnalysisBroken, access_path, strip_casts, unparse
from flow import atom, expand_predicate

NUL, SP, TAB, SEP, HASH, OTHER = 0, 32, 9, 44, 35, 97
CLASSES = (NUL, SP, TAB, SEP, HASH, OTHER)
BLANKS = (SP, TAB)
NAMES = {NUL: "NUL", SP: "' '", TAB: "'\\t'", SEP: "','", HASH: "'#'", OTHER: "another character"}


def _cursor_paths(f, struct):
    return {p["name"] + "->p" for p in f.params if struct in (p.get("ty") or "")}


class Tok:
    def __init__(self, tu, struct="OrcLine"):
        self.tu = tu
        self.struct = struct
        self.store = None           # the token-start store
        for f in tu.main_functions():
            for x in f.walk():
                if x.k == "BinaryOperator" and x.op == "=" and strip_casts(x.c[0]) is not None and strip_casts(x.c[0]).k == "ArraySubscriptExpr" \
                        and (access_path(strip_casts(x.c[0]).c[0]) or "").endswith("->tokens") and access_path(strip_casts(x.c[1])) in _cursor_paths(f, struct):
                    if self.store is not None and self.store[1].id != x.id:
                        raise AnalysisBroken("more than one token-start store in the tokenizer")
                    self.store = (f, x)
        if self.store is None:
            raise AnalysisBroken("token-start store `line->tokens[..] = line->p` not found")
        # the field that holds the end of the line: X->F = X->p + <length>
        self.endfield = None
        for f in tu.main_functions():
            cur = _cursor_paths(f, struct)
            for x in f.walk():
                if x.k == "BinaryOperator" and x.op == "=" and strip_casts(x.c[1]) is not None and strip_casts(x.c[1]).k == "BinaryOperator" \
                        and strip_casts(x.c[1]).op == "+" and access_path(strip_casts(x.c[1]).c[0]) in cur:
                    lp = access_path(x.c[0]) or ""
                    if "->" in lp and lp.split("->")[0] + "->p" in cur:
                        self.endfield = lp.split("->", 1)[1]
        if self.endfield is None:
            raise AnalysisBroken("the line-end field (X->end = X->p + length) was not found")
        A = self.store[0]
        self.store_fn = A
        inloop = any(l.k in ("WhileStmt", "ForStmt", "DoStmt") and any(y.id == self.store[1].id for y in l.walk()) for l in A.walk())
        if inloop:
            self.top = A
        else:
            callers = [g for g in tu.main_functions() if g is not A and any(c.name == A.name for c in g.calls())
                       and any(l.k in ("WhileStmt", "ForStmt", "DoStmt") and any(y.k == "CallExpr" and y.name == A.name for y in l.walk()) for l in g.walk())]
            if len(callers) != 1:
                raise AnalysisBroken("token loop around %s not found (%d candidates)" % (A.name, len(callers)))
            self.top = callers[0]

    # ---- expression evaluation on the class under the cursor: int, or None = not determined by it --------------------
    def ev(self, f, e, st):
        e = strip_casts(e)
        if e is None:
            return None
        cur = _cursor_paths(f, self.struct)
        if e.k == "ParenExpr":
            return self.ev(f, e.c[0], st)
        if e.v is not None and e.k not in ("MemberExpr", "DeclRefExpr", "ArraySubscriptExpr"):
            return e.v
        if (e.k == "ArraySubscriptExpr" and access_path(e.c[0]) in cur and strip_casts(e.c[1]) is not None and strip_casts(e.c[1]).v == 0) or \
                (e.k == "UnaryOperator" and e.op == "*" and access_path(e.c[0]) in cur):
            if st["past"]:
                st["_pastread"] = e.line
            return st["c"]
        if e.k == "UnaryOperator" and e.op == "!":
            v = self.ev(f, e.c[0], st)
            return None if v is None else int(not v)
        if e.k == "CallExpr" and e.name == "__builtin_expect":
            return self.ev(f, e.args()[0], st)
        if e.k == "CallExpr":
            x = expand_predicate(f, e)
            return None if x is None else self.ev(f, x, st)
        if e.k == "BinaryOperator" and e.op in ("&&", "||"):
            a, b = self.ev(f, e.c[0], st), self.ev(f, e.c[1], st)
            if e.op == "&&":
                return 0 if (a == 0 or b == 0) else (None if (a is None or b is None) else 1)
            return 1 if (a not in (0, None) or b not in (0, None)) else (None if (a is None or b is None) else 0)
        if e.k == "BinaryOperator" and e.op in ("<", ">", "<=", ">=", "==", "!="):
            pl, pr = access_path(strip_casts(e.c[0])), access_path(strip_casts(e.c[1]))
            ends = {x[:-1] + self.endfield for x in cur}
            op = e.op
            if pr in cur and pl in ends:
                pl, pr, op = pr, pl, {"<": ">", ">": "<", "<=": ">=", ">=": "<="}.get(op, op)
            if pl in cur and pr in ends:
                # the line copy holds no NUL before its end: cursor == end <=> it is on the terminating NUL
                rel = 1 if st["past"] else (0 if st["k"] == NUL else -1)
                return int({"<": rel < 0, ">": rel > 0, "<=": rel <= 0, ">=": rel >= 0, "==": rel == 0, "!=": rel != 0}[op])
        if e.k == "BinaryOperator" and e.op in ("==", "!="):
            pl, pr = access_path(strip_casts(e.c[0])), access_path(strip_casts(e.c[1]))
            for x, y in ((pl, pr), (pr, pl)):
                if x in cur and y is not None and (f.name, y) in st["alias"]:
                    eq = st["alias"][(f.name, y)]
                    return int(eq) if e.op == "==" else int(not eq)
        if e.k == "BinaryOperator" and e.op in ("==", "!=", "<", ">", "<=", ">=", "&", "|", "-", "+"):
            a, b = self.ev(f, e.c[0], st), self.ev(f, e.c[1], st)
            if a is None or b is None:
                return None
            return {"==": int(a == b), "!=": int(a != b), "<": int(a < b), ">": int(a > b), "<=": int(a <= b), ">=": int(a >= b),
                    "&": a & b, "|": a | b, "-": a - b, "+": a + b}[e.op]
        if e.k == "ConditionalOperator":
            c = self.ev(f, e.c[0], st)
            if c is None:
                return None
            return self.ev(f, e.c[1] if c else e.c[2], st)
        return None

    def is_predicate_call(self, f, c):
        return expand_predicate(f, c) is not None

    # ---- exploration ------------------------------------------------------------------------------------------------
    def explore(self, report):
        """report(kind, line, text) for every violated verdict; returns statistics"""
        tu = self.tu
        top = self.top
        init = []
        for c in CLASSES:
            init.append(dict(c=c, k=c, blank=False, sep=True, open=False, seen=frozenset(), snap=(), alias=(), first=True, past=False))
        seen = set()
        stats = {"states": 0, "starts": {}, "inlined": set(), "predicates": set(), "terminations": 0}
        work = []
        for s in init:
            work.append((((top.name, top.entry, 0),), s))
        fn = tu.fn

        def freeze(frames, st):
            return (frames, st["c"], st["k"], st["blank"], st["sep"], st["open"], st["seen"], st["snap"], st["alias"], st["first"], st["past"])

        def move(st, f):
            """the cursor steps over the character it is on"""
            out = []
            k = st["k"]
            base = dict(st)
            base["seen"] = st["seen"] | {k}
            if k == SEP:
                base["sep"] = True
            if k in BLANKS:
                base["blank"] = True
            base["alias"] = tuple((a, False) for a, _ in st["alias"])
            if k == NUL:
                base["past"] = True
            for c in CLASSES:
                n = dict(base)
                n["c"] = n["k"] = c
                n["_t"] = (st.get("_t", ()) + ("line %s: step over %s, now on %s" % (f, NAMES[k], NAMES[c]),))[-10:]
                out.append(n)
            return out

        def terminate(st, line, via):
            """NUL stored at the cursor (via None) or through alias `via` that may lie before it"""
            stats["terminations"] += 1
            text = st["seen"] if via is None else dict(st["snap"]).get(via, st["seen"])
            bad = sorted(NAMES[x] for x in text if x in BLANKS + (SEP,))
            if st["open"] and bad:
                report("TOKEN-TEXT", line, "a token can contain %s: the scan that ends a token does not stop at it, so what separates two operands "
                       "is made part of one of them" % " and ".join(bad))
            n = dict(st)
            n["open"] = False
            return n

        while work:
            frames, st = work.pop()
            key = freeze(frames, st)
            if key in seen:
                continue
            seen.add(key)
            stats["states"] += 1
            if stats["states"] > 400000:
                raise AnalysisBroken("tokenizer state space not exhausted after 400000 states")
            fname, b, i = frames[-1]
            f = fn[fname]
            blk = f.blocks[b]
            cur = _cursor_paths(f, self.struct)
            adict = dict(st["alias"])
            stv = dict(st)
            stv["alias"] = adict
            if i < len(blk.el):
                e = blk.el[i]
                nxt = frames[:-1] + ((fname, b, i + 1),)
                # cursor increment
                if (e.k == "UnaryOperator" and e.op in ("++", "--") and access_path(e.c[0]) in cur) or \
                        (e.k == "CompoundAssignOperator" and access_path(e.c[0]) in cur) or \
                        (e.k == "BinaryOperator" and e.op == "=" and access_path(e.c[0]) in cur):
                    fwd = (e.k == "UnaryOperator" and e.op == "++") or (e.k == "CompoundAssignOperator" and e.op == "+=" and strip_casts(e.c[1]).v == 1)
                    if e.k == "BinaryOperator":
                        r = strip_casts(e.c[1])
                        fwd = r is not None and r.k == "BinaryOperator" and r.op == "+" and access_path(r.c[0]) in cur and strip_casts(r.c[1]).v == 1
                    if not fwd:
                        raise AnalysisBroken("%s moves the cursor other than by one character forward (`%s`, line %s)" % (f.name, unparse(e)[:50], e.line))
                    for n in move(st, e.line):
                        work.append((nxt, n))
                    continue
                if e.k == "BinaryOperator" and e.op == "=":
                    lhs, rhs = strip_casts(e.c[0]), strip_casts(e.c[1])
                    # token start
                    if e.id == self.store[1].id:
                        c = st["c"]
                        stats["starts"][c] = stats["starts"].get(c, 0) + 1
                        if st["open"]:
                            report("TERMINATED", e.line, "a token is started while the previous one has not been NUL-terminated: the previous token runs into this one")
                        if c in (NUL, SP, TAB, HASH):
                            report("START-CLASS", e.line, "a token can start on %s: %s" % (NAMES[c], {
                                NUL: "trailing blanks at the end of a line produce an empty extra token",
                                HASH: "a comment after the operands is tokenised as more operands"}.get(c, "blanks are not skipped before a token, which then is empty")))
                        if c == SEP and st["blank"] and not st["sep"]:
                            report("SEP-AFTER-BLANKS", e.line, "when only blanks lie between a token and the comma after it, the comma starts a new (empty) token: "
                                   "`d1 , s1` gives three tokens where `d1, s1` gives two, so the result depends on spacing (last steps of one abstract path: %s)" % "; ".join(st.get("_t", ())[-3:]))
                        n = dict(st)
                        n.update(blank=False, sep=False, open=True, seen=frozenset(), snap=(), first=False)
                        work.append((nxt, n))
                        continue
                    # local = cursor
                    if lhs is not None and lhs.k == "DeclRefExpr" and access_path(rhs) in cur:
                        a = (f.name, lhs.name)
                        n = dict(st)
                        n["alias"] = tuple(sorted([x for x in st["alias"] if x[0] != a] + [(a, True)]))
                        n["snap"] = tuple(sorted([x for x in st["snap"] if x[0] != a] + [(a, st["seen"])]))
                        work.append((nxt, n))
                        continue
                    # store of NUL through the cursor or an alias
                    tgt = None
                    if lhs is not None and lhs.k == "ArraySubscriptExpr" and strip_casts(lhs.c[1]) is not None and strip_casts(lhs.c[1]).v == 0:
                        tgt = access_path(lhs.c[0])
                    elif lhs is not None and lhs.k == "UnaryOperator" and lhs.op == "*":
                        tgt = access_path(lhs.c[0])
                    if tgt is not None and rhs is not None and rhs.v == 0:
                        if tgt in cur:
                            n = terminate(st, e.line, None)
                            n["c"] = NUL
                            work.append((nxt, n))
                            continue
                        if (f.name, tgt) in adict:
                            a = (f.name, tgt)
                            n = terminate(st, e.line, a)
                            if adict[a]:
                                n["c"] = NUL
                            work.append((nxt, n))
                            continue
                if e.k == "DeclStmt":
                    done = False
                    for vd in e.walk():
                        if vd.k == "VarDecl" and vd.c and vd.c[0] is not None and access_path(strip_casts(vd.c[0])) in cur:
                            a = (f.name, vd.name)
                            n = dict(st)
                            n["alias"] = tuple(sorted([x for x in st["alias"] if x[0] != a] + [(a, True)]))
                            n["snap"] = tuple(sorted([x for x in st["snap"] if x[0] != a] + [(a, st["seen"])]))
                            work.append((nxt, n))
                            done = True
                            break
                    if done:
                        continue
                if e.k == "CallExpr" and e.name in fn and fn[e.name].body is not None and not self.is_predicate_call(f, e):
                    g = fn[e.name]
                    passes_line = any(self.struct in (p.get("ty") or "") for p in g.params)
                    if passes_line:
                        if any(fr[0] == g.name for fr in frames):
                            raise AnalysisBroken("recursive tokenizer helper %s" % g.name)
                        if len(frames) > 6:
                            raise AnalysisBroken("tokenizer helpers nest deeper than 6")
                        stats["inlined"].add(g.name)
                        work.append((nxt + ((g.name, g.entry, 0),), st))
                        continue
                elif e.k == "CallExpr" and e.name in fn:
                    stats["predicates"].add(e.name)
                work.append((nxt, st))
                continue
            # end of block
            is_ret = any(x.k == "ReturnStmt" for x in blk.el)
            if b == f.exit or is_ret or not [s for s in blk.succs if s is not None]:
                if len(frames) == 1:
                    if st["open"]:
                        report("TERMINATED", None, "the tokenizer can return with the last token not NUL-terminated")
                    continue
                # drop the callee's aliases, return to the caller
                n = dict(st)
                n["alias"] = tuple(x for x in st["alias"] if x[0][0] != f.name)
                n["snap"] = tuple(x for x in st["snap"] if x[0][0] != f.name)
                work.append((frames[:-1], n))
                continue
            if blk.noreturn:
                continue
            val = None
            succ = [(j, s) for j, s in enumerate(blk.succs) if s is not None]
            if blk.cond is not None and len(succ) >= 2 and all(f.edge_kind(b, j) in (True, False) for j, _ in succ):
                v = self.ev(f, blk.cond, stv)
                val = None if v is None else bool(v)
                if "_pastread" in stv:
                    report("PAST-END", stv["_pastread"], "the character after the line's terminating NUL is examined: the cursor was moved over the end of the "
                           "line copy and no comparison with the line end stops the scan, so tokens depend on whatever follows the copy in memory")
                    continue
            for j, s in succ:
                if val is None or f.edge_kind(b, j) == val:
                    work.append((frames[:-1] + ((fname, s, 0),), st))
        return stats


def check(db, rep, rule, where, tu_name="orcparse"):
    tu = db.tu(tu_name)
    t = Tok(tu)
    found = {}

    def report(kind, line, text):
        found.setdefault(kind, (line, text))
    stats = t.explore(report)
    f = t.store[0]
    rep.saw(f)
    rep.saw(t.top)
    if stats["starts"].get(OTHER, 0) == 0 or (stats["terminations"] == 0 and "TERMINATED" not in found):
        raise AnalysisBroken("tokenizer exploration reached no token start on an ordinary character / no terminator store (%s)" % stats)
    # ' ' and '\t' alike: the predicates used by the tokenizer must not tell them apart
    for kind in ("START-CLASS", "SEP-AFTER-BLANKS", "TOKEN-TEXT", "TERMINATED", "PAST-END"):
        line, text = found.get(kind, (None, None))
        rep.check(kind not in found, rule, where(t.top), kind,
                  "%d abstract states (helpers followed: %s); token starts by class under the cursor: %s" %
                  (stats["states"], ", ".join(sorted(stats["inlined"])), ", ".join("%s x%d" % (NAMES[c], n) for c, n in sorted(stats["starts"].items()))),
                  "%s: %s" % (t.top.name, text), line=line)
    return stats
