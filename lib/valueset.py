"""Finite may-value sets of integer expressions, from constants, table
initialisers and the stores the code base makes into a field.

Sound as a superset only when it returns a set; returns None when any
contributing definition cannot be evaluated (then the caller must not judge).
"""
from facts import ASSIGN_OPS, access_path, strip_casts, simplify_init

LIMIT = 4096


class ValueSets:
    def __init__(self, db):
        self.db = db
        self._field = {}
        self._busy = set()

    # ------------------------------------------------------------ field values
    def _init_values(self, rec, field):
        """values given to rec.field by constant initialisers anywhere."""
        out = set()
        found = False

        def visit(x):
            nonlocal found
            if isinstance(x, dict):
                if x.get("__rec") == rec and field in x:
                    found = True
                    collect(x[field])
                for k, v in x.items():
                    if k != "__rec":
                        visit(v)
            elif isinstance(x, list):
                for e in x:
                    visit(e)

        def collect(v):
            if isinstance(v, bool):
                out.add(int(v))
            elif isinstance(v, int):
                out.add(v)
            elif isinstance(v, list):
                for e in v:
                    collect(e)
            elif isinstance(v, tuple) and v and v[0] == "x":
                out.add(None)
        for t in self.db.tus.values():
            for g in t.globals:
                if "init" in g:
                    visit(_simplify_keep_rec(g["init"]))
        return out, found

    def field_values(self, rec, field):
        key = (rec, field)
        if key in self._field:
            return self._field[key]
        if key in self._busy:
            return set()
        self._busy.add(key)
        vals, found = self._init_values(rec, field)
        ok = None not in vals
        vals.discard(None)
        # stores  X->field = rhs   anywhere in the library
        for f in self.db.all_functions():
            for n in f.walk():
                if n.k in ("BinaryOperator", "CompoundAssignOperator") and n.op in ASSIGN_OPS:
                    l = strip_casts(n.c[0])
                    while l is not None and l.k == "ArraySubscriptExpr":
                        l = strip_casts(l.c[0])
                    if l is not None and l.k == "MemberExpr" and l.name == field and l.get("rec") == rec:
                        if n.op != "=":
                            ok = False
                            continue
                        vs = self.eval(f, n.c[1])
                        if vs is None:
                            ok = False
                        else:
                            vals |= vs
                # memset of the whole record => 0
                if n.k == "CallExpr" and n.name == "memset":
                    vals.add(0)
        self._busy.discard(key)
        res = vals if ok else None
        self._field[key] = res
        return res

    # ------------------------------------------------------------- expressions
    def local_values(self, func, name, depth):
        defs = []
        for n in func.walk():
            if n.k == "VarDecl" and n.name == name:
                if n.c and n.c[0] is not None:
                    defs.append(("=", n.c[0]))
                # uninitialised declaration contributes nothing
            elif n.k in ("BinaryOperator", "CompoundAssignOperator") and n.op in ASSIGN_OPS:
                l = strip_casts(n.c[0])
                if l is not None and l.k == "DeclRefExpr" and l.name == name:
                    defs.append((n.op, n.c[1]))
            elif n.k == "UnaryOperator" and n.op in ("++", "--", "&"):
                l = strip_casts(n.c[0])
                if l is not None and l.k == "DeclRefExpr" and l.name == name:
                    return None
        if any(p["name"] == name for p in func.params):
            return None
        vals = set()
        # fixpoint: self-references evaluate against the current set
        for _ in range(8):
            new = set(vals)
            for op, e in defs:
                if op != "=":
                    return None
                vs = self.eval(func, e, depth + 1, {name: vals})
                if vs is None:
                    return None
                new |= vs
            if new == vals:
                break
            vals = new
            if len(vals) > LIMIT:
                return None
        return vals

    def eval(self, func, n, depth=0, env=None):
        n = strip_casts(n)
        if n is None or depth > 6:
            return None
        if n.v is not None:
            return {n.v}
        k = n.k
        if k == "DeclRefExpr":
            if env and n.name in env:
                return set(env[n.name])
            if n.get("dk") == "local":
                return self.local_values(func, n.name, depth)
            return None
        if k == "MemberExpr":
            rec = n.get("rec")
            if rec:
                return self.field_values(rec, n.name)
            return None
        if k == "ArraySubscriptExpr":
            b = strip_casts(n.c[0])
            if b is not None and b.k == "MemberExpr" and b.get("rec"):
                return self.field_values(b.get("rec"), b.name)
            return None
        if k == "ConditionalOperator":
            a = self.eval(func, n.c[1], depth + 1, env)
            b = self.eval(func, n.c[2], depth + 1, env)
            if a is None or b is None:
                return None
            return a | b
        if k == "BinaryOperator" and n.op in ("+", "-", "*", "/", "<<", ">>", "&", "|"):
            a = self.eval(func, n.c[0], depth + 1, env)
            b = self.eval(func, n.c[1], depth + 1, env)
            if a is None or b is None or len(a) * len(b) > LIMIT:
                return None
            out = set()
            for x in a:
                for y in b:
                    try:
                        if n.op == "+":
                            out.add(x + y)
                        elif n.op == "-":
                            out.add(x - y)
                        elif n.op == "*":
                            out.add(x * y)
                        elif n.op == "/":
                            if y != 0:
                                out.add(int(x / y))
                        elif n.op == "<<":
                            if 0 <= y < 63:
                                out.add(x << y)
                        elif n.op == ">>":
                            if 0 <= y < 63:
                                out.add(x >> y)
                        elif n.op == "&":
                            out.add(x & y)
                        elif n.op == "|":
                            out.add(x | y)
                    except Exception:
                        return None
            return out
        return None


def _simplify_keep_rec(x):
    if x is None:
        return None
    if "list" in x:
        return [_simplify_keep_rec(e) for e in x["list"]]
    if "rec" in x:
        d = {k: _simplify_keep_rec(v) for k, v in x["f"].items()}
        d["__rec"] = x["rec"]
        return d
    return simplify_init(x)
