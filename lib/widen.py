"""R-WIDEN: a 64-bit value assembled from 32-bit halves with `lo | (hi << 32)` needs a ZERO-extended low half.

If the low operand reaches the 64-bit `|` through a conversion from a signed type narrower than 64 bits, a low
half with bit 31 set turns the whole upper half into ones."""
from facts import strip_casts, unparse

INT_TYPES = {"int": (32, True), "unsigned int": (32, False), "orc_uint32": (32, False), "orc_int32": (32, True),
             "orc_uint64": (64, False), "orc_int64": (64, True), "unsigned long": (64, False), "long": (64, True),
             "unsigned long long": (64, False), "long long": (64, True), "short": (16, True), "unsigned short": (16, False),
             "char": (8, True), "signed char": (8, True), "unsigned char": (8, False), "orc_uint8": (8, False), "orc_int8": (8, True),
             "orc_uint16": (16, False), "orc_int16": (16, True)}
CASTS = ("ImplicitCastExpr", "CStyleCastExpr", "ParenExpr")


def _sign_extends(e):
    """description if operand e of a 64-bit `|` is widened from a signed narrower type, else None."""
    chain = []
    x = e
    while x is not None and x.k in CASTS:
        chain.append(x)
        x = x.c[0] if x.c else None
    if x is None:
        return None
    inner = INT_TYPES.get(x.get("ty"))
    if inner is None or inner[0] >= 64:
        return None
    if x.v is not None and x.v >= 0:
        return None
    # walk outwards: the first conversion that reaches 64 bits decides
    cur = inner
    for c in reversed(chain):
        t = INT_TYPES.get(c.get("ty"))
        if t is None:
            continue
        if t[0] >= 64:
            return ("`%s` has type %s and is converted straight to %s" % (unparse(x)[:60], x.get("ty"), c.get("ty"))) if cur[1] else None
        cur = t
    return None


def check_or_halves(func, rep, rule, where_txt, inst_prefix=""):
    """judge every `a | (b << k)` (k >= 32) of 64-bit type in func; returns number of instances."""
    n = 0
    for node in func.walk():
        if node.k not in ("BinaryOperator", "CompoundAssignOperator") or node.op not in ("|", "|="):
            continue
        t = INT_TYPES.get(node.get("ty"))
        if t is None or t[0] < 64:
            continue
        ops = list(node.c[:2])
        hi = [o for o in ops if any(y.k == "BinaryOperator" and y.op == "<<" and strip_casts(y.c[1]).v is not None and strip_casts(y.c[1]).v >= 32
                                   for y in [strip_casts(o)] if y is not None)]
        if not hi:
            continue
        for lo in ops:
            if lo in hi:
                continue
            n += 1
            why = _sign_extends(lo)
            rep.check(why is None, rule, where_txt, "%slow-half-zero-extended" % inst_prefix,
                      "low half `%s` is zero-extended before it is OR-ed with the shifted high half" % unparse(lo)[:70],
                      "64-bit value assembled as `%s`: %s, so a low half with bit 31 set sign-extends and overwrites the high half with ones" %
                      (unparse(node)[:110], why), line=node.line)
    return n
