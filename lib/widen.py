"""R-WIDEN: a 64-bit value assembled from 32-bit halves with `lo | (hi << 32)` needs a ZERO-extended low half.

If the low operand reaches the 64-bit `|` through a conversion from a signed type narrower than 64 bits, a low
half with bit 31 set turns the whole upper half into ones."""
from facts import strip_casts, unparse

INT_TYPES = {"int": (32, True), "unsigned int": (32, False), "orc_uint32": (32, False), "orc_int32": (32, True),
             "orc_uint64": (64, False), "orc_int64": (64, True), "unsigned long": (64, False), "long": (64, True),
             "unsigned long long": (64, False), "long long": (64, True), "short": (16, True), "unsigned short": (16, False),
             "char": (8, True), "signed char": (8, True), "unsigned char": (8, False), "orc_uint8": (8, False), "orc_int8": (8, True),
             "orc_uint16": (16, False), "orc_int16": (16, True)}
CASTS = ("ImplicitCastExpr", "CStyleCastExpr", "ParenExpr")


def _ity(n):
    t = (n.get("ty") or "").replace("const ", "").replace("volatile ", "").strip()
    return INT_TYPES.get(t)


def _nonneg(x, depth=0):
    """True if expression x (of a signed narrow type) can be shown never to be negative: it is a promoted unsigned
    narrower value, a masked value, or a call to a same-unit function all of whose returns are such values."""
    x0 = x
    while x is not None and x.k in CASTS:
        t = _ity(x)
        if t is not None and not t[1] and t[0] < 32:
            return True                       # passed through an unsigned type narrower than int
        x = x.c[0] if x.c else None
    if x is None:
        return False
    t = _ity(x)
    if t is not None and not t[1] and t[0] < 32:
        return True
    if x.k == "BinaryOperator" and x.op == "&":
        return any(strip_casts(o) is not None and strip_casts(o).v is not None and 0 <= strip_casts(o).v <= 0x7fffffff for o in x.c[:2])
    if x.k == "CallExpr" and x.name and depth < 2:
        g = x.func.tu.fn.get(x.name) if x.func is not None else None
        if g is None or g.body is None:
            return False
        rets = [r for r in g.walk() if r.k == "ReturnStmt" and r.c and r.c[0] is not None]
        if not rets:
            return False
        for r in rets:
            e = r.c[0]
            se = strip_casts(e)
            if se is not None and se.k == "DeclRefExpr" and se.get("dk") == "local":
                defs = [d.c[0] for d in g.walk() if d.k == "VarDecl" and d.name == se.name and d.c and d.c[0] is not None]
                defs += [d.c[1] for d in g.walk() if d.k == "BinaryOperator" and d.op == "=" and strip_casts(d.c[0]) is not None
                         and strip_casts(d.c[0]).k == "DeclRefExpr" and strip_casts(d.c[0]).name == se.name]
                if not defs or not all(_nonneg(d, depth + 1) for d in defs):
                    return False
            elif not _nonneg(e, depth + 1):
                return False
        return True
    return False


def _sign_extends(e):
    """description if operand e of a 64-bit `|` is widened from a signed narrower type, else None."""
    chain = []
    x = e
    while x is not None and x.k in CASTS:
        chain.append(x)
        x = x.c[0] if x.c else None
    if x is None:
        return None
    inner = _ity(x)
    if inner is None or inner[0] >= 64:
        return None
    if x.v is not None and x.v >= 0:
        return None
    if _nonneg(x):
        return None
    # walk outwards: the first conversion that reaches 64 bits decides
    cur = inner
    for c in reversed(chain):
        t = _ity(c)
        if t is None:
            continue
        if t[0] >= 64:
            return ("`%s` has type %s and is converted straight to %s" % (unparse(x)[:60], x.get("ty"), c.get("ty"))) if cur[1] else None
        cur = t
    return None


def check_or_halves(func, rep, rule, where_txt, inst_prefix=""):
    """judge every `a | (b << k)` (k >= 32) of 64-bit type in func; returns number of instances."""
    n = 0
    for node in func.walk():
        if node.k not in ("BinaryOperator", "CompoundAssignOperator") or node.op not in ("|", "|="):
            continue
        t = _ity(node)
        if t is None or t[0] < 64:
            continue
        ops = list(node.c[:2])
        hi = [o for o in ops if any(y.k == "BinaryOperator" and y.op == "<<" and strip_casts(y.c[1]).v is not None and strip_casts(y.c[1]).v >= 32
                                   for y in [strip_casts(o)] if y is not None)]
        if not hi:
            continue
        for lo in ops:
            if lo in hi:
                continue
            n += 1
            why = _sign_extends(lo)
            if why is None and (node.k == "CompoundAssignOperator" or (strip_casts(lo) is not None and strip_casts(lo).k == "DeclRefExpr" and strip_casts(lo).get("dk") == "local")):
                # `acc |= hi << 32`: the low half is whatever acc was given before; look at its other definitions
                acc = strip_casts(lo)
                if acc is not None and acc.k == "DeclRefExpr":
                    for d in func.walk():
                        init = None
                        if d.k == "VarDecl" and d.name == acc.name and d.c and d.c[0] is not None:
                            init = d.c[0]
                        elif d.k == "BinaryOperator" and d.op == "=" and strip_casts(d.c[0]) is not None and strip_casts(d.c[0]).k == "DeclRefExpr" \
                                and strip_casts(d.c[0]).name == acc.name:
                            init = d.c[1]
                        if init is not None and d.line <= node.line:
                            w = _sign_extends(init)
                            if w is None:
                                # the conversion to the accumulator's own 64-bit type is implicit in the assignment
                                it = _ity(init)
                                if it is not None and it[0] < 64 and it[1] and not _nonneg(init) and not (strip_casts(init).v is not None and strip_casts(init).v >= 0):
                                    w = "`%s` has type %s and is converted to the 64-bit accumulator by the assignment" % (unparse(init)[:60], init.get("ty"))
                            if w:
                                why = "accumulator `%s` was initialised at line %d by a sign-extending conversion (%s)" % (acc.name, d.line, w)
            rep.check(why is None, rule, where_txt, "%slow-half-zero-extended" % inst_prefix,
                      "low half `%s` is zero-extended before it is OR-ed with the shifted high half" % unparse(lo)[:70],
                      "64-bit value assembled as `%s`: %s, so a low half with bit 31 set sign-extends and overwrites the high half with ones" %
                      (unparse(node)[:110], why), line=node.line)
    return n
