"""Definite assignment through out-parameters.

A caller that passes `&x` of an uninitialised local to an in-tree function and reads `x` afterwards relies on the callee
storing through that parameter on EVERY path that returns (paths on which the parameter was tested to be NULL excepted).
The callee side is decided on its CFG: is there a path from the entry to the exit that passes no store `*p = ..` /
`p[0] = ..`, and no call that receives `p` itself (strtod (s, endptr) style forwarding)?"""
from collections import deque

from facts import access_path, strip_casts, unparse
from flow import atom


def _stores_through(e, pname):
    if e.k in ("BinaryOperator", "CompoundAssignOperator") and e.op.endswith("=") and e.op not in ("==", "!=", "<=", ">="):
        l = strip_casts(e.c[0])
        if l is not None and l.k == "UnaryOperator" and l.op == "*" and access_path(l.c[0]) == pname:
            return True
        if l is not None and l.k == "ArraySubscriptExpr" and access_path(l.c[0]) == pname:
            return True
    if e.k == "CallExpr":
        for a in e.args():
            if access_path(strip_casts(a)) == pname:
                return True
    return False


def unassigned_paths(g, pname, nonnull=()):
    """(found, return values) - is there a path from entry to exit of g on which *pname is never stored although pname is
    not NULL, and which constants does g return on such paths (None in the set = not a constant).  `nonnull` names the
    parameters the caller is known to pass non-NULL pointers for; branches that can be evaluated from that are pruned."""
    from exprval import NotPure, evaluate
    from flow import single_defs
    sd = single_defs(g)
    env = {p: 1 for p in nonnull}
    env[pname] = 1
    resolve = lambda nm: sd.get(nm)
    seen = set()
    dq = deque([g.entry])
    rets = set()
    found = False
    while dq:
        b = dq.popleft()
        if b in seen:
            continue
        seen.add(b)
        blk = g.blocks[b]
        if any(_stores_through(e, pname) for e in blk.el):
            continue
        r = [e for e in blk.el if e.k == "ReturnStmt"]
        if r:
            found = True
            for e in r:
                rets.add(strip_casts(e.c[0]).v if e.c and e.c[0] is not None else None)
            continue
        if b == g.exit:
            found = True                    # fell off the end of a void function
            rets.add(None)
            continue
        if blk.noreturn:
            continue
        val = None
        if blk.cond is not None:
            try:
                val = bool(evaluate(blk.cond, env, resolve=resolve))
            except (NotPure, ValueError, ZeroDivisionError):
                val = None
        for i, s in enumerate(blk.succs):
            if s is None:
                continue
            ek = g.edge_kind(b, i)
            if val is not None and ek in (True, False) and ek != val:
                continue
            dq.append(s)
    return found, rets


def _uninit_before(f, x, call):
    """local x has no initialiser and no assignment whose evaluation dominates the call"""
    for n in f.walk():
        if n.k == "VarDecl" and n.name == x and n.c and n.c[0] is not None:
            return False
        if n.k == "BinaryOperator" and n.op == "=" and access_path(n.c[0]) == x and f.dominates(n, call):
            return False
        if n.k == "CallExpr" and n is not call and f.dominates(n, call):
            for a in n.args():
                sa = strip_casts(a)
                if sa is not None and sa.k == "UnaryOperator" and sa.op == "&" and access_path(sa.c[0]) == x:
                    return False
    return True


def _read_before_assignment(f, x, call, rets):
    """a read of local x reachable from just after `call` without passing an assignment to x, following only the branches on
    the call's own result that are consistent with one of the values in `rets` (None = unknown value)."""
    cp = f.pos(call)
    if cp is None:
        return None

    def is_read(e):
        if e.k != "DeclRefExpr" or e.name != x or e.get("dk") != "local":
            return False
        p = e.parent
        if p is not None and p.k == "UnaryOperator" and p.op == "&":
            return False
        if p is not None and p.k == "BinaryOperator" and p.op == "=" and strip_casts(p.c[0]) is e:
            return False
        return True

    def is_assign(e):
        if e.k == "BinaryOperator" and e.op == "=" and access_path(e.c[0]) == x:
            return True
        if e.k == "CallExpr" and e is not call:
            return any(strip_casts(a) is not None and strip_casts(a).k == "UnaryOperator" and strip_casts(a).op == "&" and access_path(strip_casts(a).c[0]) == x for a in e.args())
        return False
    seen = set()
    dq = deque([(cp[0], cp[1] + 1)])
    while dq:
        b, i0 = dq.popleft()
        if (b, i0 > 0) in seen:
            continue
        seen.add((b, i0 > 0))
        blk = f.blocks[b]
        stop = False
        for e in blk.el[i0:]:
            if is_read(e):
                return e
            if is_assign(e):
                stop = True
                break
        if stop or blk.noreturn:
            continue
        for i, s in enumerate(blk.succs):
            if s is None:
                continue
            ek = f.edge_kind(b, i)
            if blk.cond is not None and ek in (True, False) and None not in rets:
                n, pol = atom(blk.cond, ek)
                if n is not None and n.k == "CallExpr" and n.name == "__builtin_expect":
                    n = strip_casts(n.args()[0])
                if n is not None and n.id == call.id and not any(bool(v) == pol for v in rets):
                    continue                    # the callee never returns such a value on a path that leaves x unset
            dq.append((s, 0))
    return None


def check(db, funcs, rep, rule, where):
    n = 0
    judged = {}
    for f in funcs:
        for c in f.calls():
            if not c.name:
                continue
            try:
                g = db.func(c.name)
            except Exception:
                continue
            if g is None or g.body is None or g is f:
                continue
            for i, a in enumerate(c.args()):
                sa = strip_casts(a)
                if sa is None or sa.k != "UnaryOperator" or sa.op != "&":
                    continue
                tgt = strip_casts(sa.c[0])
                if tgt is None or tgt.k != "DeclRefExpr" or tgt.get("dk") != "local" or i >= len(g.params):
                    continue
                x = tgt.name
                if not _uninit_before(f, x, c):
                    continue
                if any(y.k == "GCCAsmStmt" for y in g.walk()):
                    continue                    # stores through asm output operands are not modelled
                pname = g.params[i]["name"]
                nonnull = tuple(sorted(g.params[j]["name"] for j, aa in enumerate(c.args()) if j < len(g.params) and strip_casts(aa) is not None
                                       and strip_casts(aa).k == "UnaryOperator" and strip_casts(aa).op == "&"))
                key = (g.name, pname, nonnull)
                if key not in judged:
                    judged[key] = unassigned_paths(g, pname, nonnull)
                found, rets = judged[key]
                rd = _read_before_assignment(f, x, c, rets) if found else None
                if not found or rd is None:
                    if any(True for _ in [0]):
                        n += 1
                        rep.saw(f)
                        rep.ok(rule, where(f), "%s(&%s)@%s" % (g.name, x, f.name),
                               "%s stores through `%s` on every returning path%s" % (g.name, pname, "" if not found else
                                " except those returning %s, after which %s assigns `%s` before reading it" % (sorted(str(v) for v in rets), f.name, x)))
                    continue
                w = True
                n += 1
                rep.saw(f)
                rep.check(False, rule, where(f), "%s(&%s)@%s" % (g.name, x, f.name), "",
                          "%s passes &%s (uninitialised) to %s and reads `%s` afterwards (line %s), but %s can return%s without storing through `%s`: "
                          "the read uses an indeterminate value%s" %
                          (f.name, x, g.name, x, rd.line, g.name, "" if None in rets else " (value %s)" % sorted(rets), pname,
                           " - a wild pointer dereference" if "*" in (tgt.ty or "") else ""), line=c.line)
    return n
