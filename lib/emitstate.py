"""Def-before-use of executor scratch slots in *emitted* code, decided on the emitter's control flow.

The x86 program emitter maintains a few OrcExecutor fields from generated code only (the region counters, the row
counter in params[A2]): some emitted instruction stores them, later emitted instructions test / load / decrement them.
Nothing outside generated code initialises these fields, so an emitted read that is not preceded - on every feasible
path through the emitter - by an emitted store makes the generated loop run on whatever the executor held before.

The emitter's paths are explored with a small explicit-state search: state = (CFG block, bindings).  Bindings hold
  * configuration values that the function never assigns (compiler->program->constant_n, compiler->loop_shift ...)
    bound lazily, when a branch first needs them, to each value of a boundary-value domain taken from the constants
    the function compares them with;
  * int locals that are only ever assigned integer constants (emit_region1 = FALSE ...), updated along the path.
A branch whose condition cannot be evaluated from these is taken both ways.  A path ends as soon as it passes a store
to the slot (or a call to a same-unit helper that stores it on all of its paths).  A read reached this way is reported
with the bindings as a witness.
"""
from facts import AnalysisBroken, access_path, strip_casts, unparse
from exprval import NotPure, evaluate, key_of, variables

STORE_EMITTERS = ("orc_x86_emit_mov_reg_memoffset", "orc_x86_emit_mov_imm_memoffset")
CMPS = ("<", ">", "<=", ">=", "==", "!=")


def slot_access(e, base_paths):
    """(offset, 'w'|'r') if call element e emits an instruction addressing <executor base> + constant offset."""
    if e.k != "CallExpr" or not e.name or "memoffset" not in e.name:
        return None
    off = None
    based = False
    for a in e.args():
        if a.v is not None and any(x.k == "OffsetOfExpr" for x in a.walk()):
            off = a.v
        if access_path(strip_casts(a)) in base_paths:
            based = True
    if off is None or not based:
        return None
    return off, ("w" if e.name in STORE_EMITTERS else "r")


def error_when_negative(g):
    """True if every `return <negative constant>` of g is dominated by a compile-error report (orc_compiler_error call or
    `->error = TRUE`): a negative result of g then means the compile has failed and the emitted code is discarded."""
    rets = [r for r in g.walk() if r.k == "ReturnStmt" and r.c and r.c[0] is not None and isinstance(strip_casts(r.c[0]).v, int) and strip_casts(r.c[0]).v < 0]
    if not rets:
        return False
    errs = [c for c in g.calls() if c.name == "orc_compiler_error"]
    errs += [n for n in g.walk() if n.k == "BinaryOperator" and n.op == "=" and (key_of(n.c[0]) or "").endswith("->error") and strip_casts(n.c[1]).v]
    return all(any(g.dominates(e, r) for e in errs) for r in rets)


UNKNOWN = "?"


class Explorer:
    def __init__(self, func, errneg=()):
        self.f = func
        self.errneg_locals = set()
        ndefs = {}
        self.addr_taken = set()
        for n in func.walk():
            if n.k == "BinaryOperator" and n.op == "=" and strip_casts(n.c[0]) is not None and strip_casts(n.c[0]).k == "DeclRefExpr":
                ndefs.setdefault(strip_casts(n.c[0]).name, []).append(strip_casts(n.c[1]))
            elif n.k == "VarDecl" and n.c and n.c[0] is not None:
                ndefs.setdefault(n.name, []).append(strip_casts(n.c[0]))
            elif n.k == "UnaryOperator" and n.op == "&":
                p = key_of(strip_casts(n.c[0]))
                if p:
                    self.addr_taken.add(p)
        for nm, ds in ndefs.items():
            if len(ds) == 1 and ds[0] is not None and ds[0].k == "CallExpr" and ds[0].name in errneg:
                self.errneg_locals.add(nm)
        # variables that occur in at least two branch conditions (only those can correlate branches), and their boundary values
        occ = {}
        self.domain = {}
        for b in func.blocks.values():
            if b.cond is None:
                continue
            for p in variables(b.cond):
                occ.setdefault(p, set()).add(b.cond.id)
            for n in b.cond.walk():
                if n.k == "BinaryOperator" and n.op in CMPS:
                    for x, y, op in ((n.c[0], n.c[1], n.op), (n.c[1], n.c[0], {"<": ">", ">": "<", "<=": ">=", ">=": "<="}.get(n.op, n.op))):
                        y = strip_casts(y)
                        if y is not None and isinstance(y.v, int) and abs(y.v) < (1 << 31):
                            vals = {y.v, y.v + 1}
                            # a value below the constant; negative values only where the code itself contemplates them
                            # (`x < 0`, `x >= 0`, a negative constant) - counts, shifts and sizes are otherwise taken to be >= 0
                            if y.v - 1 >= 0 or y.v < 0 or op in ("<", ">="):
                                vals.add(y.v - 1)
                            for p in variables(x):
                                self.domain.setdefault(p, {0, 1}).update(vals)
        assigned = set(ndefs)
        for n in func.walk():
            if n.k in ("BinaryOperator", "CompoundAssignOperator") and n.op.endswith("=") and n.op not in CMPS and key_of(n.c[0]):
                assigned.add(key_of(n.c[0]))
        # a variable can correlate branches if it is tested twice, or assigned in this function and tested
        self.correlating = ({p for p, s in occ.items() if len(s) >= 2 or p in assigned} | self.errneg_locals) - self.addr_taken
        # copies of correlating variables (save_x = x; ... x = save_x) must be followed too
        changed = True
        while changed:
            changed = False
            for nm, ds in ndefs.items():
                if nm not in self.correlating and nm not in self.addr_taken and any(d is not None and variables(d) & self.correlating for d in ds):
                    self.correlating.add(nm)
                    changed = True

    def dom(self, p):
        d = sorted(self.domain.get(p, {0, 1}))
        if p in self.errneg_locals:
            d = [v for v in d if v >= 0] or [0]       # a negative value means the compile already failed: not a path of interest
        return d

    def _expand(self, expr, env):
        """environments (extensions of env by lazily bound variables) under which expr can be evaluated, or None."""
        vs = variables(expr)
        if any(env.get(p) == UNKNOWN for p in vs):
            return None
        need = [p for p in vs if p not in env]
        if any(p not in self.correlating for p in need):
            return None
        envs = [env]
        for p in need:
            envs = [dict(x, **{p: v}) for x in envs for v in self.dom(p)]
        return envs

    def _assign(self, envs, key, rhs):
        """after `key = rhs`: key holds the value of rhs where that can be computed, otherwise a fresh unknown value (unbound:
        it is bound lazily, and consistently, where a branch next needs it)."""
        out = []
        for env in envs:
            fresh = {k: v for k, v in env.items() if k != key}
            if rhs is None or key not in self.correlating or (rhs.k == "CallExpr" and key in self.errneg_locals):
                out.append(fresh)
                continue
            xs = self._expand(rhs, env)
            if xs is None:
                out.append(fresh)
                continue
            for x in xs:
                try:
                    out.append(dict(x, **{key: evaluate(rhs, x)}))
                except (NotPure, ValueError, ZeroDivisionError, OverflowError):
                    out.append(fresh)
        return out

    def run(self, on_elem, max_states=400000):
        """on_elem(e, env) -> 'stop' | 'hit' | None.  Returns [(element, env)] (first hit per element)."""
        f = self.f
        hits = {}
        seen = set()
        stack = [(f.entry, 0, (), ())]
        self.exits = []
        while stack:
            b, i0, bind, trace = stack.pop()
            if (b, i0, bind) in seen:
                continue
            seen.add((b, i0, bind))
            if len(seen) > max_states:
                raise AnalysisBroken("%s: state space exceeds %d" % (f.name, max_states))
            env = dict(bind)
            blk = f.blocks[b]
            stop = False
            for i in range(i0, len(blk.el)):
                e = blk.el[i]
                r = on_elem(e, env)
                if r == "hit":
                    hits.setdefault(e.id, (e, dict(env), trace))
                if r in ("hit", "stop"):
                    stop = True
                    break
                envs = None
                if e.k in ("BinaryOperator", "CompoundAssignOperator") and e.op.endswith("=") and e.op not in CMPS:
                    key = key_of(e.c[0])
                    if key:
                        envs = self._assign([env], key, e.c[1] if e.op == "=" else None)
                elif e.k == "UnaryOperator" and e.op in ("++", "--"):
                    key = key_of(e.c[0])
                    if key:
                        envs = self._assign([env], key, None)
                elif e.k in ("DeclStmt", "VarDecl"):
                    envs = [env]
                    for d in ([e] if e.k == "VarDecl" else [x for x in e.c if x is not None and x.k == "VarDecl"]):
                        if d.c and d.c[0] is not None:
                            envs = self._assign(envs, d.name, d.c[0])
                if envs is not None:
                    if len(envs) == 1:
                        env = envs[0]
                    else:                                   # lazily bound something: continue each binding separately
                        for x in envs:
                            stack.append((b, i + 1, tuple(sorted(x.items())), trace))
                        stop = True
                        break
            if stop or blk.noreturn:
                continue
            if b == f.exit:
                self.exits.append(dict(env))
                continue
            succ = [(i, s) for i, s in enumerate(blk.succs) if s is not None]
            key = tuple(sorted(env.items()))
            if blk.cond is None or len(succ) < 2 or any(f.edge_kind(b, i) not in (True, False) for i, _ in succ):
                for _, s in succ:
                    stack.append((s, 0, key, trace + ((blk.cond.line, '*') if blk.cond is not None and len(succ) > 1 else ()) if len(trace) < 80 else trace))
                continue
            xs = self._expand(blk.cond, env)
            if xs is None:
                for _, s in succ:                           # cannot be evaluated: both ways
                    stack.append((s, 0, key, trace + ((blk.cond.line, '*') if blk.cond is not None and len(succ) > 1 else ()) if len(trace) < 80 else trace))
                continue
            for x in xs:
                try:
                    val = bool(evaluate(blk.cond, x))
                except (NotPure, ValueError, ZeroDivisionError, OverflowError):
                    for _, s in succ:
                        stack.append((s, 0, key, trace + ((blk.cond.line, '*') if blk.cond is not None and len(succ) > 1 else ()) if len(trace) < 80 else trace))
                    continue
                for i, s in succ:
                    if f.edge_kind(b, i) == val:
                        stack.append((s, 0, tuple(sorted(x.items())), trace + (blk.cond.line, val) if len(trace) < 80 else trace))
        self.states = len(seen)
        return list(hits.values())


def summarise(func, base_paths, memo, db_tu, depth=0, errneg=()):
    """(must_write: set of offsets stored on every path to the exit, exposed_reads: offsets read before any store)."""
    if func.name in memo:
        return memo[func.name]
    memo[func.name] = (set(), set())            # recursion guard
    offs = set()
    for c in func.calls():
        a = slot_access(c, base_paths)
        if a:
            offs.add(a[0])
        elif c.name in db_tu and depth < 3:
            mw, er = summarise(db_tu[c.name], base_paths, memo, db_tu, depth + 1, errneg)
            offs |= mw | er
    must, exposed = set(), set()
    for off in sorted(offs):
        ex = Explorer(func, errneg)

        def on_elem(e, env, off=off):
            if e.k != "CallExpr":
                return None
            a = slot_access(e, base_paths)
            if a and a[0] == off:
                return "stop" if a[1] == "w" else "hit"
            if e.name in db_tu and e.name != func.name:
                mw, er = summarise(db_tu[e.name], base_paths, memo, db_tu, depth + 1, errneg)
                if off in er:
                    return "hit"
                if off in mw:
                    return "stop"
            return None
        hits = ex.run(on_elem)
        if hits:
            exposed.add(off)
        if not ex.exits and not hits:
            must.add(off)
    memo[func.name] = (must, exposed)
    return memo[func.name]


def check(tu, rep, rule, where, base_paths=("compiler->exec_reg",), offset_names=None):
    """Every emitted read of a slot that generated code itself stores is preceded by an emitted store on all feasible paths."""
    fns = {f.name: f for f in tu.main_functions()}
    errneg = {f.name for f in fns.values() if error_when_negative(f)}
    memo = {}
    written = set()
    reads = {}
    for f in fns.values():
        for c in f.calls():
            a = slot_access(c, base_paths)
            if a and a[1] == "w":
                written.add(a[0])
    called = {c.name for f in fns.values() for c in f.calls() if c.name in fns}
    n = 0
    for f in fns.values():
        if f.name in called:
            continue                            # judged at its call sites through the summary
        sites = [c for c in f.calls() if (slot_access(c, base_paths) or (None, None))[1] == "r" and slot_access(c, base_paths)[0] in written]
        helper_reads = [c for c in f.calls() if c.name in fns and summarise(fns[c.name], base_paths, memo, fns, 0, errneg)[1] & written]
        if not sites and not helper_reads:
            continue
        for off in sorted({slot_access(c, base_paths)[0] for c in sites} | {o for c in helper_reads for o in summarise(fns[c.name], base_paths, memo, fns, 0, errneg)[1] & written}):
            ex = Explorer(f, errneg)

            def on_elem(e, env, off=off):
                if e.k != "CallExpr":
                    return None
                a = slot_access(e, base_paths)
                if a and a[0] == off:
                    return "stop" if a[1] == "w" else "hit"
                if e.name in fns and e.name != f.name:
                    mw, er = summarise(fns[e.name], base_paths, memo, fns, 0, errneg)
                    if off in er:
                        return "hit"
                    if off in mw:
                        return "stop"
                return None
            hits = ex.run(on_elem)
            nm = (offset_names or {}).get(off, "offset %d" % off)
            nsites = len([c for c in sites if slot_access(c, base_paths)[0] == off])
            n += nsites
            if hits:
                e, env, trace = hits[0]
                rep.violation(rule, where(f), "slot:%s" % nm,
                              "%s (line %s) emits an instruction that reads OrcExecutor.%s, but on a path through %s no emitted instruction has stored it before "
                              "(the field is scratch state of generated code; nothing else initialises it). Witness configuration: %s; branches taken (line, outcome; * = not decidable): %s" %
                              (e.name, e.line, nm, f.name, ", ".join("%s=%s" % kv for kv in sorted(env.items()) if kv[1] != UNKNOWN) or "(any)",
                               " ".join("%s:%s" % (trace[i], {True: "T", False: "F"}.get(trace[i + 1], trace[i + 1])) for i in range(0, len(trace) - 1, 2))), line=e.line)
            else:
                rep.ok(rule, where(f), "slot:%s" % nm, "%d emitted reads of %s are each preceded by an emitted store on every feasible emitter path (%d states explored)" % (nsites, nm, ex.states))
    return n
