"""Path-sensitive nullness of ONE access path through a function, with
function-pointer-identity narrowing at indirect calls and interprocedural
'dereferences parameter k without a test' summaries.

state = (nullness, frozenset(fp-constraints))
  nullness in {'U' (may be NULL / unknown), 'NN' (non-NULL), 'NULL'}
  fp-constraint = (expr-text, '==' | '!=', function-name)
"""
from collections import deque

from facts import ASSIGN_OPS, access_path, strip_casts, unparse
from flow import atom


def _is_prefix_write(wpath, path):
    return wpath == path or path.startswith(wpath + "->") or path.startswith(wpath + ".") or path.startswith(wpath + "[")


class NullAnalysis:
    def __init__(self, db, never_null=(), max_states=64):
        self.db = db
        self.never_null = set(never_null)
        self.max_states = max_states
        self._pd = {}

    # ------------------------------------------------------------ refinement
    def _test(self, cond, pol, path):
        """nullness implied for `path` on this edge, or None."""
        n, pol = atom(cond, pol)
        if n is None:
            return None
        if n.k in ("DeclRefExpr", "MemberExpr", "ArraySubscriptExpr"):
            if access_path(n) == path:
                return "NN" if pol else "NULL"
            return None
        if n.k == "BinaryOperator" and n.op in ("==", "!="):
            l, r = strip_casts(n.c[0]), strip_casts(n.c[1])
            for a, b in ((l, r), (r, l)):
                if access_path(a) == path and b is not None and b.v == 0:
                    eq = (n.op == "==") == pol
                    return "NULL" if eq else "NN"
        return None

    def _fp_test(self, cond, pol):
        n, pol = atom(cond, pol)
        if n is None or n.k != "BinaryOperator" or n.op not in ("==", "!="):
            return None
        l, r = strip_casts(n.c[0]), strip_casts(n.c[1])
        for a, b in ((l, r), (r, l)):
            if b is not None and b.k == "DeclRefExpr" and b.get("dk") == "func" and a is not None:
                eq = (n.op == "==") == pol
                return (unparse(a), "==" if eq else "!=", b.name)
        return None

    def _assign_state(self, rhs):
        r = strip_casts(rhs)
        if r is None:
            return "U"
        if r.v == 0:
            return "NULL"
        if r.k == "CallExpr" and r.name in self.never_null:
            return "NN"
        if r.k == "UnaryOperator" and r.op == "&":
            return "NN"
        if r.k == "StringLiteral":
            return "NN"
        return "U"

    # ---------------------------------------------------------------- states
    def states(self, func, path, entry="U"):
        """block id -> set of states at block entry; plus a function giving the
        state set just before a node."""
        inn = {b: set() for b in func.blocks}
        inn[func.entry].add((entry, frozenset()))
        work = deque([func.entry])
        while work:
            b = work.popleft()
            blk = func.blocks[b]
            outs = set()
            for st in inn[b]:
                outs.add(self._through(func, blk, st, path, None))
            for idx, s in enumerate(blk.succs):
                if s is None:
                    continue
                ek = func.edge_kind(b, idx)
                new = set()
                for (nl, fps) in outs:
                    if blk.cond is not None and ek in (True, False):
                        t = self._test(blk.cond, ek, path)
                        if t is not None:
                            if (t == "NULL" and nl == "NN") or (t == "NN" and nl == "NULL"):
                                continue  # infeasible
                            nl2 = t
                        else:
                            nl2 = nl
                        fp = self._fp_test(blk.cond, ek)
                        fps2 = fps
                        if fp is not None:
                            # infeasible if contradicts
                            if fp[1] == "==" and any(c[0] == fp[0] and ((c[1] == "==" and c[2] != fp[2]) or (c[1] == "!=" and c[2] == fp[2])) for c in fps):
                                continue
                            if fp[1] == "!=" and any(c[0] == fp[0] and c[1] == "==" and c[2] == fp[2] for c in fps):
                                continue
                            fps2 = fps | {fp}
                        new.add((nl2, fps2))
                    else:
                        new.add((nl, fps))
                add = new - inn[s]
                if add:
                    if len(inn[s]) + len(add) > self.max_states:
                        # collapse: forget fp constraints
                        inn[s] = {(x[0], frozenset()) for x in inn[s] | add}
                    else:
                        inn[s] |= add
                    work.append(s)
        return inn

    def _through(self, func, blk, st, path, upto):
        nl, fps = st
        for i, e in enumerate(blk.el):
            if upto is not None and i >= upto:
                break
            if e.k in ("BinaryOperator", "CompoundAssignOperator") and e.op in ASSIGN_OPS:
                w = access_path(e.c[0])
                if w and _is_prefix_write(w, path):
                    nl = self._assign_state(e.c[1]) if (w == path and e.op == "=") else "U"
                if w and fps:
                    fps = frozenset(c for c in fps if w.split("->")[0].split("[")[0] not in c[0])
            elif e.k == "UnaryOperator" and e.op in ("++", "--"):
                w = access_path(e.c[0])
                if w and fps:
                    root = w.split("->")[0].split("[")[0]
                    fps = frozenset(c for c in fps if root not in _idents(c[0]))
            elif e.k == "VarDecl" and e.name == path:
                nl = self._assign_state(e.c[0]) if e.c else "U"
            elif e.k == "CallExpr" and e.name in ("memset",) and len(e.c) > 1:
                w = access_path(e.c[1])
                if w and _is_prefix_write(w.lstrip("&"), path):
                    nl = "NULL" if (len(e.c) > 2 and e.c[2] is not None and e.c[2].v == 0) else "U"
        return (nl, fps)

    def states_at(self, func, inn, node, path):
        p = func.pos(node)
        if p is None:
            return set()
        b, i = p
        return {self._through(func, func.blocks[b], st, path, i) for st in inn[b]}

    # ------------------------------------------------- parameter deref summary
    def param_deref(self, func, k):
        """description of a site where parameter k is dereferenced while it may
        be NULL (no dominating test), else None."""
        if k >= len(func.params):
            return None
        res = self.unguarded_derefs(func, func.params[k]["name"], "U")
        return res[0][1] if res else None

    def deref_sites(self, func, path):
        """nodes where `path` is dereferenced directly."""
        for n in func.walk():
            if n.k == "MemberExpr" and n.get("arrow") and access_path(n.c[0]) == path:
                yield n, "%s->%s" % (path, n.name)
            elif n.k == "UnaryOperator" and n.op == "*" and access_path(n.c[0]) == path:
                yield n, "*%s" % path
            elif n.k == "ArraySubscriptExpr" and access_path(n.c[0]) == path and n.c[0].get("alen") is None \
                    and strip_casts(n.c[0]).get("alen") is None:
                yield n, "%s[]" % path

    def callees_at(self, func, call, fps):
        """possible callees of a call node: direct, or via an initialised table."""
        if call.name:
            return [call.name]
        cal = strip_casts(call.c[0])
        if cal is None:
            return []
        if cal.k == "UnaryOperator" and cal.op == "*":
            cal = strip_casts(cal.c[0])
        txt = unparse(cal)
        cands = None
        if cal.k == "MemberExpr":
            # table[i].field  where table is a (static local / global) array with initialiser
            base = strip_casts(cal.c[0])
            while base is not None and base.k == "ArraySubscriptExpr":
                base = strip_casts(base.c[0])
            if base is not None and base.k == "DeclRefExpr":
                g = None
                for gg in func.tu.globals:
                    if gg["name"] == base.name and "init" in gg:
                        g = gg
                if g is not None:
                    from facts import init_rows
                    rows = init_rows(g)
                    cands = []
                    for r in rows if isinstance(rows, list) else []:
                        if isinstance(r, dict):
                            v = r.get(cal.name)
                            if isinstance(v, tuple) and v[0] == "fn":
                                cands.append(v[1])
        if cands is None:
            return None  # unknown indirect call
        eq = [c[2] for c in fps if c[0] == txt and c[1] == "=="]
        if eq:
            cands = [c for c in cands if c in eq]
        ne = {c[2] for c in fps if c[0] == txt and c[1] == "!="}
        return [c for c in cands if c not in ne]

    def _resolve(self, func, name):
        if not self.db.has_func(name):
            return None
        for cand in self.db.funcs(name):
            if not cand.static or cand.tu is func.tu:
                return cand
        return None

    def unguarded_derefs(self, func, path, entry="U"):
        """[(node, description)] sites in func where `path` is dereferenced
        (directly, or inside a callee that receives `path` or an object it is
        reached from) in a state that is not NN.  Memoised; recursion-safe."""
        key = (func.name, func.tu.base, path, entry)
        if key in self._pd:
            return self._pd[key]
        self._pd[key] = []  # recursion guard
        inn = self.states(func, path, entry)
        out = []
        for n, desc in self.deref_sites(func, path):
            sts = self.states_at(func, inn, n, path)
            if any(s[0] != "NN" for s in sts):
                out.append((n, "%s dereferences %s without a dominating NULL test" % (func.name, desc), (func.name, desc)))
        for call in func.calls():
            args = call.args()
            hits = []
            for i, a in enumerate(args):
                ap = access_path(a) if a is not None else None
                if ap is None:
                    continue
                if ap == path or path.startswith(ap + "->"):
                    hits.append((i, path[len(ap):]))
            if not hits:
                continue
            sts = self.states_at(func, inn, call, path)
            for s in sts:
                if s[0] == "NN":
                    continue
                callees = self.callees_at(func, call, s[1])
                if callees is None:
                    continue
                for cn in callees:
                    cf = self._resolve(func, cn)
                    if cf is None:
                        continue
                    for k, suffix in hits:
                        if k >= len(cf.params):
                            continue
                        sub = self.unguarded_derefs(cf, cf.params[k]["name"] + suffix, s[0])
                        for sb in sub:
                            out.append((call, "%s -> %s" % (func.name, sb[1]), (func.name,) + sb[2]))
        seen = set()
        res = []
        for n, d, ch in out:
            if (n.id, d) in seen:
                continue
            seen.add((n.id, d))
            res.append((n, d, ch))
        self._pd[key] = res
        return res


def _idents(text):
    import re
    return set(re.findall(r"[A-Za-z_]\w*", text))
