"""Whole-library call graph with indirect calls resolved through the
function-pointer slots (struct fields) functions are stored into."""
from collections import deque

from facts import access_path, strip_casts


class CallGraph:
    def __init__(self, db):
        self.db = db
        self.byname = {}
        for f in db.all_functions():
            self.byname.setdefault(f.name, []).append(f)
        for t in db.tus.values():
            for f in t.functions:            # header inline helpers
                self.byname.setdefault(f.name, [f])
        self.field_targets = {}
        self._collect_slots()
        self._edges = {}

    def _add(self, field, fn):
        self.field_targets.setdefault(field, set()).add(fn)

    def _collect_slots(self):
        def visit_init(x):
            if isinstance(x, dict):
                if "f" in x and "rec" in x:
                    for k, v in x["f"].items():
                        if isinstance(v, dict) and "fn" in v:
                            self._add(k, v["fn"])
                        else:
                            visit_init(v)
                elif "list" in x:
                    for e in x["list"]:
                        visit_init(e)
        for t in self.db.tus.values():
            for g in t.globals:
                if "init" in g:
                    visit_init(g["init"])
        for fs in self.byname.values():
            for f in fs:
                for n in f.walk():
                    if n.k == "BinaryOperator" and n.op == "=":
                        l, r = strip_casts(n.c[0]), strip_casts(n.c[1])
                        if l is not None and l.k == "MemberExpr" and r is not None:
                            if r.k == "UnaryOperator" and r.op == "&":
                                r = strip_casts(r.c[0])
                            if r.k == "DeclRefExpr" and r.get("dk") == "func":
                                self._add(l.name, r.name)
                            elif r.k == "MemberExpr":
                                # t->compile = x86t->compile : slot-to-slot copy
                                self._add(l.name, "@" + r.name)
                    elif n.k == "CallExpr" and n.name == "orc_rule_register":
                        a = n.args()
                        if len(a) > 2:
                            r = strip_casts(a[2])
                            if r is not None and r.k == "DeclRefExpr" and r.get("dk") == "func":
                                self._add("emit", r.name)
        # resolve slot-to-slot copies
        changed = True
        while changed:
            changed = False
            for k, v in list(self.field_targets.items()):
                for x in list(v):
                    if x.startswith("@"):
                        src = self.field_targets.get(x[1:], set())
                        new = {y for y in src if not y.startswith("@")}
                        if not new <= v:
                            v |= new
                            changed = True

    def callees(self, f):
        key = (f.name, f.tu.base)
        if key in self._edges:
            return self._edges[key]
        out = set()
        for c in f.calls():
            if c.name:
                out.add(c.name)
            else:
                cal = strip_casts(c.c[0])
                if cal is not None and cal.k == "UnaryOperator" and cal.op == "*":
                    cal = strip_casts(cal.c[0])
                if cal is not None and cal.k == "MemberExpr":
                    out |= {x for x in self.field_targets.get(cal.name, ()) if not x.startswith("@")}
        self._edges[key] = out
        return out

    def resolve(self, name, frm=None):
        fs = self.byname.get(name, [])
        if frm is not None:
            for f in fs:
                if f.tu is frm.tu:
                    return f
        for f in fs:
            if not f.static:
                return f
        return fs[0] if fs else None

    def reachable(self, roots, stop=()):
        """functions reachable from root function names (Func objects returned)."""
        seen = {}
        dq = deque()
        for r in roots:
            f = self.resolve(r)
            if f is not None:
                dq.append(f)
        while dq:
            f = dq.popleft()
            key = (f.name, f.tu.base)
            if key in seen or f.name in stop:
                continue
            seen[key] = f
            for cn in self.callees(f):
                g = self.resolve(cn, f)
                if g is not None and g.body is not None:
                    dq.append(g)
        return list(seen.values())
