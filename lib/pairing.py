"""R-PAIR: acquire/release typestate over one function's CFG.

For an acquisition node (call whose result is stored in `var`), every path to
a function exit on which the resource is live must pass a release event,
unless the exit is an accepted 'ownership kept' exit.  Paths on which the
acquisition failed (edges where `var` is compared with its failure sentinel)
are pruned.
"""
from collections import deque

from facts import access_path, strip_casts, unparse
from flow import atom, CMP, NEG, SWAP, describe_path


def assigned_var(call):
    p = call.parent
    while p is not None and p.k == "CStyleCastExpr":
        p = p.parent
    if p is None:
        return None, None
    if p.k == "VarDecl":
        return p.name, p
    if p.k == "BinaryOperator" and p.op == "=":
        return access_path(p.c[0]), p
    return None, None


def failure_edge(cond, pol, var, sentinels):
    """is this edge one on which `var` holds a failure value?
    sentinels: set of {'NULL', -1, 'NEG', 'MAP_FAILED'}"""
    n, pol = atom(cond, pol)
    if n is None:
        return False
    if n.k in ("DeclRefExpr", "MemberExpr", "ArraySubscriptExpr"):
        if access_path(n) == var and pol and "NONZERO" in sentinels:
            return True                 # functions that return an error NUMBER (posix_fallocate, pthread_*): non-zero is failure
        return access_path(n) == var and not pol and "NULL" in sentinels
    if n.k != "BinaryOperator" or n.op not in CMP:
        return False
    l, r = strip_casts(n.c[0]), strip_casts(n.c[1])
    op = n.op if pol else NEG[n.op]
    if access_path(l) == var:
        other = r
    elif access_path(r) == var:
        other = l
        op = SWAP[op]
    else:
        return False
    ov = other.v
    otext = unparse(other)
    if "NONZERO" in sentinels and ov == 0 and op in ("!=", ">"):
        return True
    if "NULL" in sentinels and ov == 0 and op == "==":
        return True
    if -1 in sentinels and ov == -1 and op == "==":
        return True
    if ("NEG" in sentinels or -1 in sentinels) and ov == 0 and op == "<":
        return True
    if "MAP_FAILED" in sentinels and op == "==" and (ov == -1 or otext.replace(" ", "") in ("(void*)-1", "(void *)-1")):
        return True
    return False


def success_edge(cond, pol, var, sentinels):
    return failure_edge(cond, not pol, var, sentinels)


def live_exit_paths(func, acq_node, var, sentinels, is_release, exit_ok=None, max_paths=3):
    """witness paths (lists of block ids) from the acquisition to an exit with
    the resource live and unreleased."""
    pos = func.pos(acq_node)
    if pos is None:
        return []
    b0, i0 = pos
    out = []
    seen = set()
    dq = deque([(b0, i0 + 1, (b0,))])
    while dq and len(out) < max_paths:
        b, start, path = dq.popleft()
        blk = func.blocks[b]
        released = False
        for e in blk.el[start:]:
            if is_release(e):
                released = True
                break
        if released:
            continue
        if b == func.exit:
            out.append(list(path))
            continue
        if blk.noreturn:
            continue
        # exit statement in this block?
        ret = [e for e in blk.el[start:] if e.k == "ReturnStmt"]
        if ret and exit_ok is not None and exit_ok(ret[-1]):
            continue
        for idx, s in enumerate(blk.succs):
            if s is None:
                continue
            ek = func.edge_kind(b, idx)
            if blk.cond is not None and ek in (True, False) and failure_edge(blk.cond, ek, var, sentinels):
                continue
            key = (s,)
            if key in seen:
                continue
            seen.add(key)
            dq.append((s, 0, path + (s,)))
    return out


def call_with_arg(node, names, var):
    return node.k == "CallExpr" and node.name in names and any(
        a is not None and access_path(a) == var for a in node.args())
