"""Constant synthesis of the x86 SIMD back ends, evaluated: orc_{sse,mmx,avx}_load_constant build some 32-bit lane patterns without a
general register - all-ones (pcmpeqb r,r), zero (pxor r,r), then shifts.  Each shortcut sits behind a test `value == K`; K is a literal or
a pattern computed from a loop counter.  The emitted sequence is evaluated on one 32-bit lane for every value of the counter and must
give K - otherwise native code works with another constant than emulation and the C back end (for a float constant: another number)."""
from facts import AnalysisBroken, access_path, strip_casts, unparse
from loops import counted

M32 = 0xffffffff


def _wrap(v, ty):
    ty = ty or ""
    if "64" in ty or "long" in ty:
        return v & 0xffffffffffffffff
    if "unsigned" in ty or "uint32" in ty:
        return v & M32
    v &= M32
    return v - (1 << 32) if v & 0x80000000 else v


def ev(e, env):
    e0 = e
    e = strip_casts(e)
    while e is not None and e.k == "ParenExpr":
        e = strip_casts(e.c[0])
    if e is None:
        raise ValueError
    if e.k == "DeclRefExpr" and e.name in env:
        return env[e.name]
    if e.v is not None:
        return e.v
    if e.k == "BinaryOperator" and e.op in ("+", "-", "*", "&", "|", "^", "<<", ">>"):
        a, b = ev(e.c[0], env), ev(e.c[1], env)
        if "unsigned" in (e.ty or "") or "uint" in (e.ty or ""):
            a &= (0xffffffffffffffff if "64" in (e.ty or "") or "long" in (e.ty or "") else M32)
        r = {"+": a + b, "-": a - b, "*": a * b, "&": a & b, "|": a | b, "^": a ^ b, "<<": a << b if 0 <= b < 64 else 0, ">>": a >> b if 0 <= b < 64 else 0}[e.op]
        return _wrap(r, e.ty)
    raise ValueError


def _lanes(v, bits, fn):
    out = 0
    for k in range(0, 32, bits):
        out |= (fn((v >> k) & ((1 << bits) - 1)) & ((1 << bits) - 1)) << k
    return out


def simulate(calls, env):
    """32-bit lane value after the emit calls, or None when a call is not modelled."""
    s = None
    for c in calls:
        nm = c.name or ""
        a = c.args()
        if nm not in ("orc_x86_emit_cpuinsn_size", "orc_x86_emit_cpuinsn_imm") or len(a) < 5:
            return None
        op = unparse(a[1]).strip()
        if not op.startswith("ORC_X86_"):
            return None
        op = op[len("ORC_X86_"):]
        try:
            if op == "pxor" and nm.endswith("_size") and unparse(a[3]) == unparse(a[4]):
                s = 0
            elif op in ("pcmpeqb", "pcmpeqw", "pcmpeqd") and nm.endswith("_size") and unparse(a[3]) == unparse(a[4]):
                s = M32
            elif op in ("pslld_imm", "psrld_imm", "psllw_imm", "psrlw_imm") and s is not None:
                k = ev(a[2], env)
                bits = 32 if op[4] == "d" else 16
                left = op[2] == "l" and op[3] == "l"
                s = _lanes(s, bits, (lambda x: x << k if k < bits else 0) if left else (lambda x: x >> k if k < bits else 0))
            elif op == "pabsb" and nm.endswith("_size") and s is not None:
                s = _lanes(s, 8, lambda x: (256 - x) if x & 0x80 else x)
            else:
                return None
        except (ValueError, IndexError):
            return None
    return s


def check(db, rep, rule, where):
    n = 0
    total = 0
    for fname, tub in (("orc_sse_load_constant", "orcprogram-sse"), ("orc_mmx_load_constant", "orcprogram-mmx")):
        if not db.has_func(fname):
            continue
        f = db.func(fname, tub)
        rep.saw(f)
        vpar = [p["name"] for p in f.params if "64" in (p.get("ty") or "")]
        if not vpar:
            raise AnalysisBroken("%s: value parameter not found" % fname)
        V = vpar[0]
        for iff in f.walk():
            if iff.k != "IfStmt" or not iff.c:
                continue
            c = strip_casts(iff.c[0])
            if c is None or c.k != "BinaryOperator" or c.op != "==":
                continue
            sides = [strip_casts(x) for x in c.c]
            if access_path(sides[0]) == V:
                kx = sides[1]
            elif access_path(sides[1]) == V:
                kx = sides[0]
            else:
                continue
            then = iff.c[1]
            calls = [x for x in then.walk() if x.k == "CallExpr" and x.name and "_emit_" in x.name and x.name != "orc_compiler_append_code"]
            if not calls or not any(x.k == "ReturnStmt" for x in then.walk()):
                continue
            # enclosing counted loop and the pattern variable's definition inside it
            loop = None
            for anc in iff.ancestors():
                if anc.k == "ForStmt":
                    loop = anc
                    break
            envs = [{}]
            if loop is not None:
                cl = counted(loop)
                if cl is None or cl["first"][0] is not None or cl["last"][0] is not None:
                    continue
                envs = [{cl["var"]: i} for i in range(cl["first"][1], cl["last"][1] + 1)]
            bad = []
            decided = 0
            for env in envs:
                env = dict(env)
                if loop is not None:
                    # assignments `v = pattern` of the loop body that precede this test
                    for st in loop.walk():
                        if st.k == "BinaryOperator" and st.op == "=" and strip_casts(st.c[0]).k == "DeclRefExpr" and st.line <= iff.line and (st.line, st.id) < (iff.line, iff.id):
                            try:
                                env[strip_casts(st.c[0]).name] = ev(st.c[1], env) & M32
                            except ValueError:
                                env.pop(strip_casts(st.c[0]).name, None)
                try:
                    K = ev(kx, env) & M32
                except ValueError:
                    continue
                got = simulate(calls, env)
                if got is None:
                    continue
                decided += 1
                if got != K:
                    bad.append("value 0x%08x is built as 0x%08x%s" % (K, got, "" if not env else " (%s)" % ", ".join("%s=%s" % kv for kv in sorted(env.items()) if kv[0] != "v")))
            if not decided:
                continue
            n += 1
            total += decided
            rep.check(not bad, rule, where(f), "%s@%s" % (fname, iff.line), "the emitted shift sequence yields the constant it is selected for (%d cases)" % decided,
                      "%s: %s - native code computes with another constant than emulation and generated C" % (fname, "; ".join(bad[:3])), line=iff.line)
    rep.extra["const_synthesis_cases_evaluated"] = total
    if n < 5:
        raise AnalysisBroken("only %d constant-synthesis shortcuts evaluated" % n)
    return n
