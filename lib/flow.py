"""Path-sensitive helpers over the per-function CFG.

* must-facts: branch conditions that hold on EVERY path reaching a program
  point (forward must-analysis, facts killed by assignments to the access paths
  they mention)
* bounds derived from such facts
* typestate / pairing search: paths from an event to the function exit that
  avoid a set of events
"""
from collections import deque

from facts import ASSIGN_OPS, access_path, strip_casts, unparse

CMP = {"<", "<=", ">", ">=", "==", "!="}
NEG = {"<": ">=", "<=": ">", ">": "<=", ">=": "<", "==": "!=", "!=": "=="}
SWAP = {"<": ">", "<=": ">=", ">": "<", ">=": "<=", "==": "==", "!=": "!="}


def paths_in(n):
    """access paths read anywhere inside expression n (maximal paths)."""
    out = set()
    if n is None:
        return out
    st = [n]
    while st:
        x = st.pop()
        if x is None:
            continue
        p = access_path(x) if x.k in ("DeclRefExpr", "MemberExpr", "ArraySubscriptExpr") else None
        if p is not None and not (x.k == "DeclRefExpr" and x.get("dk") in ("func", "enum")):
            out.add(p)
            # still descend into subscripts' index expressions
            y = x
            while y is not None and y.k in ("MemberExpr", "ArraySubscriptExpr"):
                if y.k == "ArraySubscriptExpr":
                    st.append(y.c[1])
                y = strip_casts(y.c[0])
            continue
        st.extend(x.c)
    return out


def written_paths(n):
    """access paths assigned by evaluating node n itself (not its children)."""
    if n.k in ("BinaryOperator", "CompoundAssignOperator") and n.op in ASSIGN_OPS:
        p = access_path(n.c[0])
        return [p] if p else []
    if n.k == "UnaryOperator" and n.op in ("++", "--"):
        p = access_path(n.c[0])
        return [p] if p else []
    if n.k == "VarDecl" and n.c:
        return [n.name]
    return []


def atom(cond, pol):
    """strip logical negations: returns (node, polarity)."""
    cond = strip_casts(cond)
    while cond is not None and cond.k == "UnaryOperator" and cond.op == "!":
        cond = strip_casts(cond.c[0])
        pol = not pol
    # x != 0 / x == 0 / x == NULL / x != NULL  (any x: condition spelling must not matter)
    if cond is not None and cond.k == "BinaryOperator" and cond.op in ("==", "!=") and cond.c[1] is not None and cond.c[0] is not None:
        rhs, lhs = strip_casts(cond.c[1]), strip_casts(cond.c[0])
        zero = lambda e: e is not None and e.k == "IntegerLiteral" and e.v == 0
        if zero(lhs) and not zero(rhs):
            lhs, rhs = rhs, lhs
        if zero(rhs) and lhs is not None and not (lhs.k == "BinaryOperator" and lhs.op in ("+", "-", "*", "/", "%", "|", "^", "<<", ">>")):
            return atom(lhs, pol if cond.op == "!=" else not pol)
    return cond, pol


def split_facts(n, pol):
    """atoms implied by (n, pol): conjunctions that hold and disjunctions that fail are split."""
    n, pol = atom(n, pol)
    if n is None:
        return []
    if n.k == "BinaryOperator" and ((n.op == "&&" and pol) or (n.op == "||" and not pol)):
        return split_facts(n.c[0], pol) + split_facts(n.c[1], pol)
    return [(n, pol)]


def _pure(e):
    for x in e.walk():
        if (x.k == "CallExpr" and x.name not in ("strcmp", "strncmp", "strlen", "memcmp", "__builtin_expect")) or \
                (x.k in ("BinaryOperator", "CompoundAssignOperator") and x.op in ASSIGN_OPS) or \
                (x.k == "UnaryOperator" and x.op in ("++", "--")):
            return False
    return True


def expand_predicate(func, call):
    """If `call` invokes a function of the same translation unit whose body is a single `return <pure expression>;`, return
    that expression instantiated with the call's arguments (as nodes registered in `func`), else None."""
    import copy
    from facts import Node
    if call is None or call.k != "CallExpr" or not call.name:
        return None
    g = func.tu.fn.get(call.name)
    if g is None or g is func or g.body is None:
        return None
    stmts = [x for x in g.body.kids() if x is not None and x.k != "NullStmt"]
    rexpr = None
    if len(stmts) == 1 and stmts[0].k == "ReturnStmt" and stmts[0].c and stmts[0].c[0] is not None:
        rexpr = stmts[0].c[0]
    elif len(stmts) == 2 and stmts[0].k == "IfStmt" and stmts[1].k == "ReturnStmt" and stmts[1].c and stmts[1].c[0] is not None \
            and strip_casts(stmts[1].c[0]).v == 0 and len([x for x in stmts[0].c if x is not None]) == 2:
        # if (C) { return TRUE; }  return FALSE;
        thn = stmts[0].c[1]
        ts = [x for x in (thn.kids() if thn.k == "CompoundStmt" else [thn]) if x is not None and x.k != "NullStmt"]
        if len(ts) == 1 and ts[0].k == "ReturnStmt" and ts[0].c and ts[0].c[0] is not None and strip_casts(ts[0].c[0]).v not in (0, None):
            rexpr = stmts[0].c[0]
    if rexpr is None:
        return None
    if not _pure(rexpr):
        return None
    args = call.args()
    pn = [p["name"] for p in g.params]
    if len(args) != len(pn) or not all(_pure(a) for a in args):
        return None
    amap = {n: a.d for n, a in zip(pn, args)}
    vid = getattr(func, "_vid", -1)

    def inst(d):
        nonlocal vid
        if d is None:
            return None
        if d.get("k") == "DeclRefExpr" and d.get("dk") == "param" and d.get("name") in amap:
            d2 = copy.deepcopy(amap[d["name"]])
        else:
            d2 = {k: v for k, v in d.items() if k != "c"}
            d2["c"] = [inst(ch) for ch in d.get("c", [])]
            d2["l"] = call.line
            d2["id"] = vid
            vid -= 1
            return d2
        # renumber the copied argument subtree
        st = [d2]
        while st:
            x = st.pop()
            if isinstance(x, dict):
                x["id"] = vid
                vid -= 1
                st.extend(ch for ch in x.get("c", []) if ch is not None)
        return d2
    nd = inst(rexpr.d)
    func._vid = vid
    return Node(nd, None, func)


def cmp_parts(n):
    """(lhs, op, rhs) of a comparison with a constant operand moved to the right and `>`/`>=` turned round, or None."""
    n = strip_casts(n)
    if n is None or n.k != "BinaryOperator" or n.op not in CMP:
        return None
    a, b, op = strip_casts(n.c[0]), strip_casts(n.c[1]), n.op
    if a is not None and a.v is not None and (b is None or b.v is None):
        a, b, op = b, a, SWAP[op]
    return a, op, b


class Facts:
    """Must-hold branch facts per CFG block entry."""

    def __init__(self, func, call_kills=False):
        self.f = func
        self.call_kills = call_kills
        self.edge_facts = {}
        self.reads = {}
        self._in = None

    def _edge(self, b, idx):
        blk = self.f.blocks[b]
        key = (b, idx)
        if key in self.edge_facts:
            return self.edge_facts[key]
        res = frozenset()
        ek = self.f.edge_kind(b, idx)
        if blk.cond is not None and ek in (True, False):
            n, pol = atom(blk.cond, ek)
            if n is not None:
                facts_ = [(n, pol)] + [x for x in split_facts(n, pol) if x[0] is not n]      # !(a && b) false  =>  a, b
                # a call to a predicate helper (`static int full (T *x) { return x->n >= MAX; }`) stands for its body
                exp = expand_predicate(self.f, n)
                if exp is not None:
                    facts_ += split_facts(exp, pol)
                res = frozenset(("c", m.id, q) for m, q in facts_)
                for m, q in facts_:
                    self.reads[m.id] = paths_in(m)
        elif blk.cond is not None and isinstance(ek, tuple) and ek[0] == "case":
            # several case labels may share a successor block: only a fact when
            # this is the only switch edge into it
            same = [i for i, s in enumerate(blk.succs) if s == blk.succs[idx]]
            if len(same) == 1:
                res = frozenset([("s", blk.cond.id, ek[1], ek[2])])
                self.reads[blk.cond.id] = paths_in(blk.cond)
        self.edge_facts[key] = res
        return res

    def _kill(self, facts, node):
        w = written_paths(node)
        if self.call_kills and node.k == "CallExpr" and facts:
            # a callee that receives a pointer may change anything reachable from it
            passed = set()
            for a in node.c:
                if a is None:
                    continue
                aa = strip_casts(a)
                p = access_path(aa)
                if p and ("*" in aa.ty or p.startswith("&")):
                    passed.add(p.lstrip("&"))
            if passed:
                out = set()
                for fct in facts:
                    rd = self.reads.get(fct[1], ())
                    # only memory reachable THROUGH the passed pointer can change
                    if any(r.startswith(q + "->") or r.startswith(q + "[") or (r.startswith(q + ".") ) for r in rd for q in passed):
                        continue
                    out.add(fct)
                facts = frozenset(out)
        if not w:
            return facts
        out = set()
        for fct in facts:
            rd = self.reads.get(fct[1], ())
            dead = False
            for p in w:
                for r in rd:
                    if r == p or r.startswith(p + "->") or r.startswith(p + ".") or r.startswith(p + "["):
                        dead = True
            if not dead:
                out.add(fct)
        return frozenset(out)

    def _transfer(self, b, facts, upto=None):
        for i, e in enumerate(self.f.blocks[b].el):
            if upto is not None and i >= upto:
                break
            facts = self._kill(facts, e)
        return facts

    def compute(self):
        if self._in is not None:
            return self._in
        f = self.f
        TOP = None
        inn = {b: TOP for b in f.blocks}
        inn[f.entry] = frozenset()
        work = deque([f.entry])
        while work:
            b = work.popleft()
            out = self._transfer(b, inn[b])
            blk = f.blocks[b]
            for idx, s in enumerate(blk.succs):
                if s is None:
                    continue
                val = out | self._edge(b, idx)
                # a fact about a condition is killed if the block's own elements
                # after the condition write it: conditions are last, ignore
                old = inn[s]
                new = val if old is TOP else (old & val)
                if old is TOP or new != old:
                    inn[s] = new
                    work.append(s)
        self._in = inn
        return inn

    def at(self, node):
        """facts holding just before `node` is evaluated."""
        inn = self.compute()
        p = self.f.pos(node)
        if p is None:
            return frozenset()
        b, i = p
        base = inn.get(b)
        if base is None:
            return frozenset()  # unreachable
        return self._transfer(b, base, upto=i)

    def reachable(self, node):
        p = self.f.pos(node)
        return p is not None and self.compute().get(p[0]) is not None

    def conds(self, node):
        """[(cond-node, polarity)] / [('switch', cond-node, lo, hi)] at node."""
        out = []
        for fct in self.at(node):
            if fct[0] == "c":
                out.append((self.f.nodes[fct[1]], fct[2]))
            else:
                out.append(("switch", self.f.nodes[fct[1]], fct[2], fct[3]))
        return out


def const_of(n):
    n = strip_casts(n)
    if n is None:
        return None
    return n.v


def linear(n, resolve=None, depth=0):
    """expr -> (paths, offset) when expr == sum(paths) + offset; `paths` is
    None for a constant, a string for one path, a '+'-joined sorted string for
    a sum of several distinct paths."""
    r = _lin(n, resolve, depth)
    if r is None:
        return None
    ps, off = r
    if not ps:
        return (None, off)
    return ("+".join(sorted(ps)), off)


def _lin(n, resolve, depth):
    n = strip_casts(n)
    if n is None:
        return None
    if n.v is not None:
        return ((), n.v)
    if n.k in ("DeclRefExpr", "MemberExpr", "ArraySubscriptExpr"):
        p = access_path(n)
        if p is None:
            return None
        if resolve is not None and n.k == "DeclRefExpr" and depth < 4:
            d = resolve(n.name)
            if d is not None:
                r = _lin(d, resolve, depth + 1)
                if r is not None:
                    return r
        return ((p,), 0)
    if n.k == "BinaryOperator" and n.op in ("+", "-"):
        a = _lin(n.c[0], resolve, depth)
        b = _lin(n.c[1], resolve, depth)
        if a is None or b is None:
            return None
        if n.op == "+":
            if set(a[0]) & set(b[0]):
                return None
            return (a[0] + b[0], a[1] + b[1])
        if not b[0]:
            return (a[0], a[1] - b[1])
        return None
    if n.k == "UnaryOperator" and n.op in ("++", "--") and n.get("postfix"):
        return _lin(n.c[0], resolve, depth)
    return None


def upper_bound(conds, path, resolve=None):
    """least upper bound on `path` (a linear-form key as returned by linear())
    implied by must-facts (None = unbounded)."""
    best = None
    for c in conds:
        if c[0] == "switch":
            continue
        n, pol = c
        if n.k != "BinaryOperator" or n.op not in CMP:
            continue
        op = n.op if pol else NEG[n.op]
        for res in ((resolve,) if resolve is None else (resolve, None)):
            l = linear(n.c[0], res)
            r = linear(n.c[1], res)
            if l is None or r is None:
                continue
            # normalise to  path + lo  OP  const
            if l[0] == path and r[0] is None:
                k = r[1] - l[1]
                o = op
            elif r[0] == path and l[0] is None:
                k = l[1] - r[1]
                o = SWAP[op]
            else:
                continue
            ub = None
            if o == "<":
                ub = k - 1
            elif o == "<=":
                ub = k
            elif o == "==":
                ub = k
            if ub is not None and (best is None or ub < best):
                best = ub
    return best


def lower_bound(conds, path, resolve=None):
    """greatest lower bound on `path` implied by must-facts (None = unbounded)."""
    best = None
    for c in conds:
        if c[0] == "switch":
            continue
        n, pol = c
        if n.k != "BinaryOperator" or n.op not in CMP:
            continue
        op = n.op if pol else NEG[n.op]
        for res in ((resolve,) if resolve is None else (resolve, None)):
            l = linear(n.c[0], res)
            r = linear(n.c[1], res)
            if l is None or r is None:
                continue
            if l[0] == path and r[0] is None:
                k = r[1] - l[1]
                o = op
            elif r[0] == path and l[0] is None:
                k = l[1] - r[1]
                o = SWAP[op]
            else:
                continue
            lb = None
            if o == ">":
                lb = k + 1
            elif o in (">=", "=="):
                lb = k
            if lb is not None and (best is None or lb > best):
                best = lb
    return best


def single_defs(func):
    """locals assigned exactly once (initialiser or one assignment) whose
    address is never taken: name -> defining expression node."""
    defs = {}
    bad = set()
    for n in func.walk():
        if n.k == "VarDecl":
            if n.c and n.c[0] is not None:
                defs.setdefault(n.name, []).append(n.c[0])
        elif n.k in ("BinaryOperator", "CompoundAssignOperator") and n.op in ASSIGN_OPS:
            l = strip_casts(n.c[0])
            if l is not None and l.k == "DeclRefExpr" and l.get("dk") in ("local", "param"):
                if n.op == "=":
                    defs.setdefault(l.name, []).append(n.c[1])
                else:
                    bad.add(l.name)
        elif n.k == "UnaryOperator" and n.op in ("++", "--", "&"):
            l = strip_casts(n.c[0])
            if l is not None and l.k == "DeclRefExpr":
                bad.add(l.name)
    params = {p["name"] for p in func.params}
    out = {}
    for k, v in defs.items():
        if k in bad or k in params or len(v) != 1:
            continue
        out[k] = v[0]
    return out


# ---------------------------------------------------------------------------
# pairing / typestate path search
# ---------------------------------------------------------------------------
def paths_avoiding(func, start_node, is_release, is_exit_ok=None, after=True, edge_filter=None):
    """Is there a path from just after `start_node` to the function exit on
    which no element satisfies is_release?  Returns a witness list of block
    ids, or None.  `edge_filter(block, idx)` may prune infeasible edges."""
    p = func.pos(start_node)
    if p is None:
        return None
    b0, i0 = p
    blk = func.blocks[b0]
    for e in blk.el[i0 + 1:]:
        if is_release(e):
            return None
    seen = set()
    dq = deque([(b0, (b0,))])
    first = True
    while dq:
        b, path = dq.popleft()
        blk = func.blocks[b]
        if not first:
            if b in seen:
                continue
            seen.add(b)
            if any(is_release(e) for e in blk.el):
                continue
        first = False
        if b == func.exit:
            return list(path)
        if blk.noreturn:
            continue
        for idx, s in enumerate(blk.succs):
            if s is None:
                continue
            if edge_filter is not None and not edge_filter(b, idx):
                continue
            dq.append((s, path + (s,)))
    return None


def describe_path(func, path):
    """human-readable rendering of a block path: the branch conditions taken."""
    out = []
    for a, b in zip(path, path[1:]):
        blk = func.blocks[a]
        if blk.cond is not None and len(blk.succs) >= 2:
            idx = blk.succs.index(b) if b in blk.succs else -1
            ek = func.edge_kind(a, idx) if idx >= 0 else None
            out.append("%s=%s@L%d" % (unparse(blk.cond)[:60], ek, blk.cond.line))
    return " -> ".join(out) if out else "(straight line)"


def path_to(func, target, is_release, edge_filter=None):
    """Is there a path from the function entry to `target` on which no element satisfies is_release?  Returns a witness list of
    block ids or None.  `edge_filter(block, idx)` may prune infeasible edges."""
    tp = func.pos(target)
    if tp is None:
        return None
    seen = set()
    dq = deque([(func.entry, (func.entry,))])
    while dq:
        b, path = dq.popleft()
        if b in seen:
            continue
        seen.add(b)
        blk = func.blocks[b]
        els = blk.el[:tp[1]] if b == tp[0] else blk.el
        if any(is_release(e) for e in els):
            continue
        if b == tp[0]:
            return list(path)
        for idx, s in enumerate(blk.succs):
            if s is None:
                continue
            if edge_filter is not None and not edge_filter(b, idx):
                continue
            dq.append((s, path + (s,)))
    return None


def reaching_defs(func, name, node):
    """assignments / initialisers of local `name` that can be the latest one when `node` is evaluated."""
    defs = [d for d in func.walk() if (d.k == "BinaryOperator" and d.op == "=" and access_path(d.c[0]) == name) or
            (d.k == "VarDecl" and d.name == name and d.c and d.c[0] is not None)]
    ids = {d.id for d in defs}
    tp = func.pos(node)
    out = []
    if tp is None:
        return defs
    for d in defs:
        dp = func.pos(d)
        if dp is None:
            out.append(d)
            continue
        seen = set()
        dq = deque([(dp[0], dp[1] + 1)])
        hit = False
        while dq and not hit:
            b, i = dq.popleft()
            if (b, i > 0) in seen:
                continue
            seen.add((b, i > 0))
            blk = func.blocks[b]
            killed = False
            for j in range(i, len(blk.el)):
                e = blk.el[j]
                if b == tp[0] and j == tp[1]:
                    hit = True
                    break
                if e.id in ids:
                    killed = True
                    break
            if hit or killed:
                continue
            for s in blk.succs:
                if s is not None:
                    dq.append((s, 0))
        if hit:
            out.append(d)
    return out
