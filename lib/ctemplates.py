"""Instantiate C code templates of the generators (format literals of orcprogram-c.c / tools/orcc.c) into a synthetic
translation unit, so that type-level rules can be applied to the code Orc WOULD emit, without running the generator."""
import re

from facts import AnalysisBroken, strip_casts

EMITTERS = ("orc_compiler_append_code", "fprintf")


def param_half_templates(db):
    """[(function, call node, format literal)] for every emitted statement that assembles a 64-bit parameter from executor slots."""
    out = []
    for tub in ("orcprogram-c", "orcc"):
        tu = db.tu(tub)
        for f in tu.main_functions():
            for c in f.calls():
                if c.name not in EMITTERS:
                    continue
                for a in c.args()[1:3]:
                    a = strip_casts(a)
                    s = a.get("str") if a is not None and a.k == "StringLiteral" else None
                    if s and "ex->params" in s and "<<" in s:
                        out.append((f, c, s))
    return out


def instantiate(fmt):
    """turn a printf-style template into a C statement over the placeholders V (orc_union64), index 24."""
    s = fmt.strip()
    s = re.sub(r"\[%s", "[ORC_VAR_P1", s)                 # enum name inside a subscript
    s = re.sub(r"_orc_p%d", "V", s)
    # first remaining %s at the start of a statement is the destination
    s = re.sub(r"^%s", "V.i", s)
    s = s.replace("%s", "V.i").replace("%d", "24")
    if "%" in s.replace("%%", ""):
        raise AnalysisBroken("template with an unhandled conversion: %r" % fmt)
    if "=" not in s.split("|")[0]:
        s = "V.i = " + s
    if not s.rstrip().endswith(";"):
        s += ";"
    return s


def build_unit(templates):
    lines = ["#include <orc/orc.h>", "#include <orc/orcinternal.h>", ""]
    for k, (f, c, fmt) in enumerate(templates):
        lines.append("void tmpl_%d (OrcExecutor *ex) { orc_union64 V; V.i = 0; %s (void) V; }" % (k, instantiate(fmt)))
    return "\n".join(lines) + "\n"


def check_param_halves(ctx, db, rep, rule):
    """R-WIDEN over (a) the instantiated templates and (b) every real function of the library that ORs a shifted high half."""
    from widen import check_or_halves
    from rules_common import where
    tps = param_half_templates(db)
    if len(tps) < 2:
        raise AnalysisBroken("only %d templates assembling a 64-bit parameter found in orcprogram-c.c / orcc.c" % len(tps))
    sdb = ctx.snippet_db("halves", build_unit(tps))
    tu = sdb.tu("halves")
    n = 0
    for k, (f, c, fmt) in enumerate(tps):
        g = tu.fn.get("tmpl_%d" % k)
        if g is None:
            raise AnalysisBroken("template %d did not produce a function" % k)
        m = check_or_halves(g, rep, rule, where(f), "template@%s:" % f.name)
        if m == 0:
            raise AnalysisBroken("template in %s no longer has the form lo | (hi << 32): %r" % (f.name, fmt))
        n += m
    # real code: emulator and executor helpers
    m2 = 0
    for f in db.all_functions():
        if f.relfile.startswith("orc/") or f.relfile.startswith("tools/"):
            m2 += check_or_halves(f, rep, rule, where(f), "")
    return n, m2


CONST_PROBES = (-1, -2, -32768, 1, 255, 65535, 0x7fffffff, 0x80000000)


def check_constant_spelling(ctx, db, rep, rule):
    """c_get_name_int spells a constant operand into the generated C.  For every sprintf it can reach with a constant (facts
    say vartype == ORC_VAR_TYPE_CONST) and every probe value its guards admit, the text it would write must, as a C
    expression combined with an `int`, evaluate to that value -- decided by the C front end on an instantiated unit
    (`enum { W = ((long long)(0 + (TEXT)) == VALUE) }`), not by running the generator."""
    from flow import Facts
    from exprval import evaluate, variables, NotPure
    from facts import access_path, unparse
    from rules_common import where
    f = db.func("c_get_name_int", "orcprogram-c")
    CONST = db.enum("ORC_VAR_TYPE_CONST")
    fc = Facts(f)
    cases = []
    for c in f.calls("sprintf"):
        conds = fc.conds(c)
        isconst = False
        for x in conds:
            if x[0] == "switch":
                continue
            e = strip_casts(x[0])
            if e.k == "BinaryOperator" and e.op == "==" and x[1] is True and strip_casts(e.c[1]).v == CONST and (access_path(e.c[0]) or "").endswith(".vartype"):
                isconst = True
        if not isconst:
            continue
        a = c.args()
        fmt = strip_casts(a[1])
        if fmt is None or fmt.k != "StringLiteral":
            raise AnalysisBroken("c_get_name_int: constant branch uses a non-literal format")
        fmt = fmt.get("str", "")
        vpaths = set()
        for x in conds:
            if x[0] != "switch":
                vpaths |= {v for v in variables(x[0]) if v.endswith(".value.i")}
        for arg in a[2:]:
            vpaths |= {v for v in variables(arg) if v.endswith(".value.i")}
        if len(vpaths) > 1:
            raise AnalysisBroken("c_get_name_int: several value paths %s" % vpaths)
        VP = list(vpaths)[0] if vpaths else None
        for t in CONST_PROBES:
            env = {VP: t} if VP else {}
            ok = True
            for x in conds:
                if x[0] == "switch" or not (variables(x[0]) & set(env)):
                    continue
                try:
                    if bool(evaluate(x[0], env, width=64)) != bool(x[1]):
                        ok = False
                except NotPure:
                    pass
            if not ok:
                continue
            try:
                vals = tuple(evaluate(arg, env, width=64) for arg in a[2:])
                text = fmt % vals if vals else fmt
            except (NotPure, TypeError, ValueError) as e:
                raise AnalysisBroken("c_get_name_int: cannot instantiate %r with %s: %s" % (fmt, t, e))
            cases.append((c, fmt, t, text))
    if len(cases) < 4:
        raise AnalysisBroken("c_get_name_int: only %d (format, value) cases for constant operands" % len(cases))
    unit = ["/* instantiated constant spellings of c_get_name_int */"]
    for k, (c, fmt, t, text) in enumerate(cases):
        unit.append("enum { W_%d = ((long long)(0 + (%s)) == (%dLL)) };" % (k, text, t))
    sdb = ctx.snippet_db("constspell", "\n".join(unit) + "\n")
    enums = sdb.tu("constspell").enums
    for k, (c, fmt, t, text) in enumerate(cases):
        got = enums.get("W_%d" % k)
        rep.check(got == 1, rule, where(f), "const:%r@%d" % (fmt, t),
                  "constant %d is spelled `%s`, which evaluates to it in int arithmetic" % (t, text),
                  "c_get_name_int spells the constant %d as `%s`; combined with an int (`i + %s`) that is not %d in C (an unsigned literal makes the "
                  "index arithmetic unsigned: ptr[i + 0xffffffff] instead of ptr[i - 1])" % (t, text, text, t), line=c.line)
    return len(cases)
