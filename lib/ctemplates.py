"""Instantiate C code templates of the generators (format literals of orcprogram-c.c / tools/orcc.c) into a synthetic
translation unit, so that type-level rules can be applied to the code Orc WOULD emit, without running the generator."""
import re

from facts import AnalysisBroken, strip_casts

EMITTERS = ("orc_compiler_append_code", "fprintf")


def param_half_templates(db):
    """[(function, call node, format literal)] for every emitted statement that assembles a 64-bit parameter from executor slots."""
    out = []
    for tub in ("orcprogram-c", "orcc"):
        tu = db.tu(tub)
        for f in tu.main_functions():
            for c in f.calls():
                if c.name not in EMITTERS:
                    continue
                for a in c.args()[1:3]:
                    a = strip_casts(a)
                    s = a.get("str") if a is not None and a.k == "StringLiteral" else None
                    if s and "ex->params" in s and "<<" in s:
                        out.append((f, c, s))
    return out


def instantiate(fmt):
    """turn a printf-style template into a C statement over the placeholders V (orc_union64), index 24."""
    s = fmt.strip()
    s = re.sub(r"\[%s", "[ORC_VAR_P1", s)                 # enum name inside a subscript
    s = re.sub(r"_orc_p%d", "V", s)
    # first remaining %s at the start of a statement is the destination
    s = re.sub(r"^%s", "V.i", s)
    s = s.replace("%s", "V.i").replace("%d", "24")
    if "%" in s.replace("%%", ""):
        raise AnalysisBroken("template with an unhandled conversion: %r" % fmt)
    if "=" not in s.split("|")[0]:
        s = "V.i = " + s
    if not s.rstrip().endswith(";"):
        s += ";"
    return s


def build_unit(templates):
    lines = ["#include <orc/orc.h>", "#include <orc/orcinternal.h>", ""]
    for k, (f, c, fmt) in enumerate(templates):
        lines.append("void tmpl_%d (OrcExecutor *ex) { orc_union64 V; V.i = 0; %s (void) V; }" % (k, instantiate(fmt)))
    return "\n".join(lines) + "\n"


def check_param_halves(ctx, db, rep, rule):
    """R-WIDEN over (a) the instantiated templates and (b) every real function of the library that ORs a shifted high half."""
    from widen import check_or_halves
    from rules_common import where
    tps = param_half_templates(db)
    if len(tps) < 2:
        raise AnalysisBroken("only %d templates assembling a 64-bit parameter found in orcprogram-c.c / orcc.c" % len(tps))
    sdb = ctx.snippet_db("halves", build_unit(tps))
    tu = sdb.tu("halves")
    n = 0
    for k, (f, c, fmt) in enumerate(tps):
        g = tu.fn.get("tmpl_%d" % k)
        if g is None:
            raise AnalysisBroken("template %d did not produce a function" % k)
        m = check_or_halves(g, rep, rule, where(f), "template@%s:" % f.name)
        if m == 0:
            raise AnalysisBroken("template in %s no longer has the form lo | (hi << 32): %r" % (f.name, fmt))
        n += m
    # real code: emulator and executor helpers
    m2 = 0
    for f in db.all_functions():
        if f.relfile.startswith("orc/") or f.relfile.startswith("tools/"):
            m2 += check_or_halves(f, rep, rule, where(f), "")
    return n, m2
