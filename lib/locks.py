"""R-LOCK / lock pairing: must-hold lock state over one function's CFG and
'requires-lock' summaries for functions all of whose callers hold the lock."""
from collections import deque

LOCK = {"orc_global_mutex_lock": ("global", 1), "orc_global_mutex_unlock": ("global", 0),
        "orc_once_mutex_lock": ("once", 1), "orc_once_mutex_unlock": ("once", 0)}


class LockState:
    def __init__(self, func, mutex, entry_held=False):
        self.f = func
        self.m = mutex
        self.entry_held = entry_held
        self._in = None

    def _step(self, held, e):
        if e.k == "CallExpr" and e.name in LOCK and LOCK[e.name][0] == self.m:
            return bool(LOCK[e.name][1])
        return held

    def compute(self):
        if self._in is not None:
            return self._in
        f = self.f
        inn = {b: None for b in f.blocks}
        inn[f.entry] = self.entry_held
        work = deque([f.entry])
        while work:
            b = work.popleft()
            h = inn[b]
            for e in f.blocks[b].el:
                h = self._step(h, e)
            for s in f.blocks[b].succs:
                if s is None:
                    continue
                new = h if inn[s] is None else (inn[s] and h)
                if inn[s] is None or new != inn[s]:
                    inn[s] = new
                    work.append(s)
        self._in = inn
        return inn

    def held_at(self, node):
        inn = self.compute()
        p = self.f.pos(node)
        if p is None:
            return None
        h = inn.get(p[0])
        if h is None:
            return None
        for e in self.f.blocks[p[0]].el[:p[1]]:
            h = self._step(h, e)
        return h

    def exit_states(self):
        """set of lock states with which the function can reach its exit
        (may-analysis: union over paths), keyed by the returned constant."""
        f = self.f
        out = set()
        seen = set()
        st = [(f.entry, self.entry_held)]
        while st:
            b, h = st.pop()
            if (b, h) in seen:
                continue
            seen.add((b, h))
            ret = None
            for e in f.blocks[b].el:
                h = self._step(h, e)
                if e.k == "ReturnStmt":
                    ret = e.c[0].v if e.c and e.c[0] is not None else None
            if b == f.exit:
                continue
            succs = [s for s in f.blocks[b].succs if s is not None]
            if f.exit in succs:
                out.add((ret, h))
            for s in succs:
                st.append((s, h))
        return out


def requires_lock(db, func, mutex, _stack=(), serialised=None):
    """True when every caller (same TU for statics) calls func with `mutex` held.  `serialised(f)` may name callers that
    cannot run concurrently with anything (functions that only run inside the once-guarded library initialisation)."""
    if func.name in _stack:
        return False
    callers = [(f, c) for (f, c) in db.callers().get(func.name, []) if (not func.static or f.tu is func.tu)]
    if not callers:
        return False
    for f, c in callers:
        ls = LockState(f, mutex)
        if ls.held_at(c):
            continue
        if serialised is not None and serialised(f):
            continue
        if f.static and requires_lock(db, f, mutex, _stack + (func.name,), serialised):
            continue
        return False
    return True
