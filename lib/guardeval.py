"""Decision-tree evaluation of a guard: does an assignment of truth values to the atoms of the conditions exist, consistent
with some fixed atoms, under which control flows from a start block to the end of a region WITHOUT passing a target event?

Conditions that call a function of the same translation unit whose returns are constants are evaluated by walking that
function's CFG under the same assignment (so a predicate may be an inline expression, a one-line helper or a helper with
several early returns - the verdict is the same)."""
from facts import strip_casts, unparse
from flow import atom


class Walk:
    def __init__(self, func, fixed, max_leaves=4096):
        self.f = func
        self.fixed = fixed          # fixed(text) -> True / False / None (free)
        self.leaves = 0
        self.max_leaves = max_leaves

    # -- evaluate a condition node under assignment `asg`; yields (value, asg') for every consistent extension
    def cond_values(self, func, node, asg, depth=0):
        n, pol = atom(node, True)
        if n is None:
            yield True, asg
            return
        if n.k == "BinaryOperator" and n.op in ("&&", "||"):
            for v1, a1 in self.cond_values(func, n.c[0], asg, depth):
                short = (n.op == "&&" and not v1) or (n.op == "||" and v1)
                if short:
                    yield (v1 if pol else not v1), a1
                else:
                    for v2, a2 in self.cond_values(func, n.c[1], a1, depth):
                        yield (v2 if pol else not v2), a2
            return
        if n.v is not None and n.k not in ("DeclRefExpr", "MemberExpr", "ArraySubscriptExpr"):
            yield (bool(n.v) if pol else not bool(n.v)), asg
            return
        if n.k == "CallExpr" and n.name and depth < 3:
            g = func.tu.fn.get(n.name)
            if g is not None and g.body is not None and g is not func and _const_returns(g):
                for rv, a1 in self.func_values(g, asg, depth + 1):
                    yield (bool(rv) if pol else not bool(rv)), a1
                return
        key = unparse(n)
        if key in asg:
            v = asg[key]
            yield (v if pol else not v), asg
            return
        fx = self.fixed(key)
        if fx is not None:
            a1 = dict(asg)
            a1[key] = fx
            yield (fx if pol else not fx), a1
            return
        for v in (True, False):
            a1 = dict(asg)
            a1[key] = v
            yield (v if pol else not v), a1

    def func_values(self, g, asg, depth):
        """(returned constant, assignment) for every way through g."""
        st = [(g.entry, asg, 0)]
        while st:
            b, a, steps = st.pop()
            if steps > 200:
                continue
            blk = g.blocks[b]
            ret = None
            for e in blk.el:
                if e.k == "ReturnStmt" and e.c and e.c[0] is not None and strip_casts(e.c[0]).v is not None:
                    ret = strip_casts(e.c[0]).v
            if ret is not None:
                yield ret, a
                continue
            succs = [s for s in blk.succs]
            if blk.cond is not None and len(succs) == 2:
                for v, a1 in self.cond_values(g, blk.cond, a, depth):
                    idx = [i for i in range(2) if g.edge_kind(b, i) == v]
                    for i in idx:
                        if succs[i] is not None:
                            st.append((succs[i], a1, steps + 1))
            else:
                for s in succs:
                    if s is not None:
                        st.append((s, a, steps + 1))

    def escapes(self, start_block, is_target, region_blocks):
        """assignment under which control leaves region_blocks (or reaches the function exit) from start_block without is_target."""
        f = self.f
        st = [(start_block, {}, 0)]
        while st:
            b, a, steps = st.pop()
            self.leaves += 1
            if self.leaves > self.max_leaves or steps > 300:
                return None
            if b not in region_blocks:
                return a
            blk = f.blocks[b]
            if any(is_target(e) for e in blk.el):
                continue
            succs = blk.succs
            if blk.cond is not None and len(succs) == 2:
                for v, a1 in self.cond_values(f, blk.cond, a):
                    for i in range(2):
                        if f.edge_kind(b, i) == v and succs[i] is not None:
                            st.append((succs[i], a1, steps + 1))
            else:
                for s in succs:
                    if s is not None:
                        st.append((s, a, steps + 1))
        return None


def _const_returns(g):
    rets = [r for r in g.walk() if r.k == "ReturnStmt"]
    return bool(rets) and all(r.c and r.c[0] is not None and strip_casts(r.c[0]).v is not None for r in rets)


def loop_body_region(func, loop):
    """(body entry block, set of blocks of one iteration) of a for/while loop: everything reachable from the body entry
    without passing through the loop's condition block again."""
    head = [b for b in func.blocks.values() if b.term is loop]
    if len(head) != 1:
        return None, None
    h = head[0]
    body = None
    for i, s in enumerate(h.succs):
        if s is not None and func.edge_kind(h.id, i) is True:
            body = s
    if body is None:
        return None, None
    region = func.reachable_blocks(body, avoid=(h.id,))
    return body, region
