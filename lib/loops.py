"""R-LOOP: loop-form classification (coverage) and the exact verdict rules.

Verdicts:
  definite divergence — once entered the loop can never leave: nothing the
      condition reads is written in the body/increment (directly, or possibly
      through a call that receives a pointer to it), and there is no
      break / return / goto / no-return call inside.
Everything else is classification only.
"""
from facts import ASSIGN_OPS, access_path, strip_casts, unparse
from rules_common import where

LOOPS = ("ForStmt", "WhileStmt", "DoStmt")


def loop_parts(n):
    if n.k == "ForStmt":
        return n.c[0], n.c[1], n.c[2], n.c[3]
    if n.k == "WhileStmt":
        return None, n.c[0], None, n.c[1]
    return None, n.c[1], None, n.c[0]


def has_exit(body, loop):
    """break (belonging to this loop) / return / goto / noreturn call inside body."""
    if body is None:
        return False
    st = [(body, 0)]
    while st:
        x, depth = st.pop()
        if x.k in ("ReturnStmt", "GotoStmt"):
            return True
        if x.k == "BreakStmt" and depth == 0:
            return True
        if x.k == "CallExpr" and (x.get("noreturn") or x.name in ("abort", "exit", "_exit", "longjmp")):
            return True
        d2 = depth + 1 if x.k in LOOPS + ("SwitchStmt",) else depth
        for ch in x.kids():
            st.append((ch, d2))
    return False


def is_pure_predicate(db, name, tu):
    try:
        f = db.func(name, tu.base) if name in tu.fn else db.func(name)
    except Exception:
        return False
    if f.body is None:
        return False
    stm = f.body.kids()
    if len(stm) != 1 or stm[0].k != "ReturnStmt":
        return False
    for n in stm[0].walk():
        if n.k == "CallExpr" and not is_pure_predicate(db, n.name, f.tu) and n.name not in ("strcmp", "strlen"):
            return False
        if n.k in ("BinaryOperator", "CompoundAssignOperator") and n.op in ASSIGN_OPS:
            return False
        if n.k == "UnaryOperator" and n.op in ("++", "--"):
            return False
    return True


def cond_roots(db, func, cond):
    """(set of local/param root names the condition depends on, exact?)
    exact=False when it reads globals or calls unknown functions."""
    roots = set()
    exact = True
    for n in cond.walk():
        if n.k == "DeclRefExpr":
            dk = n.get("dk")
            if dk in ("local", "param"):
                roots.add(n.name)
            elif dk in ("global", "static_local"):
                exact = False
        elif n.k == "CallExpr":
            if n.name is None or not (is_pure_predicate(db, n.name, func.tu) or n.name in ("strcmp", "strlen", "isspace")):
                exact = False
    return roots, exact


def may_modify(node, roots):
    """does evaluating the subtree write anything rooted at `roots`?"""
    for n in node.walk():
        if n.k in ("BinaryOperator", "CompoundAssignOperator") and n.op in ASSIGN_OPS:
            r = _root(n.c[0])
            if r is None or r in roots:
                return True
        elif n.k == "UnaryOperator" and n.op in ("++", "--"):
            r = _root(n.c[0])
            if r is None or r in roots:
                return True
        elif n.k == "CallExpr":
            for a in n.args():
                if a is None:
                    continue
                aa = strip_casts(a)
                r = _root(aa)
                if r in roots and ("*" in aa.ty or aa.k == "UnaryOperator" and aa.op == "&" or "[" in aa.ty):
                    return True
        elif n.k == "VarDecl" and n.name in roots:
            return True
        elif n.k == "GCCAsmStmt":
            return True
    return False


def _root(n):
    n = strip_casts(n)
    while n is not None:
        if n.k == "DeclRefExpr":
            return n.name
        if n.k in ("MemberExpr", "ArraySubscriptExpr", "UnaryOperator", "CStyleCastExpr"):
            n = strip_casts(n.c[0])
        elif n.k == "BinaryOperator" and n.op in ("+", "-"):
            n = strip_casts(n.c[0])
        else:
            return None
    return None


def classify(db, func, loop):
    init, cond, inc, body = loop_parts(loop)
    if cond is None or (cond.v is not None and cond.v != 0):
        return "unconditional"
    t = unparse(cond)
    roots, exact = cond_roots(db, func, cond)
    c = strip_casts(cond)
    if c.k == "BinaryOperator" and c.op in ("<", "<=", ">", ">=", "!="):
        iv = _root(c.c[0])
        step = None
        for part in (inc, body):
            if part is None:
                continue
            for n in part.walk():
                if n.k == "UnaryOperator" and n.op in ("++", "--") and _root(n.c[0]) == iv:
                    step = n.op
                if n.k == "CompoundAssignOperator" and _root(n.c[0]) == iv:
                    step = n.op
        if step:
            return "counted(%s)" % step
    if c.k in ("ArraySubscriptExpr", "MemberExpr") or (c.k == "BinaryOperator" and c.op == "!=" and strip_casts(c.c[1]).v == 0):
        return "sentinel-scan"
    if c.k == "UnaryOperator" and c.op == "*":
        return "cursor"
    if c.k == "CallExpr" or (c.k == "BinaryOperator" and c.op in ("&&", "||")):
        return "predicate"
    if c.k == "DeclRefExpr":
        return "flag/cursor"
    return "other"


def classify_and_judge(db, funcs, rep, rule="R-LOOP"):
    forms = {}
    n = 0
    for f in funcs:
        if f.body is None:
            continue
        rep.saw(f)
        k = 0
        for lp in f.walk():
            if lp.k not in LOOPS:
                continue
            k += 1
            n += 1
            init, cond, inc, body = loop_parts(lp)
            form = classify(db, f, lp)
            forms[form] = forms.get(form, 0) + 1
            inst = "loop#%d:%s" % (k, (unparse(cond)[:50] if cond is not None else "<none>"))
            exits = has_exit(body, lp)
            if cond is None or (cond.v is not None and cond.v != 0):
                rep.check(exits, rule, where(f), inst,
                          "unconditional loop has an exit statement",
                          "definite divergence: unconditional loop without break/return/goto", line=lp.line)
                continue
            if cond.v == 0:
                rep.ok(rule, where(f), inst, "constant-false condition (do{}while(0) idiom)")
                continue
            roots, exact = cond_roots(db, f, cond)
            diverges = False
            if exact and roots and not exits:
                mod = False
                for part in (inc, body, cond):
                    if part is not None and may_modify(part, roots):
                        mod = True
                diverges = not mod
            rep.check(not diverges, rule, where(f), inst,
                      "form=%s; condition state can change or loop has an exit" % form,
                      "definite divergence: nothing the condition `%s` reads is written in the body/increment and the loop has no exit" % unparse(cond)[:80],
                      line=lp.line)
    rep.extra.setdefault("loop_forms", {}).update(forms)
    return n
