"""R-LOOP: loop-form classification (coverage) and the exact verdict rules.

Verdicts:
  definite divergence — once entered the loop can never leave: nothing the
      condition reads is written in the body/increment (directly, or possibly
      through a call that receives a pointer to it), and there is no
      break / return / goto / no-return call inside.
Everything else is classification only.
"""
from facts import ASSIGN_OPS, access_path, strip_casts, unparse
from rules_common import where

LOOPS = ("ForStmt", "WhileStmt", "DoStmt")


def loop_parts(n):
    if n.k == "ForStmt":
        return n.c[0], n.c[1], n.c[2], n.c[3]
    if n.k == "WhileStmt":
        return None, n.c[0], None, n.c[1]
    return None, n.c[1], None, n.c[0]


def has_exit(body, loop):
    """break (belonging to this loop) / return / goto / noreturn call inside body."""
    if body is None:
        return False
    st = [(body, 0)]
    while st:
        x, depth = st.pop()
        if x.k in ("ReturnStmt", "GotoStmt"):
            return True
        if x.k == "BreakStmt" and depth == 0:
            return True
        if x.k == "CallExpr" and (x.get("noreturn") or x.name in ("abort", "exit", "_exit", "longjmp")):
            return True
        d2 = depth + 1 if x.k in LOOPS + ("SwitchStmt",) else depth
        for ch in x.kids():
            st.append((ch, d2))
    return False


def is_pure_predicate(db, name, tu):
    try:
        f = db.func(name, tu.base) if name in tu.fn else db.func(name)
    except Exception:
        return False
    if f.body is None:
        return False
    stm = f.body.kids()
    if len(stm) != 1 or stm[0].k != "ReturnStmt":
        return False
    for n in stm[0].walk():
        if n.k == "CallExpr" and not is_pure_predicate(db, n.name, f.tu) and n.name not in ("strcmp", "strlen"):
            return False
        if n.k in ("BinaryOperator", "CompoundAssignOperator") and n.op in ASSIGN_OPS:
            return False
        if n.k == "UnaryOperator" and n.op in ("++", "--"):
            return False
    return True


def cond_roots(db, func, cond):
    """(set of local/param root names the condition depends on, exact?)
    exact=False when it reads globals or calls unknown functions."""
    roots = set()
    exact = True
    for n in cond.walk():
        if n.k == "DeclRefExpr":
            dk = n.get("dk")
            if dk in ("local", "param"):
                roots.add(n.name)
            elif dk in ("global", "static_local"):
                exact = False
        elif n.k == "CallExpr":
            if n.name is None or not (is_pure_predicate(db, n.name, func.tu) or n.name in ("strcmp", "strlen", "isspace")):
                exact = False
    return roots, exact


def may_modify(node, roots):
    """does evaluating the subtree write anything rooted at `roots`?"""
    for n in node.walk():
        if n.k in ("BinaryOperator", "CompoundAssignOperator") and n.op in ASSIGN_OPS:
            r = _root(n.c[0])
            if r is None or r in roots:
                return True
        elif n.k == "UnaryOperator" and n.op in ("++", "--"):
            r = _root(n.c[0])
            if r is None or r in roots:
                return True
        elif n.k == "CallExpr":
            for a in n.args():
                if a is None:
                    continue
                aa = strip_casts(a)
                r = _root(aa)
                if r in roots and ("*" in aa.ty or aa.k == "UnaryOperator" and aa.op == "&" or "[" in aa.ty):
                    return True
        elif n.k == "VarDecl" and n.name in roots:
            return True
        elif n.k == "GCCAsmStmt":
            return True
    return False


def _root(n):
    n = strip_casts(n)
    while n is not None:
        if n.k == "DeclRefExpr":
            return n.name
        if n.k in ("MemberExpr", "ArraySubscriptExpr", "UnaryOperator", "CStyleCastExpr"):
            n = strip_casts(n.c[0])
        elif n.k == "BinaryOperator" and n.op in ("+", "-"):
            n = strip_casts(n.c[0])
        else:
            return None
    return None


def classify(db, func, loop):
    init, cond, inc, body = loop_parts(loop)
    if cond is None or (cond.v is not None and cond.v != 0):
        return "unconditional"
    t = unparse(cond)
    roots, exact = cond_roots(db, func, cond)
    c = strip_casts(cond)
    if c.k == "BinaryOperator" and c.op in ("<", "<=", ">", ">=", "!="):
        iv = _root(c.c[0])
        step = None
        for part in (inc, body):
            if part is None:
                continue
            for n in part.walk():
                if n.k == "UnaryOperator" and n.op in ("++", "--") and _root(n.c[0]) == iv:
                    step = n.op
                if n.k == "CompoundAssignOperator" and _root(n.c[0]) == iv:
                    step = n.op
        if step:
            return "counted(%s)" % step
    if c.k in ("ArraySubscriptExpr", "MemberExpr") or (c.k == "BinaryOperator" and c.op == "!=" and strip_casts(c.c[1]).v == 0):
        return "sentinel-scan"
    if c.k == "UnaryOperator" and c.op == "*":
        return "cursor"
    if c.k == "CallExpr" or (c.k == "BinaryOperator" and c.op in ("&&", "||")):
        return "predicate"
    if c.k == "DeclRefExpr":
        return "flag/cursor"
    return "other"


def classify_and_judge(db, funcs, rep, rule="R-LOOP"):
    forms = {}
    n = 0
    for f in funcs:
        if f.body is None:
            continue
        rep.saw(f)
        k = 0
        for lp in f.walk():
            if lp.k not in LOOPS:
                continue
            k += 1
            n += 1
            init, cond, inc, body = loop_parts(lp)
            form = classify(db, f, lp)
            forms[form] = forms.get(form, 0) + 1
            inst = "loop#%d:%s" % (k, (unparse(cond)[:50] if cond is not None else "<none>"))
            exits = has_exit(body, lp)
            if cond is None or (cond.v is not None and cond.v != 0):
                rep.check(exits, rule, where(f), inst,
                          "unconditional loop has an exit statement",
                          "definite divergence: unconditional loop without break/return/goto", line=lp.line)
                continue
            if cond.v == 0:
                rep.ok(rule, where(f), inst, "constant-false condition (do{}while(0) idiom)")
                continue
            roots, exact = cond_roots(db, f, cond)
            diverges = False
            if exact and roots and not exits:
                mod = False
                for part in (inc, body, cond):
                    if part is not None and may_modify(part, roots):
                        mod = True
                diverges = not mod
            rep.check(not diverges, rule, where(f), inst,
                      "form=%s; condition state can change or loop has an exit" % form,
                      "definite divergence: nothing the condition `%s` reads is written in the body/increment and the loop has no exit" % unparse(cond)[:80],
                      line=lp.line)
    rep.extra.setdefault("loop_forms", {}).update(forms)
    return n


# ---------------------------------------------------------------------------
# skippable equality exit
# ---------------------------------------------------------------------------
def _writes_to(node, name):
    """list of (kind, const) updates of local `name` inside node."""
    out = []
    for n in node.walk():
        if n.k == "UnaryOperator" and n.op in ("++", "--") and _root(n.c[0]) == name and strip_casts(n.c[0]).k == "DeclRefExpr":
            out.append((n.op, 1))
        elif n.k in ("BinaryOperator", "CompoundAssignOperator") and n.op in ASSIGN_OPS:
            l = strip_casts(n.c[0])
            if l is not None and l.k == "DeclRefExpr" and l.name == name:
                out.append((n.op, strip_casts(n.c[1]).v))
    return out


def _initial_value(func, loop, name, init):
    """constant the local holds when the loop is entered (or None)."""
    if init is not None:
        for op, v in _writes_to(init, name):
            if op == "=":
                return v
        for n in init.walk():
            if n.k == "VarDecl" and n.name == name and n.c:
                return strip_casts(n.c[0]).v
    # last assignment / initialiser before the loop in the same compound
    val = None
    for n in func.walk():
        if n is loop:
            break
        if n.k == "VarDecl" and n.name == name and n.c and n.c[0] is not None:
            val = strip_casts(n.c[0]).v
        elif n.k == "BinaryOperator" and n.op == "=":
            l = strip_casts(n.c[0])
            if l is not None and l.k == "DeclRefExpr" and l.name == name:
                val = strip_casts(n.c[1]).v
    return val


def _monotone(updates):
    """all updates strictly increase a positive value"""
    if not updates:
        return None
    kinds = set()
    for op, v in updates:
        if op == "++":
            kinds.add(("+", 1))
        elif op == "+=" and v and v > 0:
            kinds.add(("+", v))
        elif op == "*=" and v and v > 1:
            kinds.add(("*", v))
        elif op == "<<=" and v and v > 0:
            kinds.add(("*", 1 << v))
        else:
            return None
    return kinds.pop() if len(kinds) == 1 else None


def equality_exit(db, func, loop, vs):
    """None if the pattern does not apply; else dict describing the verdict."""
    init, cond, inc, body = loop_parts(loop)
    # 1. header that cannot turn false without overflow
    if cond is not None and not (cond.v is not None and cond.v != 0):
        c = strip_casts(cond)
        if c.k == "BinaryOperator" and c.op == "!=" and strip_casts(c.c[1]).v == 0:
            c = strip_casts(c.c[0])
        if c.k != "DeclRefExpr" or c.get("dk") != "local":
            return None
        hv = c.name
        i0 = _initial_value(func, loop, hv, init)
        ups = []
        for part in (inc, body):
            if part is not None:
                ups += _writes_to(part, hv)
        mono = _monotone(ups)
        if i0 is None or i0 <= 0 or mono is None:
            return None
    # 2. every exit is guarded by an equality with a monotone local
    exits = []
    st = [(body, 0, None)]
    guards = []
    while st:
        x, depth, guard = st.pop()
        if x is None:
            continue
        if x.k in ("ReturnStmt", "GotoStmt") or (x.k == "BreakStmt" and depth == 0) or \
                (x.k == "CallExpr" and (x.get("noreturn") or x.name in ("abort", "exit"))):
            exits.append((x, guard))
            continue
        if x.k == "IfStmt":
            st.append((x.c[0], depth, guard))
            st.append((x.c[1], depth, x.c[0]))
            if len(x.c) > 2 and x.c[2] is not None:
                st.append((x.c[2], depth, ("not", x.c[0])))
            continue
        d2 = depth + 1 if x.k in LOOPS + ("SwitchStmt",) else depth
        for ch in x.kids():
            st.append((ch, d2, guard))
    if not exits:
        return None
    seqs = []
    for ex, guard in exits:
        if guard is None or isinstance(guard, tuple):
            return None
        g = strip_casts(guard)
        if g.k != "BinaryOperator" or g.op != "==":
            return None
        l, r = strip_casts(g.c[0]), strip_casts(g.c[1])
        S, E = (r, l) if (r.k == "DeclRefExpr" and r.get("dk") == "local") else (l, r)
        if S.k != "DeclRefExpr" or S.get("dk") != "local":
            return None
        ups = []
        for part in (inc, body):
            if part is not None:
                ups += _writes_to(part, S.name)
        mono = _monotone(ups)
        s0 = _initial_value(func, loop, S.name, init)
        if mono is None or s0 is None or s0 <= 0:
            return None
        # E loop-invariant: nothing it reads is written, no calls
        roots, exact = cond_roots(db, func, E)
        if any(n.k == "CallExpr" for n in E.walk()):
            return None
        for part in (inc, body):
            if part is not None and roots and may_modify(part, roots):
                return None
        seqs.append((E, S.name, s0, mono))
    # 3. feasible values of E must all be hit by the sequence
    res = {"exits": len(exits), "undecided": [], "missed": []}
    for E, sname, s0, (kind, k) in seqs:
        vals = vs.eval(func, E)
        if vals is None:
            res["undecided"].append(unparse(E))
            continue
        seq = set()
        v = s0
        while v < (1 << 31) and len(seq) < 4096:
            seq.add(v)
            v = v * k if kind == "*" else v + k
        miss = sorted(x for x in vals if x not in seq)
        if miss:
            res["missed"].append((unparse(E), sname, s0, "%s%d" % (kind, k), miss, sorted(vals)))
    return res


def judge_equality_exits(db, funcs, rep, rule="R-LOOP-EQ"):
    from valueset import ValueSets
    vs = ValueSets(db)
    n = 0
    for f in funcs:
        if f.body is None:
            continue
        k = 0
        for lp in f.walk():
            if lp.k not in LOOPS:
                continue
            k += 1
            r = equality_exit(db, f, lp, vs)
            if r is None:
                continue
            n += 1
            inst = "loop#%d:equality-exit" % k
            if r["missed"]:
                E, s, s0, step, miss, vals = r["missed"][0]
                rep.violation(rule, where(f), inst,
                              "skippable equality exit: the loop header cannot become false without overflow and its only exit is `%s == %s` "
                              "with %s = %d, %s...; feasible values %s of `%s` are never met: %s" %
                              (E, s, s, s0, step, vals, E, miss), line=lp.line)
            elif r["undecided"]:
                rep.info("%s: %s %s: equality-exit loop whose operand value set could not be computed (%s) — not judged" %
                         (rule, where(f), inst, r["undecided"]))
            else:
                rep.ok(rule, where(f), inst, "every feasible value of the compared expression is met by the monotone sequence")
    return n


def counted(loop):
    """Shape of a counted `for` loop, independent of spelling: {'var', 'dir': 'asc'|'desc', 'first': (path|None, const),
    'last': (path|None, const)} with an INCLUSIVE value range of the induction variable, or None.
    Accepts i < B, i <= B, B > i, B >= i (and the descending counterparts), i++, ++i, i += 1, i = i + 1."""
    from flow import linear
    if loop.k != "ForStmt":
        return None
    init, cond, inc = loop.c[0], strip_casts(loop.c[1]), strip_casts(loop.c[2])
    var = first = None
    if init is not None:
        for n in init.walk():
            if n.k == "VarDecl" and n.c and n.c[0] is not None:
                var, first = n.name, linear(n.c[0])
            elif n.k == "BinaryOperator" and n.op == "=" and strip_casts(n.c[0]).k == "DeclRefExpr":
                var, first = strip_casts(n.c[0]).name, linear(n.c[1])
    if var is None or first is None or cond is None or inc is None:
        return None
    # direction
    d = None
    if inc.k == "UnaryOperator" and inc.op in ("++", "--") and access_path(inc.c[0]) == var:
        d = "asc" if inc.op == "++" else "desc"
    elif inc.k == "CompoundAssignOperator" and inc.op in ("+=", "-=") and access_path(inc.c[0]) == var and strip_casts(inc.c[1]).v == 1:
        d = "asc" if inc.op == "+=" else "desc"
    elif inc.k == "BinaryOperator" and inc.op == "=" and access_path(inc.c[0]) == var:
        l = linear(inc.c[1])
        if l and l[0] == var and l[1] in (1, -1):
            d = "asc" if l[1] == 1 else "desc"
    if d is None or cond.k != "BinaryOperator" or cond.op not in ("<", "<=", ">", ">="):
        return None
    a, b = strip_casts(cond.c[0]), strip_casts(cond.c[1])
    op = cond.op
    if access_path(b) == var and access_path(a) != var:
        a, b = b, a
        op = {"<": ">", "<=": ">=", ">": "<", ">=": "<="}[op]
    if access_path(a) != var:
        return None
    bound = linear(b)
    if bound is None:
        return None
    if d == "asc" and op in ("<", "<="):
        last = (bound[0], bound[1] - (1 if op == "<" else 0))
    elif d == "desc" and op in (">", ">="):
        last = (bound[0], bound[1] + (1 if op == ">" else 0))
    else:
        return None
    return {"var": var, "dir": d, "first": first, "last": last}


# ---------------------------------------------------------------------------
# rotation search without a counter
# ---------------------------------------------------------------------------
def judge_rotation_searches(db, funcs, rep, rule="R-LOOP-ROTATE"):
    """`while (!fits (x)) x = rotate (x, k);` searches the rotations of x for one that satisfies the exit condition.  A rotation
    permutes the bits: the sequence of values is periodic and never leaves its orbit, so the loop ends only if SOME rotation of
    the start value satisfies the condition - for the others it spins for ever.  Whether that is so depends on the value (a
    program's constant or offset); the loop is bounded for every input only if it also counts its steps, i.e. its condition (or an
    exit in its body) depends on a variable that the body moves monotonically (`shift++`, `shift += 2` with `shift < 16`)."""
    n = 0
    for f in funcs:
        if f.body is None:
            continue
        for lp in f.walk():
            if lp.k not in LOOPS:
                continue
            init, cond, inc, body = loop_parts(lp)
            if cond is None or body is None:
                continue
            rot = set()
            other_writes = set()
            for part in (inc, body):
                if part is None:
                    continue
                for a in part.walk():
                    if a.k == "BinaryOperator" and a.op == "=":
                        l = _root(a.c[0])
                        r = strip_casts(a.c[1])
                        while r is not None and r.k == "ParenExpr":
                            r = strip_casts(r.c[0])
                        if l and r is not None and r.k == "BinaryOperator" and r.op == "|":
                            ops = [strip_casts(x) for x in r.c]
                            ops = [strip_casts(o.c[0]) if o is not None and o.k == "ParenExpr" else o for o in ops]
                            if all(o is not None and o.k == "BinaryOperator" and o.op in ("<<", ">>") and _root(o.c[0]) == l for o in ops) and \
                                    {o.op for o in ops} == {"<<", ">>"}:
                                rot.add(l)
                                continue
                        if l:
                            other_writes.add(l)
                    elif a.k in ("CompoundAssignOperator",) or (a.k == "UnaryOperator" and a.op in ("++", "--")):
                        l = _root(a.c[0])
                        if l:
                            other_writes.add(l)
            rot -= other_writes
            croots = {y.name for y in cond.walk() if y.k == "DeclRefExpr"}
            searched = rot & croots
            if not searched:
                continue
            n += 1
            rep.saw(f)
            counted = bool((croots - searched) & other_writes) or has_exit(body, lp)
            rep.check(counted, rule, where(f), "%s:%s" % (f.name, unparse(cond)[:40]), "a search over the rotations of a value counts its steps",
                      "%s rotates `%s` until `%s` fails and nothing else bounds the loop: a rotation never leaves the orbit of the start value, so for a "
                      "value none of whose rotations satisfies the exit (an immediate that is not encodable) the compile never returns" %
                      (f.name, sorted(searched)[0], unparse(cond)[:60]), line=lp.line)
    return n


# ---------------------------------------------------------------------------
# shift count as induction variable
# ---------------------------------------------------------------------------
def judge_shift_searches(db, funcs, rep, rule="R-LOOP-SHIFT"):
    """`while ((1 << s) < x) s++;` looks for the power of two that reaches x.  For x > 2^30 no int power of two does: at s = 31 the
    shift overflows (undefined; on x86 the count wraps at 32), and the loop never ends.  A loop whose condition shifts by its own
    induction variable is bounded for every x only if the same condition (or an exit in the body) also bounds the variable
    (`s < 31`), or the other side is a constant."""
    n = 0
    for f in funcs:
        if f.body is None:
            continue
        for lp in f.walk():
            if lp.k not in LOOPS:
                continue
            init, cond, inc, body = loop_parts(lp)
            if cond is None:
                continue
            moved = set()
            for part in (inc, body):
                if part is None:
                    continue
                for a in part.walk():
                    if (a.k == "UnaryOperator" and a.op in ("++", "--")) or a.k == "CompoundAssignOperator":
                        r = _root(a.c[0])
                        if r:
                            moved.add(r)
            hits = []
            for x in cond.walk():
                if x.k == "BinaryOperator" and x.op == "<<":
                    cnt = strip_casts(x.c[1])
                    while cnt is not None and cnt.k == "ParenExpr":
                        cnt = strip_casts(cnt.c[0])
                    if cnt is not None and cnt.k == "DeclRefExpr" and cnt.name in moved:
                        hits.append((x, cnt.name))
            for x, iv in hits:
                n += 1
                rep.saw(f)
                # the comparison the shift takes part in: is its other side a constant?
                p = x.parent
                while p is not None and p.k in ("ParenExpr", "ImplicitCastExpr", "CStyleCastExpr"):
                    p = p.parent
                const_other = False
                if p is not None and p.k == "BinaryOperator" and p.op in ("<", "<=", ">", ">=", "!=", "=="):
                    other = [c_ for c_ in p.c if not any(y.id == x.id for y in c_.walk())]
                    const_other = bool(other) and strip_casts(other[0]) is not None and strip_casts(other[0]).v is not None
                bounded = const_other or (body is not None and has_exit(body, lp))
                for y in cond.walk():
                    if y.k == "BinaryOperator" and y.op in ("<", "<=", ">", ">=", "!=") and not any(z.k == "BinaryOperator" and z.op == "<<" for z in y.walk()):
                        l, r = strip_casts(y.c[0]), strip_casts(y.c[1])
                        if (l is not None and l.k == "DeclRefExpr" and l.name == iv and r is not None and r.v is not None) or \
                                (r is not None and r.k == "DeclRefExpr" and r.name == iv and l is not None and l.v is not None):
                            bounded = True
                rep.check(bounded, rule, where(f), "%s:%s" % (f.name, unparse(cond)[:40]), "a loop that shifts by its induction variable bounds that variable",
                          "%s shifts by `%s`, which the loop itself advances, and compares the result with a value it does not control (`%s`): beyond 2^30 no "
                          "int power of two reaches it, the shift count runs past 31 and the loop does not end - a variable size above 2^30 hangs the compile" %
                          (f.name, iv, unparse(cond)[:60]), line=lp.line)
    return n
