"""Values a small pure C function can return for given arguments: constant propagation over its CFG with a concrete
environment, every branch whose condition can be evaluated taken the way the environment dictates, the others both ways.

Used for classification helpers with a finite domain (which register bank does register r belong to, which prefix does an
instruction with these operands get): the helper is evaluated for EVERY member of the domain and compared with the
architecture's answer.  Calls to functions of the same translation unit are evaluated recursively (depth <= 4); anything that
cannot be evaluated yields None, which callers treat as "not decided", never as agreement."""
from facts import access_path, strip_casts
from exprval import key_of


class Unknown(Exception):
    pass


def _ev(tu, f, e, env, fields, depth):
    e0 = e
    e = strip_casts(e)
    if e is None:
        raise Unknown()
    if e.k == "ParenExpr":
        return _ev(tu, f, e.c[0], env, fields, depth)
    if e.v is not None and e.k not in ("MemberExpr", "DeclRefExpr", "ArraySubscriptExpr"):
        return e.v
    if e.k == "DeclRefExpr":
        if e.name in env:
            if env[e.name] is None:
                raise Unknown()
            return env[e.name]
        if e.v is not None:
            return e.v
        raise Unknown()
    if e.k in ("MemberExpr", "ArraySubscriptExpr"):
        p = key_of(e)
        if p is not None and "->" in p:
            root, rest = p.split("->", 1)
            # through a pointer parameter bound to a field map
            if root in env and isinstance(env[root], dict):
                if rest in env[root]:
                    return env[root][rest]
                raise Unknown()
        if p in fields:
            return fields[p]
        if e.v is not None:
            return e.v
        raise Unknown()
    if e.k == "UnaryOperator":
        a = _ev(tu, f, e.c[0], env, fields, depth)
        if e.op == "!":
            return int(not a)
        if e.op == "-":
            return -a
        if e.op == "~":
            return ~a
        if e.op == "+":
            return a
        raise Unknown()
    if e.k == "BinaryOperator":
        if e.op == "&&":
            try:
                a = _ev(tu, f, e.c[0], env, fields, depth)
            except Unknown:
                a = None
            if a == 0:
                return 0
            b = _ev(tu, f, e.c[1], env, fields, depth)
            if b == 0:
                return 0
            if a is None:
                raise Unknown()
            return 1
        if e.op == "||":
            try:
                a = _ev(tu, f, e.c[0], env, fields, depth)
            except Unknown:
                a = None
            if a not in (0, None):
                return 1
            b = _ev(tu, f, e.c[1], env, fields, depth)
            if b != 0:
                return 1
            if a is None:
                raise Unknown()
            return 0
        if e.op == ",":
            return _ev(tu, f, e.c[1], env, fields, depth)
        a, b = _ev(tu, f, e.c[0], env, fields, depth), _ev(tu, f, e.c[1], env, fields, depth)
        try:
            return {"+": lambda: a + b, "-": lambda: a - b, "*": lambda: a * b, "&": lambda: a & b, "|": lambda: a | b, "^": lambda: a ^ b,
                    "<<": lambda: a << b, ">>": lambda: a >> b, "==": lambda: int(a == b), "!=": lambda: int(a != b), "<": lambda: int(a < b),
                    ">": lambda: int(a > b), "<=": lambda: int(a <= b), ">=": lambda: int(a >= b), "/": lambda: int(a / b), "%": lambda: a % b}[e.op]()
        except (KeyError, ZeroDivisionError, TypeError):
            raise Unknown()
    if e.k == "ConditionalOperator":
        return _ev(tu, f, e.c[1] if _ev(tu, f, e.c[0], env, fields, depth) else e.c[2], env, fields, depth)
    if e.k == "CallExpr":
        if e.name == "__builtin_expect":
            return _ev(tu, f, e.args()[0], env, fields, depth)
        g = tu.fn.get(e.name or "")
        if g is None or g.body is None or depth >= 4:
            raise Unknown()
        args = []
        for a in e.args():
            try:
                args.append(_ev(tu, f, a, env, fields, depth))
            except Unknown:
                sa = strip_casts(a)
                # a pointer parameter handed on unchanged
                if sa is not None and sa.k == "DeclRefExpr" and isinstance(env.get(sa.name), dict):
                    args.append(env[sa.name])
                else:
                    args.append(None)
        r = returns(tu, g, args, fields, depth + 1)
        if len(r) == 1 and None not in r:
            return next(iter(r))
        raise Unknown()
    raise Unknown()


def returns(tu, f, args, fields=None, depth=0, on_return=None):
    """set of values f can return when called with `args` (ints, None = unknown, or a dict field-path -> int for a pointer
    to a structure); `fields` maps global access paths to values."""
    fields = fields or {}
    env0 = {}
    for p, a in zip(f.params, args):
        env0[p["name"]] = a
    out = set()
    seen = set()
    stack = [(f.entry, 0, tuple(sorted((k, v if not isinstance(v, dict) else id(v)) for k, v in env0.items())), env0)]
    steps = 0
    while stack:
        b, i, key, env = stack.pop()
        if (b, i, key) in seen:
            continue
        seen.add((b, i, key))
        steps += 1
        if steps > 20000:
            out.add(None)
            break
        blk = f.blocks[b]
        env = dict(env)
        stop = False
        for e in blk.el[i:]:
            if e.k == "ReturnStmt":
                if on_return is not None:
                    on_return(e, dict(env))          # which return statement is reached, and under which environment
                if e.c and e.c[0] is not None:
                    try:
                        out.add(_ev(tu, f, e.c[0], env, fields, depth))
                    except Unknown:
                        out.add(None)
                else:
                    out.add(None)
                stop = True
                break
            if e.k == "DeclStmt":
                for vd in e.walk():
                    if vd.k == "VarDecl" and vd.c and vd.c[0] is not None:
                        try:
                            env[vd.name] = _ev(tu, f, vd.c[0], env, fields, depth)
                        except Unknown:
                            env[vd.name] = None
            elif e.k == "BinaryOperator" and e.op == "=" and strip_casts(e.c[0]) is not None and strip_casts(e.c[0]).k == "DeclRefExpr":
                try:
                    env[strip_casts(e.c[0]).name] = _ev(tu, f, e.c[1], env, fields, depth)
                except Unknown:
                    env[strip_casts(e.c[0]).name] = None
            elif e.k in ("CompoundAssignOperator",) or (e.k == "UnaryOperator" and e.op in ("++", "--")):
                t = strip_casts(e.c[0])
                if t is not None and t.k == "DeclRefExpr":
                    env[t.name] = None
        if stop or blk.noreturn:
            continue
        succ = [(j, s) for j, s in enumerate(blk.succs) if s is not None]
        if not succ:
            continue
        val = None
        if blk.cond is not None and len(succ) >= 2 and all(f.edge_kind(b, j) in (True, False) for j, _ in succ):
            try:
                val = bool(_ev(tu, f, blk.cond, env, fields, depth))
            except Unknown:
                val = None
        elif blk.cond is not None and getattr(blk, "tk", None) == "SwitchStmt":
            try:
                v = _ev(tu, f, blk.cond, env, fields, depth)
                kinds = [(f.edge_kind(b, j), s) for j, s in succ]
                hit = [s for k, s in kinds if k and k[0] == "case" and k[1] is not None and k[1] <= v <= (k[2] if k[2] is not None else k[1])]
                succ = [(0, s) for s in (hit if hit else [s for k, s in kinds if k == ("default",)])]
            except Unknown:
                pass
        key2 = tuple(sorted((k, v if not isinstance(v, dict) else id(v)) for k, v in env.items()))
        for j, s in succ:
            if val is None or f.edge_kind(b, j) not in (True, False) or f.edge_kind(b, j) == val:
                stack.append((s, 0, key2, env))
    return out
