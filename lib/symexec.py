"""Symbolic evaluation of straight-line field assignments (expression
rewriting only — no path search, no solver): used for the chunk split/merge
conservation identities of C09."""
from facts import strip_casts, unparse


class Lin:
    """linear expression: {symbol: coef} + const"""

    def __init__(self, terms=None, const=0):
        self.t = {k: v for k, v in (terms or {}).items() if v != 0}
        self.c = const

    @staticmethod
    def sym(s):
        return Lin({s: 1})

    def __add__(self, o):
        t = dict(self.t)
        for k, v in o.t.items():
            t[k] = t.get(k, 0) + v
        return Lin(t, self.c + o.c)

    def __sub__(self, o):
        t = dict(self.t)
        for k, v in o.t.items():
            t[k] = t.get(k, 0) - v
        return Lin(t, self.c - o.c)

    def __eq__(self, o):
        return isinstance(o, Lin) and self.t == o.t and self.c == o.c

    def __hash__(self):
        return hash((tuple(sorted(self.t.items())), self.c))

    def single(self):
        if self.c == 0 and len(self.t) == 1 and list(self.t.values()) == [1]:
            return list(self.t)[0]
        return None

    def __repr__(self):
        s = " + ".join(("%s" % k if v == 1 else "%d*%s" % (v, k)) for k, v in sorted(self.t.items()))
        if self.c or not s:
            s = (s + " + " if s else "") + str(self.c)
        return s


class Heap:
    def __init__(self, record_fields=None):
        self.record_fields = record_fields or {}   # pointer-typed local/param name -> list of field names (for `*a = *b`)
        self.all_fields = sorted({f for v in self.record_fields.values() for f in v})
        self.vars = {}          # local name -> Lin
        self.fields = {}        # (object symbol, field) -> Lin
        self.log = []           # (kind, detail) events in order
        self.guards = []        # active guard stack (unparsed conditions)

    def load_field(self, obj, field):
        key = (obj, field)
        if key not in self.fields:
            self.fields[key] = Lin.sym("%s.%s@0" % (obj, field))
        return self.fields[key]

    def eval(self, n):
        n = strip_casts(n)
        if n is None:
            return None
        if n.v is not None and n.k != "DeclRefExpr":
            return Lin(const=n.v)
        if n.k == "DeclRefExpr":
            if n.name not in self.vars:
                self.vars[n.name] = Lin.sym(n.name)
            return self.vars[n.name]
        if n.k == "MemberExpr":
            base = self.eval(n.c[0])
            obj = base.single() if base is not None else None
            if obj is None:
                return None
            return self.load_field(obj, n.name)
        if n.k == "BinaryOperator" and n.op in ("+", "-"):
            a, b = self.eval(n.c[0]), self.eval(n.c[1])
            if a is None or b is None:
                return None
            return a + b if n.op == "+" else a - b
        if n.k == "CallExpr" and n.name in ("orc_malloc", "malloc", "calloc"):
            return Lin.sym("NEW%d" % len([1 for k in self.log if k[0] == "alloc"]))
        return None

    @staticmethod
    def _is_deref(n):
        n = strip_casts(n)
        return n is not None and n.k == "UnaryOperator" and n.op == "*"

    def store(self, l, val, where):
        l = strip_casts(l)
        if l.k == "DeclRefExpr":
            self.vars[l.name] = val
            return True
        if l.k == "MemberExpr":
            base = self.eval(l.c[0])
            obj = base.single() if base is not None else None
            if obj is None:
                return False
            self.fields[(obj, l.name)] = val
            self.log.append(("store", (obj, l.name, val, tuple(self.guards), where)))
            return True
        return False

    def run(self, stmts):
        """executes a list of statement nodes; `if (p)` bodies are executed with
        the guard recorded (their stores are conditional facts)."""
        for s in stmts:
            if s is None:
                continue
            k = s.k
            if k == "CompoundStmt":
                self.run(s.kids())
            elif k == "DeclStmt":
                for d in s.kids():
                    if d.k == "VarDecl" and d.c and d.c[0] is not None:
                        v = self.eval(d.c[0])
                        if v is not None:
                            self.vars[d.name] = v
                            if strip_casts(d.c[0]).k == "CallExpr":
                                self.log.append(("alloc", d.name))
            elif k == "BinaryOperator" and s.op == "=" and self._is_deref(s.c[0]) and self._is_deref(s.c[1]):
                # struct copy  *a = *b : every field of the record is copied
                a = self.eval(strip_casts(s.c[0]).c[0])
                b = self.eval(strip_casts(s.c[1]).c[0])
                ao, bo = (a.single() if a is not None else None), (b.single() if b is not None else None)
                if ao is None or bo is None or not self.all_fields:
                    self.log.append(("opaque", unparse(s)))
                else:
                    for f in self.all_fields:
                        self.fields[(ao, f)] = self.load_field(bo, f)
                    self.log.append(("copy", (ao, bo, s.line)))
            elif k in ("BinaryOperator", "CompoundAssignOperator") and s.op in ("=", "+=", "-="):
                v = self.eval(s.c[1])
                if s.op != "=":
                    cur = self.eval(s.c[0])
                    v = None if (cur is None or v is None) else (cur + v if s.op == "+=" else cur - v)
                if strip_casts(s.c[1]) is not None and strip_casts(s.c[1]).k == "CallExpr" and v is not None and v.single() and v.single().startswith("NEW"):
                    self.log.append(("alloc", unparse(s.c[0])))
                if v is None:
                    self.log.append(("opaque", unparse(s)))
                else:
                    self.store(s.c[0], v, s.line)
            elif k == "IfStmt":
                self.guards.append(unparse(s.c[0]))
                # evaluate the guard expression's object so later reads agree
                self.eval(s.c[0])
                saved = dict(self.fields)
                self.run([s.c[1]])
                # conditional stores: keep the unconditional view for fields written only under the guard
                cond_fields = {k: v for k, v in self.fields.items() if saved.get(k) != v}
                self.fields = saved
                for kf, v in cond_fields.items():
                    self.log.append(("cond-final", (kf, v, self.guards[-1])))
                self.guards.pop()
                if len(s.c) > 2 and s.c[2] is not None:
                    self.log.append(("opaque", "else-branch"))
            elif k == "CallExpr":
                self.log.append(("call", (s.name, [self.eval(a) for a in s.args()], s.line)))
            elif k == "ReturnStmt":
                self.log.append(("return", self.eval(s.c[0]) if s.c else None))
            elif k == "NullStmt":
                pass
            else:
                self.log.append(("opaque", k))
