"""Structural summary of the generated emulator functions (orc/orcemulateopcodes.c).

For each emulate_<op>: pointer locals and the operand slot they come from,
every subscript on them with its normalised index form, every use of the
position variables (offset, n, i) outside the canonical positions, element
sizes, constness, stores."""
import re

from facts import ASSIGN_OPS, access_path, strip_casts, unparse

TYPE_SIZE = {"orc_int8": 1, "orc_uint8": 1, "orc_int16": 2, "orc_uint16": 2, "orc_int32": 4, "orc_uint32": 4,
             "orc_int64": 8, "orc_uint64": 8, "orc_union16": 2, "orc_union32": 4, "orc_union64": 8, "float": 4, "double": 8,
             "char": 1, "signed char": 1, "unsigned char": 1, "short": 2, "unsigned short": 2, "int": 4, "unsigned int": 4,
             "long": 8, "unsigned long": 8}


def elem_type(ty):
    t = ty.replace("restrict", "").replace("__restrict", "").replace("const", "").replace("*", "").strip()
    return t


def norm_index(n, locals_def=None):
    """normalised text of an index expression."""
    t = unparse(strip_casts(n))
    t = t.replace(" ", "")
    # a cast of a factor to a 64-bit integer type widens the arithmetic; it does not change which element the form designates
    t = re.sub(r"\((?:orc_int64|orc_uint64|orc_intptr|long|longlong|ptrdiff_t|size_t|intptr_t)\)", "", t)
    while t.startswith("(") and t.endswith(")") and _balanced(t[1:-1]):
        t = t[1:-1]
    return t


def _balanced(s):
    d = 0
    for ch in s:
        if ch == "(":
            d += 1
        elif ch == ")":
            d -= 1
            if d < 0:
                return False
    return d == 0


class EmuFunc:
    def __init__(self, f):
        self.f = f
        self.op = f.name[len("emulate_"):]
        self.ptrs = {}        # local name -> dict(role, k, ty, const, elem, size)
        self.subs = []        # (node, ptrname, index-norm, is_store)
        self.pos_uses = []    # uses of offset / n / i outside canonical positions: (node, varname, context)
        self.reads_shift = False
        self.slot_uses = {"dest": set(), "src": set()}
        self.scalar_reads = []  # (role, k, staging type)
        self.other_stores = []  # stores not through a dest pointer / local
        self.loops = []
        self._analyse()

    def _slot(self, e):
        """(role, k) if expression (through casts) is ex->dest_ptrs[k] / ex->src_ptrs[k]."""
        e = strip_casts(e)
        if e is not None and e.k == "ArraySubscriptExpr":
            b = strip_casts(e.c[0])
            if b is not None and b.k == "MemberExpr" and b.name in ("dest_ptrs", "src_ptrs") and e.c[1].v is not None:
                return ("dest" if b.name == "dest_ptrs" else "src", e.c[1].v)
        return None

    def _analyse(self):
        f = self.f
        decl_ty = {}
        for n in f.walk():
            if n.k == "VarDecl":
                decl_ty[n.name] = n.ty
        # pointer locals
        for n in f.walk():
            if n.k == "BinaryOperator" and n.op == "=":
                l = strip_casts(n.c[0])
                if l is not None and l.k == "DeclRefExpr" and l.name in decl_ty and "*" in decl_ty[l.name]:
                    s = self._slot(n.c[1])
                    if s:
                        ty = decl_ty[l.name]
                        et = elem_type(ty)
                        cast = n.c[1].get("toty") if n.c[1].k == "CStyleCastExpr" else None
                        self.ptrs[l.name] = {"role": s[0], "k": s[1], "ty": ty, "const": ty.strip().startswith("const"),
                                             "elem": et, "size": TYPE_SIZE.get(et), "cast": cast}
                        self.slot_uses[s[0]].add(s[1])
        # direct slot uses (scalar staging / accumulators)
        for n in f.walk():
            s = self._slot(n)
            if s and not (n.parent is not None and n.parent.k == "CStyleCastExpr" and n.parent.parent is not None and
                          n.parent.parent.k == "BinaryOperator" and n.parent.parent.op == "=" and
                          strip_casts(n.parent.parent.c[0]).k == "DeclRefExpr" and strip_casts(n.parent.parent.c[0]).name in self.ptrs):
                self.slot_uses[s[0]].add(s[1])
                p = n.parent
                st = p.get("toty") if p is not None and p.k == "CStyleCastExpr" else None
                self.scalar_reads.append((s[0], s[1], st))
            if n.k == "MemberExpr" and n.name == "shift":
                self.reads_shift = True
        # loops
        for n in f.walk():
            if n.k == "ForStmt":
                self.loops.append((unparse(n.c[0]), unparse(n.c[1]), unparse(n.c[2])))
        # subscripts on pointer locals
        sub_nodes = set()
        for n in f.walk():
            if n.k == "ArraySubscriptExpr":
                b = strip_casts(n.c[0])
                if b is not None and b.k == "DeclRefExpr" and b.name in self.ptrs:
                    par = n.parent
                    is_store = par is not None and par.k in ("BinaryOperator", "CompoundAssignOperator") and par.op in ASSIGN_OPS and strip_casts(par.c[0]) is n
                    self.subs.append((n, b.name, norm_index(n.c[1]), is_store))
                    for x in n.c[1].walk():
                        sub_nodes.add(x.id)
        # position variable uses outside canonical positions
        header_ids = set()
        for n in f.walk():
            if n.k == "ForStmt":
                for part in n.c[:3]:
                    if part is not None:
                        for x in part.walk():
                            header_ids.add(x.id)
        for n in f.walk():
            if n.k == "DeclRefExpr" and n.name in ("offset", "n", "i") and n.get("dk") in ("param", "local"):
                if n.id in header_ids or n.id in sub_nodes:
                    continue
                ctx = n.parent
                self.pos_uses.append((n, n.name, unparse(ctx)[:80] if ctx is not None else ""))
        # stores
        for n in f.walk():
            if n.k in ("BinaryOperator", "CompoundAssignOperator") and n.op in ASSIGN_OPS:
                l = strip_casts(n.c[0])
                root = l
                while root is not None and root.k in ("MemberExpr", "ArraySubscriptExpr"):
                    root = strip_casts(root.c[0])
                slot = None
                for x in l.walk():
                    slot = slot or self._slot(x)
                if slot is not None and not (root is not None and root.k == "DeclRefExpr" and root.name in self.ptrs):
                    # ((T*)ex->dest_ptrs[k])->i = ... : accumulator update through the operand slot itself
                    if slot[0] != "dest":
                        self.other_stores.append((n, "store through source slot " + unparse(l)))
                    continue
                if root is None:
                    self.other_stores.append((n, unparse(l)))
                elif root.k == "DeclRefExpr":
                    if l is root:
                        continue        # assignment to the local itself
                    if root.name in self.ptrs:
                        if self.ptrs[root.name]["role"] != "dest":
                            self.other_stores.append((n, "store through source pointer " + unparse(l)))
                    elif root.get("dk") not in ("local",):
                        self.other_stores.append((n, unparse(l)))
                else:
                    # ((T*)ex->dest_ptrs[0])->i = ...  accumulator update
                    s = None
                    for x in l.walk():
                        s = s or self._slot(x)
                    if not s or s[0] != "dest":
                        self.other_stores.append((n, unparse(l)))
