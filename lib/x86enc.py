"""Register-number coverage of the x86 byte emitters (orc/orcx86insn.c).

An instruction form that places a register number in the low three bits of the
opcode byte (`opcode->code + (reg & 7)`: push, pop, mov imm32) can only name
r8..r15 if a REX prefix carrying bit 3 of the same register is emitted first.
The text emitter prints the full register name, so a missing REX makes listing
and bytes disagree and (for push/pop) saves the wrong register."""
from facts import AnalysisBroken, strip_casts, unparse


def switch_arms(sw):
    """[(set of case values, [statement nodes])] of a switch whose body is a flat compound."""
    arms = []
    labels, stmts = set(), []
    for st in sw.c[1].kids():
        x = st
        chain = []
        is_default = False
        while x is not None and x.k in ("CaseStmt", "DefaultStmt"):
            if x.k == "CaseStmt":
                lo, hi = x.get("lo"), x.get("hi", x.get("lo"))
                chain.extend(range(lo, hi + 1))
            else:
                is_default = True
            x = x.c[0] if x.c else None
        if chain or is_default:
            if stmts:                      # a new label after statements without break: fall-through, keep labels
                pass
            labels |= set(chain)
            if is_default:
                labels.add("default")
        if x is not None:
            if x.k == "BreakStmt":
                arms.append((labels, stmts))
                labels, stmts = set(), []
            else:
                stmts.append(x)
                if x.k == "ReturnStmt":
                    arms.append((labels, stmts))
                    labels, stmts = set(), []
    if labels or stmts:
        arms.append((labels, stmts))
    return arms


def type_switches(f):
    return [sw for sw in f.walk() if sw.k == "SwitchStmt" and "opcode->type" in unparse(sw.c[0])]


def opcode_plus_reg_sites(f):
    """(node, register expression text, set of instruction types) for every `code + (R & 7)`."""
    out = []
    for sw in type_switches(f):
        for labels, stmts in switch_arms(sw):
            for st in stmts:
                for n in st.walk():
                    if n.k == "BinaryOperator" and n.op == "+" and "opcode->code" in unparse(n.c[0]):
                        r = strip_casts(n.c[1])
                        if r is not None and r.k == "BinaryOperator" and r.op == "&" and strip_casts(r.c[1]).v == 7:
                            out.append((n, unparse(strip_casts(r.c[0])), {l for l in labels if l != "default"}))
    return out


def rex_registers(f, t):
    """register expressions passed to orc_x86_emit_rex / output_opcode in the arm of type t of f's type switches."""
    regs = set()
    found = False
    for sw in type_switches(f):
        for labels, stmts in switch_arms(sw):
            if t not in labels:
                continue
            found = True
            for st in stmts:
                for c in st.walk():
                    if c.k == "CallExpr" and c.name in ("orc_x86_emit_rex", "output_opcode"):
                        for a in c.args():
                            regs.add(unparse(strip_casts(a)))
    return regs if found else None


def check_rex_coverage(db, rep, rule, tnames=None, only=None):
    tu = db.tu("orcx86insn")
    if tnames is None:
        te = [e for e in tu.enumdecls if any(i[0] == "ORC_X86_INSN_TYPE_MMXM_MMX" for i in e["items"])]
        if not te:
            raise AnalysisBroken("OrcX86InsnType enum not found")
        tnames = {v: k[len("ORC_X86_INSN_TYPE_"):] for k, v in te[0]["items"]}
    oo = tu.fn.get("orc_x86_insn_output_opcode")
    om = tu.fn.get("orc_x86_insn_output_modrm")
    if oo is None or om is None:
        raise AnalysisBroken("orc_x86_insn_output_opcode / _modrm not found")
    n = 0
    for f in (oo, om):
        for node, reg, types in opcode_plus_reg_sites(f):
            for t in sorted(types):
                if only is not None and tnames.get(t) not in only:
                    continue
                n += 1
                rr = rex_registers(oo, t)
                ok = rr is not None and reg in rr
                rep.check(ok, rule, "orc/orcx86insn.c::%s" % f.name, "%s:%s" % (tnames.get(t, t), reg),
                          "register %s of %s instructions is encoded in the opcode byte and its bit 3 goes into a REX prefix" % (reg, tnames.get(t, t)),
                          "%s instructions put (%s & 7) into the opcode byte but orc_x86_insn_output_opcode emits no REX prefix carrying %s: "
                          "r8..r15 are encoded as rax..rdi (e.g. `push %%r12` becomes the byte 0x54 = `push %%rsp`), while the listing prints the full name" %
                          (tnames.get(t, t), reg, reg), line=node.line)
    if n < (2 if only is None else 1):
        raise AnalysisBroken("only %d opcode+register encodings found in the x86 byte emitters" % n)
    return n


def check_disp8(db, rep, rule):
    """A displacement emitted as ONE byte (`offset & 0xff` with no higher byte following in the same branch) is read back by the
    CPU as a signed 8-bit value, while the listing prints the full integer: the branch must be guarded by -128 <= offset <= 127."""
    from flow import Facts, upper_bound, lower_bound
    from facts import access_path
    tu = db.tu("orcx86")
    n = 0
    for f in tu.main_functions():
        if "modrm" not in f.name:
            continue
        fc = None
        for st in f.walk():
            if not (st.k == "BinaryOperator" and st.op == "="):
                continue
            r = strip_casts(st.c[1])
            if not (r is not None and r.k == "BinaryOperator" and r.op == "&" and strip_casts(r.c[1]).v == 255):
                continue
            src = strip_casts(r.c[0])
            if src is None or src.k != "DeclRefExpr":
                continue                    # (offset >> 8) & 0xff etc.: part of a 32-bit displacement
            var = src.name
            pos = f.pos(st)
            if pos is None:
                continue
            blk = f.blocks[pos[0]]
            wide = any(x.k == "BinaryOperator" and x.op == ">>" and access_path(x.c[0]) == var for e in blk.el for x in e.walk())
            if wide:
                continue
            fc = fc or Facts(f)
            conds = fc.conds(st)
            ub, lb = upper_bound(conds, var), lower_bound(conds, var)
            n += 1
            rep.check(ub is not None and ub <= 127 and lb is not None and lb >= -128, rule, "orc/orcx86.c::%s" % f.name, "disp8(%s)" % var,
                      "one-byte displacement emitted only for %s in [%s, %s]" % (var, lb, ub),
                      "%s emits `%s` as a single displacement byte on a path where it is only known to lie in [%s, %s]; the CPU sign-extends the byte, so "
                      "e.g. +128 addresses -128 while the listing prints the full value" % (f.name, var, lb, ub), line=st.line)
    if n < 4:
        raise AnalysisBroken("only %d one-byte displacement sites found in orc/orcx86.c" % n)
    return n
