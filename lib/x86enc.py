"""Register-number coverage of the x86 byte emitters (orc/orcx86insn.c).

An instruction form that places a register number in the low three bits of the
opcode byte (`opcode->code + (reg & 7)`: push, pop, mov imm32) can only name
r8..r15 if a REX prefix carrying bit 3 of the same register is emitted first.
The text emitter prints the full register name, so a missing REX makes listing
and bytes disagree and (for push/pop) saves the wrong register."""
from facts import AnalysisBroken, access_path, strip_casts, unparse


def switch_arms(sw):
    """[(set of case values, [statement nodes])] of a switch whose body is a flat compound."""
    arms = []
    labels, stmts = set(), []
    for st in sw.c[1].kids():
        x = st
        chain = []
        is_default = False
        while x is not None and x.k in ("CaseStmt", "DefaultStmt"):
            if x.k == "CaseStmt":
                lo, hi = x.get("lo"), x.get("hi", x.get("lo"))
                chain.extend(range(lo, hi + 1))
            else:
                is_default = True
            x = x.c[0] if x.c else None
        if chain or is_default:
            if stmts:                      # a new label after statements without break: fall-through, keep labels
                pass
            labels |= set(chain)
            if is_default:
                labels.add("default")
        if x is not None:
            if x.k == "BreakStmt":
                arms.append((labels, stmts))
                labels, stmts = set(), []
            else:
                stmts.append(x)
                if x.k == "ReturnStmt":
                    arms.append((labels, stmts))
                    labels, stmts = set(), []
    if labels or stmts:
        arms.append((labels, stmts))
    return arms


def type_switches(f):
    return [sw for sw in f.walk() if sw.k == "SwitchStmt" and "opcode->type" in unparse(sw.c[0])]


def opcode_plus_reg_sites(f):
    """(node, register expression text, set of instruction types) for every `code + (R & 7)`."""
    out = []
    for sw in type_switches(f):
        for labels, stmts in switch_arms(sw):
            for st in stmts:
                for n in st.walk():
                    if n.k == "BinaryOperator" and n.op == "+" and "opcode->code" in unparse(n.c[0]):
                        r = strip_casts(n.c[1])
                        if r is not None and r.k == "BinaryOperator" and r.op == "&" and strip_casts(r.c[1]).v == 7:
                            out.append((n, unparse(strip_casts(r.c[0])), {l for l in labels if l != "default"}))
    return out


def rex_registers(f, t):
    """register expressions passed to orc_x86_emit_rex / output_opcode in the arm of type t of f's type switches."""
    regs = set()
    found = False
    for sw in type_switches(f):
        for labels, stmts in switch_arms(sw):
            if t not in labels:
                continue
            found = True
            for st in stmts:
                for c in st.walk():
                    if c.k == "CallExpr" and c.name in ("orc_x86_emit_rex", "output_opcode"):
                        for a in c.args():
                            regs.add(unparse(strip_casts(a)))
    return regs if found else None


def check_rex_coverage(db, rep, rule, tnames=None, only=None):
    tu = db.tu("orcx86insn")
    if tnames is None:
        te = [e for e in tu.enumdecls if any(i[0] == "ORC_X86_INSN_TYPE_MMXM_MMX" for i in e["items"])]
        if not te:
            raise AnalysisBroken("OrcX86InsnType enum not found")
        tnames = {v: k[len("ORC_X86_INSN_TYPE_"):] for k, v in te[0]["items"]}
    oo = tu.fn.get("orc_x86_insn_output_opcode")
    om = tu.fn.get("orc_x86_insn_output_modrm")
    if oo is None or om is None:
        raise AnalysisBroken("orc_x86_insn_output_opcode / _modrm not found")
    n = 0
    for f in (oo, om):
        for node, reg, types in opcode_plus_reg_sites(f):
            for t in sorted(types):
                if only is not None and tnames.get(t) not in only:
                    continue
                n += 1
                rr = rex_registers(oo, t)
                ok = rr is not None and reg in rr
                rep.check(ok, rule, "orc/orcx86insn.c::%s" % f.name, "%s:%s" % (tnames.get(t, t), reg),
                          "register %s of %s instructions is encoded in the opcode byte and its bit 3 goes into a REX prefix" % (reg, tnames.get(t, t)),
                          "%s instructions put (%s & 7) into the opcode byte but orc_x86_insn_output_opcode emits no REX prefix carrying %s: "
                          "r8..r15 are encoded as rax..rdi (e.g. `push %%r12` becomes the byte 0x54 = `push %%rsp`), while the listing prints the full name" %
                          (tnames.get(t, t), reg, reg), line=node.line)
    if n < (2 if only is None else 1):
        raise AnalysisBroken("only %d opcode+register encodings found in the x86 byte emitters" % n)
    return n


def check_disp8(db, rep, rule):
    """A displacement emitted as ONE byte (`offset & 0xff` with no higher byte following in the same branch) is read back by the
    CPU as a signed 8-bit value, while the listing prints the full integer: the branch must be guarded by -128 <= offset <= 127."""
    from flow import Facts, upper_bound, lower_bound
    from facts import access_path
    tu = db.tu("orcx86")
    n = 0
    for f in tu.main_functions():
        if "modrm" not in f.name:
            continue
        fc = None
        for st in f.walk():
            if not (st.k == "BinaryOperator" and st.op == "="):
                continue
            r = strip_casts(st.c[1])
            if not (r is not None and r.k == "BinaryOperator" and r.op == "&" and strip_casts(r.c[1]).v == 255):
                continue
            src = strip_casts(r.c[0])
            if src is None or src.k != "DeclRefExpr":
                continue                    # (offset >> 8) & 0xff etc.: part of a 32-bit displacement
            var = src.name
            pos = f.pos(st)
            if pos is None:
                continue
            blk = f.blocks[pos[0]]
            wide = any(x.k == "BinaryOperator" and x.op == ">>" and access_path(x.c[0]) == var for e in blk.el for x in e.walk())
            if wide:
                continue
            fc = fc or Facts(f)
            conds = fc.conds(st)
            ub, lb = upper_bound(conds, var), lower_bound(conds, var)
            n += 1
            rep.check(ub is not None and ub <= 127 and lb is not None and lb >= -128, rule, "orc/orcx86.c::%s" % f.name, "disp8(%s)" % var,
                      "one-byte displacement emitted only for %s in [%s, %s]" % (var, lb, ub),
                      "%s emits `%s` as a single displacement byte on a path where it is only known to lie in [%s, %s]; the CPU sign-extends the byte, so "
                      "e.g. +128 addresses -128 while the listing prints the full value" % (f.name, var, lb, ub), line=st.line)
    if n < 4:
        raise AnalysisBroken("only %d one-byte displacement sites found in orc/orcx86.c" % n)
    return n


# ModRM helper -> (index of the r/m (or SIB base) argument, index of the reg-field argument)
MODRM_ROLES = {"orc_x86_emit_modrm_reg": (1, 2), "orc_x86_emit_modrm_memoffset": (2, 3), "orc_x86_emit_modrm_memindex2": (2, 5)}


def check_rex_roles(db, rep, rule, tnames=None):
    """For every instruction type: the operand the ModRM emitter puts in the r/m (base) field is the one the opcode emitter hands
    to REX.B, and the operand in the reg field is the one handed to REX.R.  (output_opcode (p, opc, size, src, dest, ..) emits
    orc_x86_emit_rex (p, size, dest, 0, src): `src` -> REX.B, `dest` -> REX.R.)"""
    tu = db.tu("orcx86insn")
    if tnames is None:
        te = [e for e in tu.enumdecls if any(i[0] == "ORC_X86_INSN_TYPE_MMXM_MMX" for i in e["items"])]
        tnames = {v: k[len("ORC_X86_INSN_TYPE_"):] for k, v in te[0]["items"]}
    oo, om = tu.fn.get("orc_x86_insn_output_opcode"), tu.fn.get("orc_x86_insn_output_modrm")
    helper = tu.fn.get("output_opcode")
    if oo is None or om is None or helper is None:
        raise AnalysisBroken("x86 byte emitters not found")
    # confirm the REX wiring of output_opcode itself
    pn = [p["name"] for p in helper.params]
    rex = [c for c in helper.calls("orc_x86_emit_rex")]
    if len(rex) != 1:
        raise AnalysisBroken("output_opcode: expected exactly one orc_x86_emit_rex call")
    ra = [unparse(strip_casts(a)) for a in rex[0].args()]
    # rex (p, size, reg1 -> REX.R, reg2 -> REX.X, reg3 -> REX.B)
    if ra[2] not in pn or ra[4] not in pn:
        raise AnalysisBroken("output_opcode: REX operands are not its parameters (%s)" % ra)
    R_idx, B_idx = pn.index(ra[2]), pn.index(ra[4])
    opc = {}
    for sw in type_switches(oo):
        for labels, stmts in switch_arms(sw):
            calls = [c for st in stmts for c in st.walk() if c.k == "CallExpr" and c.name == "output_opcode"]
            for t in labels:
                if t != "default" and calls:
                    opc[t] = calls
    refused = set()
    for sw in type_switches(oo):
        for labels, stmts in switch_arms(sw):
            if any(x.mac and "ORC_COMPILER_ERROR" in x.mac for st in stmts for x in st.walk()):
                refused |= {l for l in labels if l != "default"}
    n = 0
    for sw in type_switches(om):
        for labels, stmts in switch_arms(sw):
            mcalls = [c for st in stmts for c in st.walk() if c.k == "CallExpr" and c.name in MODRM_ROLES]
            if not mcalls:
                continue
            for t in sorted(l for l in labels if l != "default"):
                oc = opc.get(t)
                if not oc and t in refused:
                    continue                # the legacy emitter raises a compile error for this (VEX-only) type: its ModRM arm is never reached
                if not oc:
                    rep.violation(rule, "orc/orcx86insn.c::orc_x86_insn_output_opcode", "%s:no-rex" % tnames.get(t, t),
                                  "%s instructions have a ModRM byte but the opcode emitter never calls output_opcode for them: no REX prefix can be produced" % tnames.get(t, t))
                    n += 1
                    continue
                for m in mcalls:
                    rm_i, reg_i = MODRM_ROLES[m.name]
                    rm = unparse(strip_casts(m.args()[rm_i]))
                    rg = unparse(strip_casts(m.args()[reg_i]))
                    for o in oc:
                        B = unparse(strip_casts(o.args()[B_idx]))
                        R = unparse(strip_casts(o.args()[R_idx]))
                        ok_b = rm == B
                        ok_r = rg == R or "code2" in rg          # /digit opcode extension: not a register
                        n += 1
                        if not (ok_b and ok_r):
                            # the mismatch only matters if a register >= 8 can reach that operand
                            hi = high_register_sites(db, t, [x for x, good in ((rm, ok_b), (rg, ok_r)) if not good])
                            if not hi:
                                rep.ok(rule, "orc/orcx86insn.c::orc_x86_insn_output_modrm", "%s:%s" % (tnames.get(t, t), m.name.replace("orc_x86_emit_modrm_", "")),
                                       "REX roles differ (r/m %s vs REX.B %s) but every emission site of a %s row passes a fixed register below 8: latent, no program is affected" % (rm, B, tnames.get(t, t)))
                                continue
                            rep.violation(rule, "orc/orcx86insn.c::orc_x86_insn_output_modrm", "%s:%s" % (tnames.get(t, t), m.name.replace("orc_x86_emit_modrm_", "")),
                                          "%s instructions: ModRM puts %s in r/m and %s in reg, but the REX prefix is built from %s (REX.B) and %s (REX.R), and an allocated "
                                          "register (possibly r8..r15) reaches that operand at %s" % (tnames.get(t, t), rm, rg, B, R, "; ".join(hi[:3])), line=m.line)
                            continue
                        rep.check(ok_b and ok_r, rule, "orc/orcx86insn.c::orc_x86_insn_output_modrm", "%s:%s" % (tnames.get(t, t), m.name.replace("orc_x86_emit_modrm_", "")),
                                  "r/m operand %s -> REX.B, reg operand %s -> REX.R" % (rm, rg),
                                  "%s instructions: ModRM puts %s in r/m and %s in reg, but the REX prefix is built from %s (REX.B) and %s (REX.R): "
                                  "for r8..r15 / xmm8..15 the encoded register differs from the one the listing names" % (tnames.get(t, t), rm, rg, B, R), line=m.line)
    if n < 20:
        raise AnalysisBroken("only %d ModRM/REX role pairs found" % n)
    return n


FIXED_LOW = ("exec_reg", "gp_tmpreg")       # set once in orc_x86_compiler_init to registers below 8 (checked in high_register_sites)


def _low_only(db, f, e, depth=0):
    """True if expression e (a register argument inside function f) can only be a register number below 8."""
    from facts import access_path
    e = strip_casts(e)
    if e is None:
        return False
    if e.v is not None:
        return e.v < 40 or e.v == -1            # X86_EAX is 32; r8 is 40; mmx/sse registers are handled by their own types
    if e.k == "MemberExpr" and e.name in FIXED_LOW:
        return True
    if e.k == "DeclRefExpr" and e.get("dk") == "param" and depth < 3:
        idx = [p["name"] for p in f.params].index(e.name)
        callers = db.callers().get(f.name, [])
        if not callers:
            return False
        return all(_low_only(db, g, c.args()[idx], depth + 1) for g, c in callers if len(c.args()) > idx)
    return False


def high_register_sites(db, t, operand_exprs):
    """emission sites of rows of instruction type t at which the xinsn field(s) named in operand_exprs may hold r8..r15."""
    from facts import init_rows, access_path
    tu = db.tu("orcx86insn")
    rows = init_rows(tu.global_("orc_x86_opcodes"))
    idxs = {i for i, r in enumerate(rows) if isinstance(r, dict) and r.get("type") == t}
    if not idxs:
        return []
    # fixed registers really are low
    ci = db.func("orc_x86_compiler_init", "orcprogram-x86")
    for n in ci.walk():
        if n.k == "BinaryOperator" and n.op == "=" and strip_casts(n.c[0]).k == "MemberExpr" and strip_casts(n.c[0]).name in FIXED_LOW:
            v = strip_casts(n.c[1]).v
            if v is None or v >= 40:
                return ["%s may be a high register (orc_x86_compiler_init)" % strip_casts(n.c[0]).name]
    out = []
    fields = {x.replace("xinsn->", "") for x in operand_exprs}
    for g in tu.main_functions():
        if not g.name.startswith("orc_x86_emit_cpuinsn_"):
            continue
        pn = [p["name"] for p in g.params]
        # which parameter is stored into the field
        pidx = []
        for n in g.walk():
            if n.k == "BinaryOperator" and n.op == "=":
                l = unparse(strip_casts(n.c[0])).replace("xinsn->", "")
                r = strip_casts(n.c[1])
                if l in fields and r is not None and r.k == "DeclRefExpr" and r.name in pn:
                    pidx.append(pn.index(r.name))
        if not pidx or "index" not in pn:
            continue
        oi = pn.index("index")
        for f2, c in db.callers().get(g.name, []):
            a = c.args()
            if len(a) <= oi or a[oi].v not in idxs:
                # the opcode may itself be a parameter of a wrapper: not followed (wrappers are macros in this tree)
                continue
            for k in pidx:
                if not _low_only(db, f2, a[k]):
                    out.append("%s:%s (%s)" % (f2.relfile, c.line, unparse(a[k])[:40]))
    return out


def _or_fields(e):
    """decode `(((a)&3)<<6) | (((b)&7)<<0|3) | ((c)&7)` into {(shift, mask): operand node}."""
    out = {}
    st = [strip_casts(e)]
    while st:
        x = strip_casts(st.pop())
        if x is None:
            continue
        if x.k == "BinaryOperator" and x.op == "|":
            st.extend([x.c[0], x.c[1]])
            continue
        sh = 0
        if x.k == "BinaryOperator" and x.op == "<<" and strip_casts(x.c[1]).v is not None:
            sh = strip_casts(x.c[1]).v
            x = strip_casts(x.c[0])
        if x is not None and x.k == "BinaryOperator" and x.op == "&" and strip_casts(x.c[1]).v in (3, 7):
            out[(sh, strip_casts(x.c[1]).v)] = strip_casts(x.c[0])
        else:
            return None
    return out


def check_mod0_base(db, rep, rule):
    """With ModRM.mod == 0 a base field of 5 (rbp / r13) does not mean "[base]": in ModRM.rm it selects disp32 (RIP-relative in
    64-bit mode) and in SIB.base it means "no base, disp32 follows".  Every emission of a mod-0 form whose base comes from a
    register parameter must therefore be guarded by base != rbp and base != r13 (the listing prints the plain register)."""
    from flow import Facts, cmp_parts
    tu = db.tu("orcx86")
    EBP, R13 = db.enum("X86_EBP"), db.enum("X86_R13")
    n = 0
    for f in tu.main_functions():
        if "modrm" not in f.name:
            continue
        fc = None
        stores = [s for s in f.walk() if s.k == "BinaryOperator" and s.op == "=" and "codeptr" in unparse(s.c[0])]
        # SIB bytes have the same bit layout as ModRM bytes.  A byte is taken to be a SIB byte if it comes from the X86_SIB
        # macro, or (should the macros disappear) if its middle field is the constant 4 ("no index") with a variable low field.
        sib_ids = set()
        for s in stores:
            fl = _or_fields(s.c[1])
            if not fl:
                continue
            if "X86_SIB" in (s.c[1].mac or []) or ("X86_MODRM" not in (s.c[1].mac or []) and (3, 7) in fl and fl[(3, 7)].v == 4 and (0, 7) in fl and fl[(0, 7)].v is None):
                sib_ids.add(s.id)
        for i, s in enumerate(stores):
            fl = _or_fields(s.c[1])
            if s.id in sib_ids or not fl or (6, 3) not in fl or (0, 7) not in fl or (3, 7) not in fl:
                continue
            mod, rm = fl[(6, 3)], fl[(0, 7)]
            if mod.v != 0:
                continue
            base = rm
            kind = "ModRM.rm"
            if rm.v == 4:
                # SIB byte follows in the same block
                pos = f.pos(s)
                nxt = [t for t in stores if f.pos(t) and f.pos(t)[0] == pos[0] and f.pos(t)[1] > pos[1]]
                sib = _or_fields(nxt[0].c[1]) if nxt else None
                if not sib or (0, 7) not in sib:
                    raise AnalysisBroken("%s: SIB byte after ModRM(0, 4, ..) not recognised" % f.name)
                base, kind = sib[(0, 7)], "SIB.base"
            if base.v is not None:
                continue            # constant base field (e.g. 4 = rsp through SIB): nothing to guard
            if base.k != "DeclRefExpr":
                raise AnalysisBroken("%s: base operand `%s` is not a plain variable" % (f.name, unparse(base)))
            fc = fc or Facts(f)
            excl = set()
            for c in fc.conds(s):
                if c[0] == "switch":
                    continue
                cp = cmp_parts(c[0])
                if cp and cp[0] is not None and cp[0].k == "DeclRefExpr" and cp[0].name == base.name and cp[2] is not None and cp[2].v is not None:
                    if (cp[1] == "!=" and c[1] is True) or (cp[1] == "==" and c[1] is False):
                        excl.add(cp[2].v)
            n += 1
            rep.check({EBP, R13} <= excl, rule, "orc/orcx86.c::%s" % f.name, "mod0:%s=%s" % (kind, base.name),
                      "mod=0 form emitted only when %s is neither rbp nor r13" % base.name,
                      "%s emits ModRM.mod=0 with %s = %s without excluding rbp/r13: for those registers the CPU reads `disp32 without base` "
                      "(the following code bytes become the displacement) while the listing prints 0(%%rbp,...)" % (f.name, kind, base.name), line=s.line)
    if n < 4:
        raise AnalysisBroken("only %d mod=0 ModRM emissions with a register base found" % n)
    return n


def check_save_restore(db, funcs, rep, rule):
    """Inside an emitter, a fixed machine register that is parked (pushed, or stored into an executor slot) and later brought
    back must come back from the same place into the same register: pops mirror pushes (LIFO), and a slot is reloaded into
    the register that was stored there.  Anything else hands the generated code two swapped registers (e.g. rax/rdx, which
    hold array pointers)."""
    n = 0
    for f in funcs:
        calls = sorted([c for c in f.calls() if c.name in ("orc_x86_emit_push", "orc_x86_emit_pop", "orc_x86_emit_mov_reg_memoffset", "orc_x86_emit_mov_memoffset_reg")],
                       key=lambda c: (c.line, c.id))
        if not any(c.name in ("orc_x86_emit_push", "orc_x86_emit_pop") for c in calls) and \
                not any(c.name == "orc_x86_emit_mov_reg_memoffset" and strip_casts(c.args()[2]).v is not None and "exec_reg" in unparse(c.args()[4]) for c in calls):
            continue
        stack, slots, bad = [], {}, []
        judged = 0
        for c in calls:
            a = c.args()
            if c.name == "orc_x86_emit_push":
                stack.append(unparse(strip_casts(a[2])))
            elif c.name == "orc_x86_emit_pop":
                r = unparse(strip_casts(a[2]))
                judged += 1
                if not stack:
                    bad.append("pop %s without a matching push (line %d)" % (r, c.line))
                else:
                    top = stack.pop()
                    if top != r:
                        bad.append("pop %s where the top of the stack holds %s (line %d)" % (r, top, c.line))
            elif c.name == "orc_x86_emit_mov_reg_memoffset" and strip_casts(a[2]).v is not None and "exec_reg" in unparse(a[4]):
                slots[unparse(strip_casts(a[3]))] = unparse(strip_casts(a[2]))
            elif c.name == "orc_x86_emit_mov_memoffset_reg" and strip_casts(a[4]).v is not None and "exec_reg" in unparse(a[3]):
                off, r = unparse(strip_casts(a[2])), unparse(strip_casts(a[4]))
                if off in slots:
                    judged += 1
                    if slots[off] != r:
                        bad.append("slot %s holds %s but is reloaded into %s (line %d)" % (off, slots[off], r, c.line))
        if stack:
            bad.append("registers %s pushed and never popped" % stack)
        if judged or bad:
            n += 1
            rep.check(not bad, rule, "%s::%s" % (f.relfile, f.name), "save-restore",
                      "every parked register comes back from where it was put (%d restores)" % judged,
                      "%s: %s -- the generated code continues with swapped or lost register contents" % (f.name, "; ".join(bad)), line=calls[0].line if calls else None)
    return n


def _cfmt(fmt, args):
    """C-style formatting of %d / %x / %s / %% with 32-bit int semantics for the integer conversions."""
    out, k = [], 0
    i = 0
    while i < len(fmt):
        ch = fmt[i]
        if ch != "%":
            out.append(ch)
            i += 1
            continue
        j = i + 1
        while j < len(fmt) and fmt[j] in "-0123456789.#l":
            j += 1
        conv = fmt[j] if j < len(fmt) else ""
        spec = fmt[i:j + 1]
        if conv == "%":
            out.append("%")
        elif conv in "di":
            v = args[k]; k += 1
            v = ((v + 2 ** 31) % 2 ** 32) - 2 ** 31
            out.append(("%" + spec[1:-1].replace("l", "") + "d") % v)
        elif conv in "xXu":
            v = args[k] & 0xffffffff; k += 1
            out.append(("%" + spec[1:-1].replace("l", "") + conv) % v)
        elif conv == "s":
            out.append(str(args[k])); k += 1
        else:
            raise AnalysisBroken("unsupported conversion %r in %r" % (spec, fmt))
        i = j + 1
    return "".join(out)


def check_listing_displacements(db, rep, rule, workdir):
    """The memory-operand formats of orc_x86_insn_output_asm are instantiated with negative and large displacements and handed
    to the assembler inside a `movl <operand>, %eax`: each must assemble, to the same bytes as the canonical spelling
    `<disp>(%base[,%index,scale])`.  (The byte emitter encodes xinsn->offset as a signed value; the listing must say the same.)"""
    import re
    from x86ref import assemble
    f = db.func("orc_x86_insn_output_asm", "orcx86insn")
    fmts = {}
    for c in f.calls("sprintf"):
        a = c.args()
        lit = strip_casts(a[1])
        if lit is None or lit.k != "StringLiteral":
            continue
        s = lit.get("str", "")
        if "(" in s and "%s" in s.replace("%%", "") and re.search(r"%[-0-9l]*[dxXu]", s):
            nargs = len(a) - 2
            fmts.setdefault((s, nargs), c)
    if len(fmts) < 2:
        raise AnalysisBroken("orc_x86_insn_output_asm: memory-operand formats not found")
    lines, meta = [], []
    for (s, nargs), c in sorted(fmts.items()):
        convs = re.findall(r"%[-0-9l#]*([a-zA-Z%])", s)
        convs = [x for x in convs if x != "%"]
        for disp in (-1, -129, 300):
            args, regs = [], ["rdx", "rcx"]
            sc = 4
            for cv in convs:
                if cv in "dixXu":
                    # first integer is the displacement; a later one (in index forms) is the scale
                    args.append(disp if not any(isinstance(x, int) for x in args) else sc)
                else:
                    args.append(regs.pop(0) if regs else "rax")
            text = _cfmt(s, args).strip().rstrip(",").strip()
            strs = [x for x in args if isinstance(x, str)]
            ref = "%d(%%%s)" % (disp, strs[0]) if len(strs) == 1 else "%d(%%%s,%%%s,%d)" % (disp, strs[0], strs[1], sc)
            lines += ["movl %s, %%eax" % text, "movl %s, %%eax" % ref]
            meta.append((s, disp, text, ref, c))
    out, rejected = assemble(lines, workdir, True, "disp")
    n = 0
    for k, (s, disp, text, ref, c) in enumerate(meta):
        got, want = out[2 * k], out[2 * k + 1]
        n += 1
        rep.check(got is not None and got == want, rule, "orc/orcx86insn.c::orc_x86_insn_output_asm", "%r@%d" % (s.strip(), disp),
                  "`%s` assembles to the displacement %d" % (text, disp),
                  "the listing spells a memory operand with displacement %d as `%s`: %s (the machine code encodes the signed value)" %
                  (disp, text, ("the assembler rejects it: " + rejected.get(2 * k, "?")) if got is None else "it assembles to a different operand than `%s`" % ref), line=c.line)
    return n


def check_imm8(db, rep, rule):
    """A table row whose immediate is ONE sign-extended byte (ORC_X86_*_imm8_*) may be selected for a run-time immediate
    only where that immediate is known to lie in [-128, 127]; the listing prints the full value, the encoder the low byte."""
    from flow import Facts, upper_bound, lower_bound, split_facts
    from facts import access_path
    tu = db.tu("orcx86insn")
    idx_enum = [e for e in tu.enumdecls if any(i[0] == "ORC_X86_punpcklbw" for i in e["items"])]
    if not idx_enum:
        raise AnalysisBroken("OrcX86OpcodeIdx not found")
    imm8 = {v for k, v in idx_enum[0]["items"] if "_imm8_" in k and not any(s in k for s in ("mmx", "sse", "avx"))}
    protos = {}
    for g in tu.main_functions():
        pn = [p["name"] for p in g.params]
        if "imm" in pn and "index" in pn:
            protos[g.name] = (pn.index("index"), pn.index("imm"))
    n = 0
    for f in db.all_functions():
        if not f.relfile.startswith("orc/"):
            continue
        fc = None
        for c in f.calls():
            if c.name not in protos:
                continue
            ii, mi = protos[c.name]
            a = c.args()
            if len(a) <= max(ii, mi):
                continue
            row, imm = strip_casts(a[ii]), strip_casts(a[mi])
            if imm is None or imm.v is not None:
                continue                      # constant immediates are decided by their value
            var = access_path(imm)
            if var is None:
                continue
            conds = None
            if row.k == "ConditionalOperator":
                t, e = strip_casts(row.c[1]), strip_casts(row.c[2])
                if t.v in imm8:
                    conds = split_facts(row.c[0], True)
                elif e.v in imm8:
                    conds = split_facts(row.c[0], False)
                else:
                    continue
            elif row.v in imm8:
                fc = fc or Facts(f)
                conds = [x for x in fc.conds(c) if x[0] != "switch"]
            else:
                continue
            n += 1
            ub, lb = upper_bound(conds, var), lower_bound(conds, var)
            rep.check(ub is not None and ub <= 127 and lb is not None and lb >= -128, rule, "%s::%s" % (f.relfile, f.name), "imm8(%s)@%s" % (var, c.name.replace("orc_x86_emit_cpuinsn_", "")),
                      "the imm8 form is chosen only for %s in [%s, %s]" % (var, lb, ub),
                      "%s selects a one-byte-immediate row for `%s`, which is only known to lie in [%s, %s] there: the encoder keeps the low byte "
                      "(e.g. -65536 becomes 0) while the listing prints the full value" % (f.name, var, lb, ub), line=c.line)
    if n < 3:
        raise AnalysisBroken("only %d selections of an imm8 row with a run-time immediate found" % n)
    return n


# Intel SDM vol. 2A table 2-? (VEX.pp): the SIMD prefix a legacy encoding would carry <-> the 2-bit pp field
VEX_PP_OF_LEGACY_PREFIX = {None: 0, 0x66: 1, 0xF3: 2, 0xF2: 3}


def _prefix_switches(f):
    return [sw for sw in f.walk() if sw.k == "SwitchStmt" and (access_path(strip_casts(sw.c[0])) or "").endswith("opcode->prefix")]


def check_vex_pp(db, rep, rule):
    """The opcode table gives every instruction a prefix class.  The legacy encoder turns the class into the mandatory prefix
    byte (66 / F3 / F2 / none); a VEX encoder must put the architecturally corresponding value into VEX.pp.  VEX.pp shares
    its byte with VEX.vvvv, so the pp switch of an encoder is the `switch (...->opcode->prefix)` that ORs constants into the
    variable that also receives get_vex_vvvv().  Decided per class value for every such switch."""
    tu = db.tu("orcx86insn")

    def arms_of(sw):
        out = []
        for labels, stmts in switch_arms(sw):
            labs = {l for l in labels if l != "default"}
            pushed, ored = [], {}
            for st in stmts:
                for n in st.walk():
                    if n.k == "BinaryOperator" and n.op == "=" and "codeptr" in unparse(n.c[0]) and strip_casts(n.c[1]) is not None and strip_casts(n.c[1]).v in (0x66, 0xF2, 0xF3):
                        pushed.append(strip_casts(n.c[1]).v)
                    if n.k == "CompoundAssignOperator" and n.op == "|=" and strip_casts(n.c[1]).v is not None and strip_casts(n.c[0]).k == "DeclRefExpr":
                        ored[strip_casts(n.c[0]).name] = ored.get(strip_casts(n.c[0]).name, 0) | strip_casts(n.c[1]).v
            out.append((labs, pushed, ored))
        return out
    leg = None
    for f in tu.main_functions():
        for sw in _prefix_switches(f):
            arms = arms_of(sw)
            if any(0xF2 in pu or 0xF3 in pu for _, pu, _ in arms):
                m = {}
                for labs, pu, _ in arms:
                    for l in labs:
                        m[l] = pu[0] if pu else None
                if leg is not None and leg != m:
                    raise AnalysisBroken("two legacy prefix switches disagree: %s / %s" % (leg, m))
                leg = m
    if leg is None or {v for v in leg.values()} != {None, 0x66, 0xF2, 0xF3}:
        raise AnalysisBroken("legacy prefix switch not recognised: %s" % leg)
    n = 0
    for f in tu.main_functions():
        vv = {strip_casts(x.c[0]).name for x in f.walk() if x.k == "CompoundAssignOperator" and x.op == "|=" and strip_casts(x.c[0]).k == "DeclRefExpr"
              and any(c.k == "CallExpr" and c.name == "get_vex_vvvv" for c in x.c[1].walk())}
        if not vv:
            continue
        for sw in _prefix_switches(f):
            arms = arms_of(sw)
            target = {v for _, _, o in arms for v in o} & vv
            if not target:
                continue
            var = sorted(target)[0]
            rep.saw(f)
            for labs, _, ored in arms:
                for l in sorted(labs):
                    if l not in leg:
                        continue
                    n += 1
                    got, want = ored.get(var, 0) & 3, VEX_PP_OF_LEGACY_PREFIX[leg[l]]
                    rep.check(got == want, rule, "orc/orcx86insn.c::%s" % f.name, "pp:class=%#x" % l,
                              "prefix class %#x (legacy prefix %s) -> VEX.pp %d" % (l, "%#x" % leg[l] if leg[l] else "none", got),
                              "%s puts VEX.pp = %d for opcodes of prefix class %#x, whose legacy encoding carries %s (architectural VEX.pp = %d): "
                              "whenever this form of the prefix is chosen the emitted instruction is a different one from the mnemonic in the listing" %
                              (f.name, got, l, "the %#x prefix" % leg[l] if leg[l] else "no SIMD prefix", want), line=sw.line)
    return n


def check_vex2_selection(db, rep, rule):
    """The two-byte VEX prefix has no X and B bits (and this encoder leaves R clear in it), so it may be chosen only when no
    register that the three-byte form would extend through VEX.R/X/B has bit 3 set.  Which operands those are depends on the
    instruction type: they are the non-zero arguments of orc_vex_get_rex() in the matching arm of output_3byte_vex_opcode.
    Decided by finite evaluation: for every VEX-encodable instruction type, operand form and combination of high/low
    registers, the selector's path condition to output_2byte_vex_opcode is evaluated (exprval) and compared with the arm."""
    from exprval import NotPure, evaluate, reachable_under
    tu = db.tu("orcx86insn")
    f3, sel, cg = tu.fn["output_3byte_vex_opcode"], tu.fn["output_vex_opcode"], tu.fn["orc_vex_insn_codegen"]
    for g in (f3, sel, cg):
        rep.saw(g)
    # VEX-encodable instruction types
    enc = set()
    for sw in type_switches(cg):
        for labels, stmts in switch_arms(sw):
            if any(c.k == "CallExpr" and c.name == "output_vex_opcode" for st in stmts for c in st.walk()):
                enc |= {l for l in labels if l != "default"}
    if len(enc) < 10:
        raise AnalysisBroken("only %d VEX-encodable instruction types found" % len(enc))
    xtypes = [db.enum(n) for n in ("ORC_X86_RM_REG", "ORC_X86_RM_MEMOFFSET", "ORC_X86_RM_MEMINDEX")]
    tnames = {v: k for k, v in tu.enums.items() if k.startswith("ORC_X86_INSN_TYPE_")}
    # arms of the three-byte form: (outer conditions, T labels, inner xinsn->type labels or None, get_rex call)
    arms = []
    for sw in type_switches(f3):
        outer = []
        p = sw.parent
        child = sw
        while p is not None:
            if p.k == "IfStmt" and p.c[0] is not None:
                if len(p.c) > 1 and _contains(p.c[1], child):
                    outer.append((p.c[0], True))
                elif len(p.c) > 2 and p.c[2] is not None and _contains(p.c[2], child):
                    outer.append((p.c[0], False))
            child, p = p, p.parent
        for labels, stmts in switch_arms(sw):
            labs = {l for l in labels if l != "default"} & enc
            if not labs:
                continue
            inner = [x for st in stmts for x in st.walk() if x.k == "SwitchStmt" and (access_path(strip_casts(x.c[0])) or "").endswith("xinsn->type")]
            if inner:
                for ilabels, istmts in switch_arms(inner[0]):
                    calls = [c for st in istmts for c in st.walk() if c.k == "CallExpr" and c.name == "orc_vex_get_rex"]
                    for c in calls:
                        arms.append((outer, labs, {l for l in ilabels if l != "default"}, c))
            else:
                for c in [c for st in stmts for c in st.walk() if c.k == "CallExpr" and c.name == "orc_vex_get_rex"]:
                    arms.append((outer, labs, None, c))
    if len(arms) < 8:
        raise AnalysisBroken("only %d orc_vex_get_rex arms found in output_3byte_vex_opcode" % len(arms))
    calls2 = [c for c in sel.calls("output_2byte_vex_opcode")]
    if not calls2:
        raise AnalysisBroken("output_vex_opcode no longer calls output_2byte_vex_opcode")
    LO, HI = 64, 72                      # a register number with bit 3 clear / set
    n = 0
    for outer, labs, xl, call in arms:
        for T in sorted(labs):
            bad = None
            cases = 0
            for X in (sorted(xl) if xl else xtypes):
                for v0 in (LO, HI):
                    for v1 in (0, LO, HI):
                        for vd in (LO, HI):
                            env = {"xinsn->src[0]": v0, "xinsn->src[1]": v1, "xinsn->dest": vd, "xinsn->type": X, "xinsn->opcode->type": T,
                                   "xinsn->opcode->flags": 0, "p->is_64bit": 1}
                            def holds(c, pol, env=env):
                                try:
                                    return bool(evaluate(c, env)) == pol
                                except NotPure:
                                    return True            # mentions something else (an assertion on the opcode): no constraint here
                            if not all(holds(c, pol) for c, pol in outer):
                                continue
                            try:
                                need = [unparse(a) for a in call.args()[1:] if evaluate(a, env) & 8]
                            except NotPure as ex:
                                raise AnalysisBroken("VEX form selection: cannot evaluate an orc_vex_get_rex argument (%s)" % ex)
                            two = reachable_under(sel, env, lambda e: e.k == "CallExpr" and e.name == "output_2byte_vex_opcode")
                            cases += 1
                            if two and need and bad is None:
                                bad = (X, v0, v1, vd, need)
            if not cases:
                continue
            n += 1
            rep.check(bad is None, rule, "orc/orcx86insn.c::output_vex_opcode", "two-byte:%s%s" % (tnames.get(T, T).replace("ORC_X86_INSN_TYPE_", ""), "/2src" if any(not pol and "src[1]" in unparse(c) for c, pol in outer) or any("src[1] != 0" in unparse(c) and pol for c, pol in outer) else ""),
                      "%d operand combinations: the two-byte VEX form is never selected when a register extended through VEX.R/X/B has bit 3 set" % cases,
                      "for instruction type %s the selector takes the two-byte VEX form although %s is a register 8..15 that the three-byte form encodes through "
                      "VEX.R/X/B (operand form %s, src[0]=%s src[1]=%s dest=%s): the two-byte prefix cannot express it, the machine code names the low register "
                      "while the listing names the high one" % ((tnames.get(T, T), " and ".join(bad[4]), bad[0], bad[1], bad[2], bad[3]) if bad else ("",) * 6),
                      line=calls2[0].line)
    return n


def _contains(root, node):
    x = node
    while x is not None:
        if x is root:
            return True
        x = x.parent
    return False


def check_listing_bytes_paired(db, rep, rule):
    """The output pass prints the listing line and writes the machine-code bytes of each instruction in the same loop iteration.
    On every path from the listing call to the end of the iteration a byte emitter must be passed (directly, or through a
    helper that reaches one on all of ITS paths); otherwise an instruction appears in the listing but not in the code, and
    every later branch target and instruction index differs between the two.  Paths that report a compile error are exempt."""
    from collections import deque
    tu = db.tu("orcx86insn")
    f = tu.fn["orc_x86_output_insns"]
    rep.saw(f)
    E = {"orc_x86_insn_output_opcode", "orc_vex_insn_codegen"}

    def is_error(e):
        return (e.k == "CallExpr" and e.name == "orc_compiler_error") or \
            (e.k == "BinaryOperator" and e.op == "=" and (access_path(e.c[0]) or "").endswith("->error") and strip_casts(e.c[1]).v)

    def avoids(g, start=None):
        """block path from `start` element (or entry) to the exit of g passing neither a byte emitter nor an error report"""
        if start is None:
            b0, i0 = g.entry, 0
        else:
            p = g.pos(start)
            if p is None:
                return None
            b0, i0 = p[0], p[1] + 1
        seen = set()
        dq = deque([(b0, i0, (b0,))])
        while dq:
            b, i, path = dq.popleft()
            if (b, i > 0) in seen:
                continue
            seen.add((b, i > 0))
            blk = g.blocks[b]
            if any((e.k == "CallExpr" and e.name in E) or is_error(e) for e in blk.el[i:]):
                continue
            if b == g.exit:
                return list(path)
            if blk.noreturn:
                continue
            for s in blk.succs:
                if s is not None:
                    dq.append((s, 0, path + (s,)))
        return None
    changed = True
    while changed:
        changed = False
        for g in tu.main_functions():
            if g.name in E or g is f or g.body is None:
                continue
            if any(c.name in E for c in g.calls()) and avoids(g) is None:
                E.add(g.name)
                changed = True
    asm = [c for c in f.calls("orc_x86_insn_output_asm")]
    if len(asm) != 1:
        raise AnalysisBroken("orc_x86_output_insns: expected one call of orc_x86_insn_output_asm, found %d" % len(asm))
    from flow import describe_path
    w = avoids(f, asm[0])
    helpers = sorted(c.name for c in f.calls() if c.name in tu.fn and c.name not in E and c.name != "orc_x86_insn_output_asm" and
                     any(cc.name in E or cc.name in ("orc_x86_insn_output_opcode",) for cc in tu.fn[c.name].calls()))
    rep.check(w is None, rule, "orc/orcx86insn.c::orc_x86_output_insns", "asm-then-bytes",
              "after the listing line of an instruction every path of the iteration reaches a byte emitter (%s)" % ", ".join(sorted(E)),
              "orc_x86_output_insns prints the listing line of an instruction and can then finish the iteration without emitting its bytes (%s%s): the "
              "listing contains an instruction the machine code lacks, and all later instruction indexes and branch targets differ" %
              (describe_path(f, w) if w else "", "; helper(s) %s can return without reaching orc_x86_insn_output_opcode" % helpers if helpers else ""), line=asm[0].line)
    return 1


def check_rel8_predicates(db, rep, rule):
    """Whether a branch displacement fits the one-byte form is decided by predicates over the int displacement (`diff !=
    (orc_int8) diff`, `diff < -128 || diff > 127`, ...).  Each such predicate must be EXACTLY "diff in [-128, 127]" or its
    complement: one value off and a jump of that length is kept short and wraps round (a forward jump of 128 becomes -128), or a
    short jump is needlessly refused.  Decided by finite evaluation of every if-condition over a single int local that is true
    on (nearly) that interval or its complement."""
    from exprval import NotPure, evaluate, variables
    n = 0
    for tub in ("orcx86", "orcx86insn"):
        for f in db.tu(tub).main_functions():
            for st in f.walk():
                if st.k != "IfStmt" or st.c[0] is None:
                    continue
                cond = st.c[0]
                vs = variables(cond)
                if len(vs) != 1:
                    continue
                v = next(iter(vs))
                if "->" in v or "." in v or "[" in v:
                    continue
                try:
                    tv = [bool(evaluate(cond, {v: x})) for x in range(-400, 401)]
                except (NotPure, ValueError, ZeroDivisionError):
                    continue
                exact = [(-128 <= x <= 127) for x in range(-400, 401)]
                d1 = sum(1 for a_, b_ in zip(tv, exact) if a_ != b_)
                d2 = sum(1 for a_, b_ in zip(tv, exact) if a_ == b_)
                if min(d1, d2) > 4:
                    continue                        # some other predicate
                n += 1
                rep.saw(f)
                off = [x for x, a_, b_ in zip(range(-400, 401), tv, exact) if (a_ != b_) == (d1 <= d2)]
                rep.check(min(d1, d2) == 0, rule, "%s::%s" % (f.relfile, f.name), "rel8:%s@%s" % (v, st.line),
                          "`%s` is exactly the test for a displacement that fits one signed byte" % unparse(cond)[:60],
                          "`%s` in %s is meant to decide whether %s fits a one-byte branch displacement but gives the wrong answer for %s: a jump of that "
                          "length is encoded short and the byte wraps round (the branch goes 256 bytes elsewhere), or is refused although it fits" %
                          (unparse(cond)[:70], f.name, v, off[:4]), line=st.line)
    return n


def check_bank_prefix(db, rep, rule):
    """The mandatory prefix of an x86 SIMD instruction is chosen from the register bank of its operands (get_common_reg_type):
    an %xmm operand means the 0x66 / SSE form, a %ymm operand the VEX.256 form, only %mm and general registers the plain (MMX)
    form.  The helper is evaluated (lib/funceval.py) for EVERY register of the banks, taken from the register enumerations,
    in either operand position, and compared with the architecture's answer.  A range test that misses one register of a
    bank (`reg < X86_XMM15`) makes the encoder emit the MMX form of an instruction whose listing names an %xmm register: the
    listing and the bytes are different programs, and SSE code executes an MMX instruction (x87 tag word left non-empty)."""
    import re
    from facts import AnalysisBroken
    from funceval import returns
    tu = db.tu("orcx86insn")
    f = tu.fn.get("get_common_reg_type")
    if f is None:
        raise AnalysisBroken("get_common_reg_type not found in orcx86insn.c")
    rep.saw(f)
    NOP, SSE, V256 = db.enum("ORC_X86_NO_PREFIX"), db.enum("ORC_X86_SSE_PREFIX"), db.enum("ORC_X86_AVX_VEX256_PREFIX")
    banks = {"xmm": {}, "ymm": {}, "mm": {}}
    for t in db.tus.values():
        for k, v in t.enums.items():
            m = re.match(r"^X86_(XMM|YMM|MM)(\d+)$", k)
            if m:
                banks[m.group(1).lower()][int(m.group(2))] = v
    if len(banks["xmm"]) != 16 or len(banks["ymm"]) != 16 or len(banks["mm"]) != 8:
        raise AnalysisBroken("register enumerations: %s" % {k: len(v) for k, v in banks.items()})
    gp = db.enum("X86_EAX")
    want = {"xmm": SSE, "ymm": V256, "mm": NOP}
    pname = f.params[0]["name"]
    n = 0
    for bank, regs in sorted(banks.items()):
        bad = []
        for num, r in sorted(regs.items()):
            for pos, st in (("first operand", {"prefix": NOP, "src[0]": r, "src[1]": 0, "dest": gp}), ("second operand", {"prefix": NOP, "src[0]": gp, "src[1]": 0, "dest": r}),
                            ("both operands", {"prefix": NOP, "src[0]": r, "src[1]": 0, "dest": r})):
                got = returns(tu, f, [st])
                n += 1
                if got != {want[bank]}:
                    bad.append("%%%s%d as %s -> %s" % (bank, num, pos, sorted("?" if g is None else str(g) for g in got)))
        rep.check(not bad, rule, "orc/orcx86insn.c::get_common_reg_type", "bank:%s" % bank,
                  "every %%%s register, in either operand position, selects prefix %d" % (bank, want[bank]),
                  "get_common_reg_type does not classify the whole %%%s bank alike (%s; expected %d): for that register the encoder emits another form of the "
                  "instruction than the listing names (an SSE instruction on %%xmm15 without its 0x66 prefix is the MMX instruction on %%mm7)" %
                  (bank, "; ".join(bad[:3]), want[bank]), line=f.line)
    return n


def check_names_stateless(db, rep, rule):
    """The listing is built from strings that small helpers hand out for registers, conditions and sizes.  Such a helper must
    return storage that never changes - a string literal or an entry of a constant table.  One that formats the name into a
    function-static (or global) buffer and returns that buffer hands every caller the SAME storage: the text a caller prints
    is whatever the most recent call - from any thread, or for the other operand of the same instruction - left there, while
    the encoder works from the register numbers.  Listing and machine code then name different registers."""
    from facts import AnalysisBroken, root_var, strip_casts
    WR = ("snprintf", "sprintf", "vsnprintf", "vsprintf", "strcpy", "strncpy", "strcat", "strncat", "memcpy", "memmove", "memset")
    n = 0
    for f in db.all_functions():
        if not f.relfile.startswith("orc/") or f.body is None or "char *" not in (f.ret or ""):
            continue
        if not any(t in f.relfile for t in ("x86", "sse", "avx", "mmx")):
            continue
        rets = [r for r in f.walk() if r.k == "ReturnStmt" and r.c and r.c[0] is not None]
        if not rets:
            continue
        n += 1
        rep.saw(f)
        bad = None
        for r in rets:
            e = strip_casts(r.c[0])
            rv = root_var(e) if e is not None and e.k != "CallExpr" else None
            if rv is None or rv.get("dk") not in ("static_local", "global"):
                continue
            if e.k == "ArraySubscriptExpr" or "*" in (rv.ty or "").split("[")[0]:
                continue                    # an entry of a table of strings
            written = False
            for g in ([f] if rv.get("dk") == "static_local" else [x for x in db.all_functions() if x.tu is f.tu]):
                for x in g.walk():
                    if x.k == "CallExpr" and x.name and x.name.replace("__builtin___", "").replace("_chk", "") in WR and x.args():
                        a0 = root_var(x.args()[0])
                        if a0 is not None and a0.name == rv.name and a0.get("dk") == rv.get("dk"):
                            written = True
                    if x.k in ("BinaryOperator", "CompoundAssignOperator") and x.op.endswith("=") and x.op not in ("==", "!=", "<=", ">="):
                        l0 = root_var(x.c[0])
                        if l0 is not None and l0.name == rv.name and l0.get("dk") == rv.get("dk"):
                            written = True
            if written:
                bad = (r, rv.name)
        rep.check(bad is None, rule, "%s::%s" % (f.relfile, f.name), f.name,
                  "%s returns literals / constant table entries only" % f.name,
                  "%s returns the %s buffer `%s`, which it (re)writes on every call: all callers share one piece of storage, so the name printed in the listing "
                  "is the one formatted by the latest call - of another thread compiling at the same time, or for the other operand - while the machine code "
                  "is encoded from the register numbers" % (f.name, "function-static" if bad and True else "", bad[1] if bad else ""), line=bad[0].line if bad else None)
    if n < 8:
        raise AnalysisBroken("only %d name helpers (functions returning char * in the x86 units) found" % n)
    return n


def check_gp_name_width(db, rep, rule):
    """The width of a general-register operand in the LISTING must follow the operand size the ENCODER uses.

    For the instruction types whose arm in orc_x86_insn_output_opcode hands xinsn->size to output_opcode / orc_x86_emit_rex
    (REX.W for size 8), every general register that orc_x86_insn_output_asm prints as a data operand (not as the base of a
    memory operand) has to be named by a size-aware function.  An arm that always prints the 32-bit name
    (orc_x86_get_regname) is a mismatch as soon as some emit site can produce an instruction of that type, in that operand
    form, with size 8: the listing then reads `add %ecx, 24(%rdi)` where the bytes are `add %rcx, 24(%rdi)`.  Emit sites and
    their size arguments are resolved through the emit functions' own assignments (xinsn->type / xinsn->size), conditional
    expressions and up to three levels of forwarding parameters."""
    from facts import AnalysisBroken, access_path, init_rows
    from flow import Facts
    tu = db.tu("orcx86insn")
    enc, lst = tu.fn.get("orc_x86_insn_output_opcode"), tu.fn.get("orc_x86_insn_output_asm")
    if enc is None or lst is None:
        raise AnalysisBroken("orc_x86_insn_output_opcode / orc_x86_insn_output_asm not found")
    rep.saw(enc)
    rep.saw(lst)
    tnames = {v: k[len("ORC_X86_INSN_TYPE_"):] for k, v in tu.enums.items() if k.startswith("ORC_X86_INSN_TYPE_")}
    RM_REG = db.enum("ORC_X86_RM_REG")
    # A. types whose encoding depends on xinsn->size
    sized = set()
    for sw in type_switches(enc):
        for labels, stmts in switch_arms(sw):
            for st in stmts:
                for c in st.walk():
                    if c.k == "CallExpr" and c.name in ("output_opcode", "orc_x86_emit_rex"):
                        a = c.args()
                        i = 2 if c.name == "output_opcode" else 1
                        if len(a) > i and (access_path(strip_casts(a[i])) or "").endswith("->size"):
                            sized |= {l for l in labels if l != "default"}
    if len(sized) < 5:
        raise AnalysisBroken("only %d size-dependent instruction types found in the encoder" % len(sized))
    # B. arms of the listing that print a fixed 32-bit name
    fixed = []
    fcl = Facts(lst)
    for sw in type_switches(lst):
        for labels, stmts in switch_arms(sw):
            for st in stmts:
                for c in st.walk():
                    if c.k == "CallExpr" and c.name == "orc_x86_get_regname" and c.args():
                        opnd = unparse(strip_casts(c.args()[0]))
                        conds = [(unparse(x[0]), x[1]) for x in fcl.conds(c) if x[0] != "switch"]
                        under_reg = any(("xinsn->type" in t and "ORC_X86_RM_REG" in t and pol) or (t.replace(" ", "") in ("(xinsn->type==%d)" % RM_REG,) and pol) for t, pol in conds)
                        # evaluate instead of matching text: is the call reachable with xinsn->type != RM_REG ?
                        from exprval import reachable_under
                        only_reg = not any(reachable_under(lst, {"xinsn->type": v, "xinsn->opcode->type": next(iter(l for l in labels if l != "default"), 0)},
                                                           lambda e, c=c: e.id == c.id) for v in (db.enum("ORC_X86_RM_MEMOFFSET"), db.enum("ORC_X86_RM_MEMINDEX")))
                        # labels of this arm under which the fixed 32-bit name is still printed when xinsn->size is 8
                        forms = (RM_REG,) if only_reg else (RM_REG, db.enum("ORC_X86_RM_MEMOFFSET"), db.enum("ORC_X86_RM_MEMINDEX"))
                        at8 = {l for l in labels if l != "default" and any(reachable_under(
                            lst, {"xinsn->type": v, "xinsn->opcode->type": l, "xinsn->size": 8}, lambda e, c=c: e.id == c.id) for v in forms)}
                        fixed.append((at8, opnd, only_reg, c))
    # C. emit functions: which parameter is the size, which RM form do they build
    rows = init_rows(tu.global_("orc_x86_opcodes"))
    emit = {}
    for g in tu.main_functions():
        pn = [p_["name"] for p_ in g.params]
        size_i = idx_i = rm = None
        for x in g.walk():
            if x.k == "BinaryOperator" and x.op == "=":
                lp = access_path(x.c[0]) or ""
                r = strip_casts(x.c[1])
                if lp.endswith("->size") and r is not None and r.k == "DeclRefExpr" and r.name in pn:
                    size_i = pn.index(r.name)
                if lp.endswith("->type") and r is not None and r.v is not None:
                    rm = r.v
                if lp.endswith("->opcode_index") and r is not None and r.k == "DeclRefExpr" and r.name in pn:
                    idx_i = pn.index(r.name)
        if size_i is not None and idx_i is not None and rm is not None:
            emit[g.name] = (idx_i, size_i, rm, None)
    # thin wrappers: f (p, index, ..) { g (p, index, <const size>, ...); }
    for g in tu.main_functions():
        if g.name in emit or g.body is None:
            continue
        cs = [c for c in g.calls() if c.name in emit]
        if len(cs) == 1 and len([x for x in g.body.kids() if x is not None]) == 1:
            ii, si, rm, _ = emit[cs[0].name]
            a = cs[0].args()
            pn = [p_["name"] for p_ in g.params]
            ia = strip_casts(a[ii])
            sa = strip_casts(a[si])
            if ia is not None and ia.k == "DeclRefExpr" and ia.name in pn and sa is not None and sa.v is not None:
                emit[g.name] = (pn.index(ia.name), None, rm, sa.v)
    if len(emit) < 6:
        raise AnalysisBroken("only %d x86 emit functions with (index, size, form) recognised" % len(emit))
    callers = db.callers()
    from exprval import reachable_under
    from flow import atom, single_defs

    def alts(f, node, depth=0):
        """[(value | ('param', name) | None, assumptions)] - assumptions: {access path: 0/1} from the conditions of ?: chosen"""
        e = strip_casts(node)
        if e is None:
            return [(None, {})]
        if e.v is not None:
            return [(e.v, {})]
        if e.k == "ParenExpr":
            return alts(f, e.c[0], depth)
        if e.k == "ConditionalOperator":
            cn, pol = atom(e.c[0], True)
            P = access_path(cn) if cn is not None else None
            out = []
            for arm, val in ((e.c[1], 1), (e.c[2], 0)):
                for v, asm in alts(f, arm, depth):
                    asm = dict(asm)
                    if P is not None:
                        want = val if pol else 1 - val
                        if asm.get(P, want) != want:
                            continue
                        asm[P] = want
                    out.append((v, asm))
            return out
        if e.k == "DeclRefExpr" and e.get("dk") == "param":
            return [(("param", e.name), {})]
        if e.k == "DeclRefExpr" and e.get("dk") == "local" and depth < 3:
            d = single_defs(f).get(e.name)
            if d is not None:
                return alts(f, d, depth + 1)
        return [(None, {})]

    def feasible(f, call, env):
        return reachable_under(f, env, lambda x: x.id == call.id)

    def site_values(f, call, node):
        """values `node` (an argument of `call` in f) can have when the call is reached"""
        out = set()
        for v, asm in alts(f, node):
            if v is None:
                out.add(None)
            elif not isinstance(v, tuple):
                if feasible(f, call, asm):
                    out.add(v)
            else:
                pname = v[1]
                pn = [p_["name"] for p_ in f.params]
                cl = [(g, c) for g, c in callers.get(f.name, []) if g is not f]
                if not cl:
                    out.add(None)
                for g, c2 in cl:
                    a2 = c2.args()
                    # alternatives of every argument the caller passes, with consistent assumptions
                    combos = [({}, dict(asm))]
                    for i_, pn_ in enumerate(pn):
                        if i_ >= len(a2):
                            continue
                        sa = strip_casts(a2[i_])
                        nxt = []
                        for env0, asm0 in combos:
                            for v2, asm2 in alts(g, a2[i_]):
                                if any(asm0.get(k_, w_) != w_ for k_, w_ in asm2.items()):
                                    continue
                                e1 = dict(env0)
                                if v2 is not None and not isinstance(v2, tuple):
                                    e1[pn_] = v2
                                m = dict(asm0)
                                m.update(asm2)
                                nxt.append((e1, m))
                        combos = nxt or combos
                    # translate assumption roots: caller variable passed as argument i -> callee parameter i
                    ren = {}
                    for i_, pn_ in enumerate(pn):
                        if i_ < len(a2) and strip_casts(a2[i_]) is not None and strip_casts(a2[i_]).k == "DeclRefExpr":
                            ren[strip_casts(a2[i_]).name] = pn_
                    for env0, asm0 in combos:
                        if pname not in env0:
                            out.add(None)
                            continue
                        env = dict(env0)
                        for P, w_ in asm0.items():
                            root = P.split("->")[0].split(".")[0]
                            env[ren.get(root, root) + P[len(root):]] = w_
                        if feasible(f, call, env):
                            out.add(env0[pname])
        return out
    sites = []
    for f in db.all_functions():
        if not f.relfile.startswith("orc/") or f.body is None:
            continue
        for c in f.calls():
            if c.name not in emit:
                continue
            ii, si, rm, fixed_size = emit[c.name]
            a = c.args()
            if len(a) <= ii:
                continue
            idxs = {v for v, _ in alts(f, a[ii]) if v is not None and not isinstance(v, tuple)}
            szs = {fixed_size} if si is None else (site_values(f, c, a[si]) if len(a) > si else {None})
            for ix in idxs:
                if not (0 <= ix < len(rows)):
                    continue
                t = rows[ix].get("type")
                t = t if isinstance(t, int) else (db.enum(t[1]) if isinstance(t, tuple) else None)
                sites.append((t, rm, szs, f, c, rows[ix].get("name")))
    if len(sites) < 100:
        raise AnalysisBroken("only %d resolved x86 emit sites" % len(sites))
    n = 0
    seen = set()
    for labels, opnd, only_reg, call in fixed:
        for t in sorted(labels & sized):
            key = (t, opnd, only_reg)
            if key in seen:
                continue
            seen.add(key)
            hits = [(f, c, nm) for tt, rm, szs, f, c, nm in sites if tt == t and 8 in szs and (rm == RM_REG or not only_reg)]
            n += 1
            rep.check(not hits, rule, "orc/orcx86insn.c::orc_x86_insn_output_asm", "%s:%s%s" % (tnames.get(t, t), opnd, ":reg-form" if only_reg else ""),
                      "operand `%s` of %s is printed with the 32-bit name; no emit site builds that form with size 8" % (opnd, tnames.get(t, t)),
                      "the listing prints operand `%s` of an instruction of type %s with orc_x86_get_regname (always the 32-bit name) while the encoder emits "
                      "REX.W for size 8, and %s (line %s) emits `%s` with size 8: the listing reads e.g. `%s %%ecx, ...` where the machine code is `%s %%rcx, ...`" %
                      (opnd, tnames.get(t, t), hits[0][0].name if hits else "", hits[0][1].line if hits else "", hits[0][2] if hits else "", hits[0][2] if hits else "", hits[0][2] if hits else ""),
                      line=call.line)
    if n < 2:
        raise AnalysisBroken("no fixed-width register print found in a size-dependent arm (rule has nothing to judge)")
    return n


def check_vex_listing_assembles(db, rep, rule, workdir):
    """What the listing prints for a VEX instruction must be an instruction.  For every (table row, number of register sources,
    VEX.128/256) shape that a call of orc_vex_emit_cpuinsn_size / _imm in the library builds, the register class the LISTING
    prints for each operand is read from orc_x86_insn_output_asm itself - which orc_x86_get_simd_regname call is reached for that
    shape (exprval.reachable_under) and which prefix it is given (the instruction's own, or a forced VEX.128) - the line is put
    together in the order of the final format and handed to GNU as.  A line the assembler rejects (`vpsraw %ymm2, %ymm1, %ymm1`:
    the count of a vector shift is an xmm register whatever the vector length; `vpmovsxwd %ymm2, %ymm2`) means the listing of
    every program using that shape cannot be assembled, while the machine code is fine."""
    from facts import AnalysisBroken, access_path, init_rows
    from exprval import NotPure, evaluate, reachable_under
    import os
    from x86guard import IsaOracle
    tu = db.tu("orcx86insn")
    lst = tu.fn.get("orc_x86_insn_output_asm")
    if lst is None:
        raise AnalysisBroken("orc_x86_insn_output_asm not found")
    rep.saw(lst)
    rows = init_rows(tu.global_("orc_x86_opcodes"))
    RM_REG = db.enum("ORC_X86_RM_REG")
    V128, V256 = db.enum("ORC_X86_AVX_VEX128_PREFIX"), db.enum("ORC_X86_AVX_VEX256_PREFIX")
    tnames = {v: k[len("ORC_X86_INSN_TYPE_"):] for k, v in tu.enums.items() if k.startswith("ORC_X86_INSN_TYPE_")}

    def buf_of(c):
        a = c.parent
        while a is not None and not (a.k == "CallExpr" and (a.name or "").replace("__builtin___", "").replace("_chk", "") in ("sprintf", "snprintf")):
            a = a.parent
        return access_path(strip_casts(a.args()[0])) if a is not None and a.args() else None
    names = [(c, buf_of(c)) for c in lst.calls("orc_x86_get_simd_regname")]
    names = [(c, b) for c, b in names if b]
    if len(names) < 8:
        raise AnalysisBroken("only %d SIMD register prints found in the listing emitter" % len(names))
    gpnames = [c for c in lst.calls() if (c.name or "").startswith("orc_x86_get_regname") and buf_of(c)]
    order = None
    immbuf = None
    for c in lst.calls("orc_compiler_append_code"):
        a = c.args()
        lit = strip_casts(a[1]) if len(a) > 1 else None
        if lit is not None and lit.k == "StringLiteral" and lit.get("str", "").lstrip().startswith("v%s"):
            order = [access_path(strip_casts(x)) for x in a[3:]]
            immbuf = order[0]
    if not order or len(order) < 4:
        raise AnalysisBroken("the final VEX format of the listing emitter was not found")
    immcalls = [c for c in lst.walk() if c.k == "CallExpr" and (c.name or "").replace("__builtin___", "").replace("_chk", "") in ("sprintf", "snprintf") and c.args()
                and access_path(strip_casts(c.args()[0])) == immbuf and any("$" in (x.get("str", "") or "") for x in c.walk() if x.k == "StringLiteral")]
    # shapes built by the emit sites
    SIG = {"orc_vex_emit_cpuinsn_size": (1, 3, 4, 6), "orc_vex_emit_cpuinsn_imm": (1, 3, 4, 6)}
    shapes = {}
    for f in db.all_functions():
        if not f.relfile.startswith("orc/") or f.body is None:
            continue
        for c in f.calls():
            if c.name not in SIG:
                continue
            ri, s0, s1, pi = SIG[c.name]
            a = c.args()
            if len(a) <= pi:
                continue
            pv = strip_casts(a[pi]).v
            re_ = strip_casts(a[ri])
            rvs = [re_.v] if re_.v is not None else []
            if not rvs and re_.k == "ArraySubscriptExpr" and strip_casts(re_.c[0]) is not None and strip_casts(re_.c[0]).k == "DeclRefExpr":
                # a row picked from a local table: const int opcodes[] = { ORC_X86_psllw, ... }; opcodes[type]
                for vd in f.walk():
                    if vd.k == "VarDecl" and vd.name == strip_casts(re_.c[0]).name and vd.c and vd.c[0] is not None:
                        rvs = [y.v for y in vd.c[0].walk() if y.v is not None and y.k in ("DeclRefExpr", "IntegerLiteral", "ConstantExpr") and not any(z.v is not None and z is not y for z in y.walk())]
            if pv is None:
                continue
            has0 = strip_casts(a[s0]).v != 0
            has1 = strip_casts(a[s1]).v != 0
            for rv in rvs:
                if 0 <= rv < len(rows):
                    shapes.setdefault((rv, has0, has1, pv), (f, c))
    if len(shapes) < 100:
        raise AnalysisBroken("only %d VEX register-form shapes found at the emit sites" % len(shapes))
    oracle = IsaOracle(os.path.join(workdir, "vexlst"))
    lines = {}
    for (rv, has0, has1, pv), (f, c) in sorted(shapes.items(), key=lambda kv: kv[0]):
        row = rows[rv]
        T = row["type"] if isinstance(row.get("type"), int) else db.enum(row["type"][1]) if isinstance(row.get("type"), tuple) else None
        fl = row.get("flags") if isinstance(row.get("flags"), int) else 0
        env = {"xinsn->opcode->type": T, "xinsn->type": RM_REG, "xinsn->prefix": pv, "is_sse": pv, "xinsn->src[0]": 65 if has0 else 0, "xinsn->src[1]": 66 if has1 else 0,
               "xinsn->src[2]": 0, "xinsn->dest": 67, "xinsn->opcode->flags": fl or 0, "xinsn->size": 4, "xinsn->imm": 1}
        env["operand1"] = env["xinsn->src[1]"] if (has0 and has1) else env["xinsn->src[0]"]
        env["operand2"] = env["xinsn->src[0]"]
        env["may_have_avx_operand"] = 1
        per = {}
        for k, b in names:
            if reachable_under(lst, env, lambda e, k=k: e.id == k.id):
                try:
                    pc = evaluate(k.args()[1], env)
                    rg = evaluate(k.args()[0], env)
                except (NotPure, ValueError):
                    pc = rg = None
                per.setdefault(b, []).append((pc, rg))
        if any(reachable_under(lst, env, lambda e, k=k: e.id == k.id) for k in gpnames):
            continue                        # a general-register operand is printed for this shape: not reconstructed here
        if any(len(v) != 1 or v[0][0] is None for v in per.values()) or not per:
            continue                        # printed operands not determined for this shape (memory-only row, GP operand ...): not judged here
        ops = []
        for b in order[1:]:
            if b in per:
                pc, rg = per[b][0]
                if rg in (0, None):
                    continue
                ops.append("%%%s%d" % ("ymm" if pc == V256 else "xmm", {65: 1, 66: 2, 67: 3}.get(rg, 4)))
        imm = "$1, " if any(reachable_under(lst, env, lambda e, k=k: e.id == k.id) for k in immcalls) else ""
        line = "v%s %s%s" % (row["name"], imm, ", ".join(ops))
        lines[(rv, has0, has1, pv)] = (line, f, c, T)
    if len(lines) < 80:
        raise AnalysisBroken("only %d VEX listing lines reconstructed" % len(lines))
    lv = oracle.levels([v[0] for v in lines.values()])
    n = 0
    for (key, (line, f, c, T)), l in zip(lines.items(), lv):
        n += 1
        rep.check(l is not None, rule, "orc/orcx86insn.c::orc_x86_insn_output_asm", "%s:%s:%s" % (rows[key[0]]["name"], "vex256" if key[3] == V256 else "vex128", "%d%d" % (key[1], key[2])),
                  "`%s` assembles" % line,
                  "for the instruction %s builds (line %s: row `%s`, type %s, %s) the listing prints `%s`, which GNU as rejects at every ISA level: the "
                  "register class printed for an operand is not the one the instruction takes, so the listing of any program using it cannot be assembled "
                  "while the machine code is valid" % (f.name, c.line, rows[key[0]]["name"], tnames.get(T, T), "VEX.256" if key[3] == V256 else "VEX.128", line),
                  line=c.line)
    return n


def check_labels_distinct(db, rep, rule):
    """Branch destinations: the x86 skeleton numbers its local labels by hand (`1:` ... `7:`, then two computed families
    `8 + shift` and `label_step_up + shift`).  Orc resolves a label number to its LAST definition, GNU as resolves `5f` to the
    NEAREST following `5:`; the two agree only while every label number is defined once per function.  All definitions with a
    constant number in orcprogram-x86.c must be pairwise distinct and lie below the base of the computed families."""
    from facts import AnalysisBroken
    from flow import linear
    tu = db.tu("orcprogram-x86")
    defs = []
    bases = []
    for f in tu.main_functions():
        for c in f.calls("orc_x86_emit_cpuinsn_label"):
            a = c.args()
            if len(a) < 3:
                continue
            e = strip_casts(a[2])
            if e.v is not None:
                defs.append((e.v, f, c))
            else:
                l = linear(a[2])
                if l is not None and l[0] is not None and "label_step_up" not in l[0]:
                    bases.append(l[1])
                rep.saw(f)
    if len(defs) < 5:
        raise AnalysisBroken("only %d constant label definitions found in orcprogram-x86.c" % len(defs))
    seen = {}
    n = 0
    for v, f, c in sorted(defs, key=lambda d: (d[2].line)):
        n += 1
        rep.saw(f)
        prev = seen.get(v)
        low = min(bases) if bases else None
        bad = None
        if prev is not None:
            bad = "label %d is also defined in %s (line %s)" % (v, prev[0].name, prev[1].line)
        elif low is not None and v >= low:
            bad = "label %d lies in the range of the computed labels, which start at %d" % (v, low)
        seen.setdefault(v, (f, c))
        rep.check(bad is None, rule, "orc/orcprogram-x86.c::%s" % f.name, "label:%d@%s" % (v, c.line),
                  "label %d is defined once" % v,
                  "%s defines local label %d (line %s), but %s: a 2-D program that takes both paths gets `%d:` twice in its listing; `as` binds `%df` to the "
                  "nearest definition, Orc's fixups to the last one, so listing and machine code branch to different places" % (f.name, v, c.line, bad, v, v), line=c.line)
    return n


def check_aligned_load_offsets(db, rep, rule):
    """A vector load or store may be told "this address is aligned" (movdqa / movaps: a misaligned address raises #GP) only
    when its displacement is the loop's own element offset - compiler->offset scaled by element sizes - added to an array
    pointer the loop has aligned.  A displacement that contains a value chosen by the program (the constant of loadoffX, a
    parameter) points somewhere else, so the aligned-flag argument of orc_x86_emit_mov_memoffset_{sse,mmx,avx} /
    orc_x86_emit_mov_{sse,mmx,avx}_memoffset must then be FALSE.  Leaves of the displacement expression are followed through
    the function's local definitions."""
    import re
    from facts import AnalysisBroken, access_path
    from flow import reaching_defs
    n = 0
    for tub in ("orcrules-sse", "orcrules-mmx", "orcrules-avx"):
        tu = db.tu(tub)
        for f in tu.main_functions():
            for c in f.calls():
                m = re.match(r"^orc_x86_emit_mov_(memoffset_(sse|mmx|avx)|(sse|mmx|avx)_memoffset)$", c.name or "")
                if not m:
                    continue
                a = c.args()
                g = db.func(c.name)
                pn = [p_["name"] for p_ in g.params] if g is not None else []
                if "offset" not in pn or not any("aligned" in x for x in pn):
                    continue
                off, al = a[pn.index("offset")], a[[i for i, x in enumerate(pn) if "aligned" in x][0]]
                if strip_casts(al).v == 0:
                    continue
                # leaves of the displacement
                leaves, todo, seen = set(), [off], set()
                while todo:
                    e = todo.pop()
                    for y in e.walk():
                        if y.k == "DeclRefExpr" and y.get("dk") == "local" and (y.name, y.id) not in seen:
                            seen.add((y.name, y.id))
                            ds = reaching_defs(f, y.name, c)
                            if len(seen) < 40:
                                for d in ds:
                                    src = d.c[1] if d.k == "BinaryOperator" else (d.c[0] if d.c else None)
                                    if src is not None:
                                        todo.append(src)
                        elif y.k == "MemberExpr":
                            leaves.add(access_path(y) or unparse(y))
                foreign = sorted(l for l in leaves if l and (".value" in l or "->value" in l or "params" in l))
                n += 1
                rep.saw(f)
                rep.check(not foreign, rule, "%s::%s" % (f.relfile, f.name), "%s@%s" % (c.name.replace("orc_x86_emit_", ""), c.line),
                          "aligned access at the loop's own element offset",
                          "%s passes `%s` as the aligned flag of a vector access whose displacement contains `%s`, a value chosen by the program: the address is "
                          "the aligned array pointer PLUS that offset, movdqa faults on it (`loadoffl t, s, 1` on the array the loop aligns: SIGSEGV for every "
                          "n that reaches the vector loop)" % (f.name, unparse(al)[:30], foreign[0] if foreign else ""), line=c.line)
    if n < 10:
        raise AnalysisBroken("only %d vector accesses with a non-constant aligned flag found in the x86 rules" % n)
    return n


def check_listing_writer_reentrant(db, rep, rule):
    """Every compile builds its listing through orc_compiler_append_code (formats one line, appends it to compiler->asm_code).
    The buffers it formats into must belong to the call or to the compiler: a static or global buffer is shared by all compiles
    in flight, so a line of one program ends up in the listing of another while the machine code, emitted from each compiler's
    own state, stays right."""
    from facts import AnalysisBroken, root_var
    f = db.func("orc_compiler_append_code", "orccompiler")
    if f is None:
        raise AnalysisBroken("orc_compiler_append_code not found")
    rep.saw(f)
    WR = ("snprintf", "sprintf", "vsnprintf", "vsprintf", "strcpy", "strncpy", "strcat", "strncat", "memcpy", "memmove", "memset")
    bad = None
    for x in f.walk():
        tgt = None
        if x.k == "CallExpr" and x.name and x.name.replace("__builtin___", "").replace("_chk", "") in WR and x.args():
            tgt = root_var(x.args()[0])
        elif x.k in ("BinaryOperator", "CompoundAssignOperator") and x.op.endswith("=") and x.op not in ("==", "!=", "<=", ">="):
            tgt = root_var(x.c[0])
        if tgt is not None and tgt.get("dk") in ("static_local", "global"):
            bad = (x, tgt.name)
    rep.check(bad is None, rule, "orc/orccompiler.c::orc_compiler_append_code", "orc_compiler_append_code",
              "the listing writer formats into storage of its own call / its compiler",
              "orc_compiler_append_code writes the %s `%s`: two compiles running at the same time format their lines into the same storage, and the "
              "listing one of them returns contains lines (or half lines) of the other - it no longer is the program of its machine code" %
              ("static buffer" if bad else "", bad[1] if bad else ""), line=bad[0].line if bad else None)


def check_listing_lines_terminated(db, rep, rule):
    """The x86 back ends keep the text of the instructions they emit in a list and append it to the listing in one block, after
    everything that was written directly with ORC_ASM_CODE (comments, labels, directives).  A directly written fragment that
    does not end in a newline is therefore continued by WHATEVER comes next - and where nothing more is written directly, by the
    first instruction of the deferred block, which disappears into a comment: the listing assembles to a program that lacks an
    instruction the machine code has.  In the x86 translation units every ORC_ASM_CODE format ends with a newline, unless the very
    next listing write in the same basic block continues the line."""
    from rules_common import where
    n = 0
    for tub in ("orcx86", "orcx86insn", "orcprogram-x86", "orcprogram-sse", "orcprogram-avx", "orcprogram-mmx", "orcrules-sse", "orcrules-avx",
                "orcrules-mmx", "orcsse", "orcmmx", "orcavx"):
        try:
            tu = db.tu(tub)
        except Exception:
            continue
        for f in tu.main_functions():
            calls = [c for c in {c.id: c for c in f.calls()}.values() if c.name == "orc_compiler_append_code"]
            for c in calls:
                a = c.args()
                lit = strip_casts(a[1]) if len(a) > 1 else None
                if lit is None or lit.k != "StringLiteral":
                    continue
                n += 1
                txt = lit.get("str", "") or ""
                ok = txt.endswith("\n") or txt.endswith("\\n")
                if not ok:
                    pos = f.pos(c)
                    if pos is not None:
                        nxt = [e for e in f.blocks[pos[0]].el[pos[1] + 1:] if e.k == "CallExpr" and e.name and e.id != c.id]
                        ok = bool(nxt) and nxt[0].name == "orc_compiler_append_code"
                if not ok:
                    rep.saw(f)
                rep.check(ok, rule, where(f), "%s@%s" % (f.name, c.line), "a directly written listing fragment ends its line",
                          "%s writes `%s` into the listing (line %s) without a newline and nothing in the same block continues the line: the next thing "
                          "appended - the first instruction of the deferred instruction text - lands on that line; after a `#` it is a comment, and the "
                          "assembled listing lacks an instruction the machine code has" % (f.name, txt[:50].replace("\n", "\\n"), c.line), line=c.line)
    if n < 15:
        raise AnalysisBroken("only %d direct listing writes found in the x86 back ends" % n)
    return n


def check_is4_operand_first(db, rep, rule):
    """Four-operand VEX instructions (vblendvpd) carry their fourth register in imm8[7:4]; AT&T syntax writes that operand FIRST:
    `vblendvpd %mask, %rm, %vvvv, %dest`.  The encoder takes it from xinsn->src[2] (orc_vex_insn_output_immediate); the listing
    builds its text in src_3rd_op.  In the line the listing prints for VEX instructions, src_3rd_op must therefore precede the
    other source operands - printed after them, GNU as reads the mask as VEX.vvvv and the first source as the mask: the listing
    assembles to a different program."""
    from rules_common import where
    tu = db.tu("orcx86insn")
    enc = tu.fn.get("orc_vex_insn_output_immediate")
    lst = tu.fn.get("orc_x86_insn_output_asm")
    if enc is None or lst is None:
        raise AnalysisBroken("orc_vex_insn_output_immediate / orc_x86_insn_output_asm not found")
    if not any(x.k == "BinaryOperator" and x.op == "<<" and "src[2]" in unparse(x.c[0]).replace(" ", "") and strip_casts(x.c[1]).v == 4 for x in enc.walk()):
        raise AnalysisBroken("orc_vex_insn_output_immediate no longer puts src[2] into imm8[7:4] (premise of the rule)")
    rep.saw(lst)
    n = 0
    for c in lst.calls("orc_compiler_append_code"):
        a = c.args()
        lit = strip_casts(a[1]) if len(a) > 1 else None
        if lit is None or lit.k != "StringLiteral" or not (lit.get("str", "") or "").lstrip().startswith("v%s"):
            continue
        names = [strip_casts(x).name if strip_casts(x) is not None and strip_casts(x).k == "DeclRefExpr" else None for x in a[2:]]
        third = [i for i, nm in enumerate(names) if nm and "3rd" in nm]
        others = [i for i, nm in enumerate(names) if nm and nm.startswith("src_") and "3rd" not in nm]
        if not third:
            continue
        n += 1
        rep.check(all(third[0] < o for o in others), rule, where(lst), "vex-line@%s" % c.line, "the operand encoded in imm8[7:4] is printed first",
                  "orc_x86_insn_output_asm prints the VEX operands in the order %s: the register that the encoder puts into imm8[7:4] (src[2], the mask of "
                  "vblendvpd) must come first in AT&T syntax; as printed, the assembler takes the first source for the mask and the mask for VEX.vvvv" %
                  [nm for nm in names if nm], line=c.line)
    if n < 1:
        raise AnalysisBroken("the VEX listing line with a third source operand was not found")
    return n
