"""Fact database over orcsa output: trees, CFGs, call graph, helpers.

Everything here is generic program-analysis plumbing; repository knowledge
lives in rules/*.py and tables/*.json.
"""
import json
import os
import re
from collections import defaultdict, deque


class AnalysisBroken(Exception):
    """An anchor named by a rule vanished / instance floor missed: exit 2."""


# --------------------------------------------------------------------------
# tree nodes
# --------------------------------------------------------------------------
class Node:
    __slots__ = ("d", "k", "id", "c", "parent", "func")

    def __init__(self, d, parent, func):
        self.d = d
        self.k = d["k"]
        self.id = d["id"]
        self.parent = parent
        self.func = func
        self.c = [Node(x, self, func) if x is not None else None for x in d.get("c", [])]
        func.nodes[self.id] = self

    # attribute access shortcuts -------------------------------------------
    def get(self, key, default=None):
        return self.d.get(key, default)

    @property
    def name(self):
        return self.d.get("name")

    @property
    def line(self):
        return self.d.get("l", 0)

    @property
    def v(self):
        return self.d.get("v")

    @property
    def op(self):
        return self.d.get("op")

    @property
    def ty(self):
        return self.d.get("ty", "")

    @property
    def mac(self):
        return self.d.get("mac", [])

    def walk(self):
        st = [self]
        while st:
            n = st.pop()
            yield n
            for ch in reversed(n.c):
                if ch is not None:
                    st.append(ch)

    def kids(self):
        return [x for x in self.c if x is not None]

    def ancestors(self):
        p = self.parent
        while p is not None:
            yield p
            p = p.parent

    def is_call(self, *names):
        return self.k == "CallExpr" and (not names or self.name in names)

    def args(self):
        assert self.k == "CallExpr"
        return self.c[1:]

    def __repr__(self):
        return "<%s#%d %s>" % (self.k, self.id, unparse(self)[:60])


ASSIGN_OPS = {"=", "+=", "-=", "*=", "/=", "%=", "<<=", ">>=", "&=", "|=", "^="}


def strip_casts(n):
    while n is not None and n.k in ("CStyleCastExpr",):
        n = n.c[0]
    return n


def unparse(n):
    """Whitespace-normalised C text of the (macro-expanded) tree."""
    if n is None:
        return ""
    k = n.k
    c = n.c
    if k == "DeclRefExpr":
        return n.name
    if k == "IntegerLiteral":
        return str(n.v) if n.v is not None else n.get("vu", "?")
    if k == "CharacterLiteral":
        return "'\\x%02x'" % n.v
    if k == "FloatingLiteral":
        return repr(n.get("fv"))
    if k == "StringLiteral":
        return json.dumps(n.get("str", ""))
    if k == "MemberExpr":
        return unparse(c[0]) + ("->" if n.get("arrow") else ".") + n.name
    if k == "ArraySubscriptExpr":
        return "%s[%s]" % (unparse(c[0]), unparse(c[1]))
    if k == "CallExpr":
        return "%s(%s)" % (unparse(c[0]), ", ".join(unparse(a) for a in c[1:]))
    if k in ("BinaryOperator", "CompoundAssignOperator"):
        # canonical orientation of order comparisons: `a > b` is printed as `(b < a)`, so that rules comparing condition
        # text do not depend on which way round a comparison was written
        if n.op == ">":
            return "(%s < %s)" % (unparse(c[1]), unparse(c[0]))
        if n.op == ">=":
            return "(%s <= %s)" % (unparse(c[1]), unparse(c[0]))
        return "(%s %s %s)" % (unparse(c[0]), n.op, unparse(c[1]))
    if k == "UnaryOperator":
        if n.get("postfix"):
            return "%s%s" % (unparse(c[0]), n.op)
        return "%s%s" % (n.op, unparse(c[0]))
    if k == "CStyleCastExpr":
        return "(%s)%s" % (n.get("toty"), unparse(c[0]))
    if k == "ConditionalOperator":
        return "(%s ? %s : %s)" % (unparse(c[0]), unparse(c[1]), unparse(c[2]))
    if k == "UnaryExprOrTypeTraitExpr":
        if n.get("argty"):
            return "sizeof(%s)" % n.get("argty")
        return "sizeof(%s)" % (unparse(c[0]) if c else "?")
    if k == "ReturnStmt":
        return "return %s;" % (unparse(c[0]) if c else "")
    if k == "CompoundStmt":
        return "{ " + " ".join(unparse(x) for x in c) + " }"
    if k == "DeclStmt":
        return " ".join(unparse(x) for x in c)
    if k == "VarDecl":
        if c:
            return "%s %s = %s;" % (n.ty, n.name, unparse(c[0]))
        return "%s %s;" % (n.ty, n.name)
    if k == "IfStmt":
        s = "if (%s) %s" % (unparse(c[0]), unparse(c[1]))
        if len(c) > 2 and c[2] is not None:
            s += " else " + unparse(c[2])
        return s
    if k == "ForStmt":
        return "for (%s; %s; %s) %s" % (unparse(c[0]).rstrip(";"), unparse(c[1]), unparse(c[2]), unparse(c[3]))
    if k == "WhileStmt":
        return "while (%s) %s" % (unparse(c[0]), unparse(c[1]))
    if k == "DoStmt":
        return "do %s while (%s);" % (unparse(c[0]), unparse(c[1]))
    if k == "SwitchStmt":
        return "switch (%s) %s" % (unparse(c[0]), unparse(c[1]))
    if k == "CaseStmt":
        return "case %s: %s" % (n.get("lo"), unparse(c[0]) if c else "")
    if k == "DefaultStmt":
        return "default: %s" % (unparse(c[0]) if c else "")
    if k == "BreakStmt":
        return "break;"
    if k == "ContinueStmt":
        return "continue;"
    if k == "GotoStmt":
        return "goto %s;" % n.name
    if k == "LabelStmt":
        return "%s: %s" % (n.name, unparse(c[0]) if c else "")
    if k == "NullStmt":
        return ";"
    if k == "InitListExpr":
        return "{%s}" % ", ".join(unparse(x) for x in c)
    if k == "ImplicitValueInitExpr":
        return "0"
    if k == "OffsetOfExpr":
        path = n.get("opath", "")
        for ch in c:
            path = path.replace("[]", "[%s]" % unparse(ch), 1)
        return "offsetof(%s, %s)" % (n.get("argty"), path)
    if k == "StmtExpr":
        return "({%s})" % " ".join(unparse(x) for x in c)
    if k == "PredefinedExpr":
        return "__func__"
    if k == "VAArgExpr":
        return "va_arg(%s)" % ", ".join(unparse(x) for x in c)
    if k == "AtomicExpr":
        return "__atomic(%s)" % ", ".join(unparse(x) for x in c)
    if k == "GCCAsmStmt":
        return "asm(%s)" % json.dumps(n.get("str", ""))
    if k == "CompoundLiteralExpr":
        return "(%s)%s" % (n.ty, unparse(c[0]) if c else "")
    # expression statements & anything else
    s = " ".join(unparse(x) for x in c)
    return "%s(%s)" % (k, s)


def stmt_text(n):
    """unparse + ';' for expression statements."""
    t = unparse(n)
    if n.k in ("BinaryOperator", "CompoundAssignOperator", "UnaryOperator", "CallExpr"):
        if t.startswith("(") and t.endswith(")") and n.k != "CallExpr":
            t = t[1:-1]
        t += ";"
    return t


def access_path(n):
    """Symbolic l-value path: compiler->vars[].ptr_register ; None if not a path."""
    n = strip_casts(n)
    if n is None:
        return None
    k = n.k
    if k == "DeclRefExpr":
        return n.name
    if k == "MemberExpr":
        b = access_path(n.c[0])
        if b is None:
            return None
        return b + ("->" if n.get("arrow") else ".") + n.name
    if k == "ArraySubscriptExpr":
        b = access_path(n.c[0])
        if b is None:
            return None
        return b + "[]"
    if k == "UnaryOperator" and n.op == "*":
        b = access_path(n.c[0])
        return None if b is None else "*" + b
    if k == "UnaryOperator" and n.op == "&":
        b = access_path(n.c[0])
        return None if b is None else "&" + b
    if k == "BinaryOperator" and n.op in ("+", "-"):
        # pointer arithmetic: p + i  ==> p[]
        b = access_path(n.c[0])
        if b is not None and "*" in n.c[0].ty:
            return b + "[]" if False else b
    return None


def root_var(n):
    n = strip_casts(n)
    while n is not None:
        if n.k == "DeclRefExpr":
            return n
        if n.k in ("MemberExpr", "ArraySubscriptExpr", "UnaryOperator", "CStyleCastExpr"):
            n = strip_casts(n.c[0])
            continue
        if n.k == "BinaryOperator" and n.op in ("+", "-"):
            n = strip_casts(n.c[0])
            continue
        return None
    return None


# --------------------------------------------------------------------------
# CFG
# --------------------------------------------------------------------------
class Block:
    __slots__ = ("id", "el", "succs", "dead_succs", "term", "tk", "cond", "rawcond", "lab", "preds", "noreturn")

    def __init__(self, d, func):
        self.id = d["id"]
        self.el = [func.nodes[i] for i in d.get("el", []) if i in func.nodes]
        self.succs = []
        self.dead_succs = []
        for s in d.get("s", []):
            if s is None:
                self.succs.append(None)
            elif s < 0:
                self.succs.append(None)
                self.dead_succs.append(-s - 1)
            else:
                self.succs.append(s)
        self.term = func.nodes.get(d.get("t")) if d.get("t") is not None else None
        self.tk = d.get("tk")
        self.cond = func.nodes.get(d.get("tc")) if d.get("tc") is not None else None
        self.rawcond = self.cond
        # a branch on (X && Y) / (X || Y) reached after X was already decided
        # is a branch on Y: use the rightmost operand as the effective condition
        while self.cond is not None and self.cond.k == "BinaryOperator" and self.cond.op in ("&&", "||"):
            self.cond = self.cond.c[1]
        self.lab = d.get("lab")
        self.noreturn = d.get("noreturn", False)
        self.preds = []


class Func:
    def __init__(self, d, tu):
        self.d = d
        self.tu = tu
        self.name = d["name"]
        self.file = d["file"]
        self.line = d["l"]
        self.static = d["static"]
        self.params = d["params"]
        self.ret = d["ret"]
        self.nodes = {}
        self.body = Node(d["body"], None, self) if d.get("body") else None
        self.blocks = {}
        self.entry = self.exit = None
        cfg = d.get("cfg")
        if cfg:
            for b in cfg["blocks"]:
                self.blocks[b["id"]] = Block(b, self)
            self.entry = cfg["entry"]
            self.exit = cfg["exit"]
            for b in self.blocks.values():
                for s in b.succs:
                    if s is not None:
                        self.blocks[s].preds.append(b.id)
        self._pos = None
        self._dom = None
        self._pdom = None

    @property
    def relfile(self):
        return relpath(self.file)

    def walk(self):
        return self.body.walk() if self.body else iter(())

    def calls(self, *names):
        for n in self.walk():
            if n.k == "CallExpr" and (not names or n.name in names):
                yield n

    # position of a node in the CFG: (block id, index)
    def pos(self, node):
        if self._pos is None:
            self._pos = {}
            for b in self.blocks.values():
                for i, e in enumerate(b.el):
                    self._pos.setdefault(e.id, (b.id, i))
        p = self._pos.get(node.id)
        if p is not None:
            return p
        # fall back to first descendant / ancestor present in the CFG
        for x in node.walk():
            if x.id in self._pos:
                return self._pos[x.id]
        return None

    # -------------------------------------------------------------- dominators
    def _compute_dom(self, forward=True):
        ids = list(self.blocks)
        start = self.entry if forward else self.exit
        nxt = (lambda b: [s for s in self.blocks[b].succs if s is not None]) if forward else (lambda b: self.blocks[b].preds)
        prv = (lambda b: self.blocks[b].preds) if forward else (lambda b: [s for s in self.blocks[b].succs if s is not None])
        # reachable set
        reach = set()
        dq = deque([start])
        while dq:
            b = dq.popleft()
            if b in reach:
                continue
            reach.add(b)
            dq.extend(nxt(b))
        dom = {b: set(reach) for b in reach}
        dom[start] = {start}
        changed = True
        order = sorted(reach, reverse=forward)
        while changed:
            changed = False
            for b in order:
                if b == start:
                    continue
                ps = [p for p in prv(b) if p in reach]
                if not ps:
                    new = {b}
                else:
                    new = set.intersection(*(dom[p] for p in ps)) | {b}
                if new != dom[b]:
                    dom[b] = new
                    changed = True
        return dom

    def dom(self):
        if self._dom is None:
            self._dom = self._compute_dom(True)
        return self._dom

    def pdom(self):
        if self._pdom is None:
            self._pdom = self._compute_dom(False)
        return self._pdom

    def dominates(self, a, b):
        """node a's evaluation dominates node b's (both CFG elements)."""
        pa, pb = self.pos(a), self.pos(b)
        if pa is None or pb is None:
            return False
        if pa[0] == pb[0]:
            return pa[1] <= pb[1]
        return pa[0] in self.dom().get(pb[0], ())

    def reachable_blocks(self, start, avoid=()):
        seen = set()
        dq = deque([start])
        while dq:
            b = dq.popleft()
            if b in seen or b in avoid:
                continue
            seen.add(b)
            for s in self.blocks[b].succs:
                if s is not None:
                    dq.append(s)
        return seen

    def edge_kind(self, b, idx):
        """label of successor idx of block b: True/False for 2-way branches,
        ('case', lo, hi)/('default',) for switch, None otherwise."""
        blk = self.blocks[b]
        if blk.tk == "SwitchStmt":
            s = blk.succs[idx]
            if s is None:
                return None
            lab = self.blocks[s].lab
            if lab and lab.get("k") == "case":
                return ("case", lab.get("lo"), lab.get("hi", lab.get("lo")))
            return ("default",)
        if blk.cond is not None and len(blk.succs) == 2:
            return idx == 0
        return None


# ---------------------------------------------------------------------------
# Local-name normalisation.  Rules are written against the names parameters and block-scope variables have in the pinned
# tree.  tables/localnames.json records, per function, those reference names by position (parameters) and by
# (type, ordinal) (locals).  When a later tree calls a local differently, the loader maps it back to the reference name,
# so that renaming a variable -- an edit that cannot change behaviour -- never changes a verdict.  On the pinned tree the
# mapping is the identity.  Functions whose declarations changed shape are left as they are.
# ---------------------------------------------------------------------------
_LOCALNAMES = None
_LOCAL_DK = ("local", "param", "static_local")


def _norm_type(t):
    return " ".join((t or "").replace("const ", "").replace("restrict", "").replace("*", " * ").split())


def local_decls(fd):
    """(parameter names, [(type, name)] of block-scope variables in source order, de-duplicated by name)."""
    params = [p.get("name") for p in fd.get("params", [])]
    out, seen = [], set()
    st = [fd.get("body")]
    while st:
        n = st.pop()
        if not isinstance(n, dict):
            continue
        if n.get("k") == "VarDecl" and n.get("name") and n.get("dk") != "global" and n["name"] not in seen:
            seen.add(n["name"])
            out.append((_norm_type(n.get("ty")), n["name"]))
        for ch in reversed(n.get("c", [])):
            st.append(ch)
    return params, out


def separate_shadows(fd):
    """A block-scope variable with the name of a PARAMETER of the same function (e.g. `int level;` inside a loop of a function
    taking `orc_uint32 level`) is a different object: rename it (declaration and its dk == "local" references) so that facts
    about the parameter are not killed by assignments to the inner variable."""
    params = {p.get("name") for p in fd.get("params", []) if p.get("name")}
    if not params or not fd.get("body") or fd.get("_shadows_done"):
        return
    fd["_shadows_done"] = True
    hit = set()
    st = [fd.get("body")]
    nodes = []
    while st:
        n = st.pop()
        if not isinstance(n, dict):
            continue
        nodes.append(n)
        if n.get("k") == "VarDecl" and n.get("dk") not in ("global", "param") and n.get("name") in params:
            hit.add(n["name"])
        for ch in n.get("c", []):
            st.append(ch)
    if not hit:
        return
    for n in nodes:
        if n.get("k") == "VarDecl" and n.get("dk") not in ("global", "param") and n.get("name") in hit:
            n["name"] = n["name"] + "__inner"
        elif n.get("k") == "DeclRefExpr" and n.get("dk") == "local" and n.get("name") in hit:
            n["name"] = n["name"] + "__inner"


def _load_localnames():
    global _LOCALNAMES
    if _LOCALNAMES is None:
        p = os.path.join(os.path.dirname(os.path.dirname(os.path.abspath(__file__))), "tables", "localnames.json")
        if os.environ.get("ORC_NO_NORMALISE") or not os.path.exists(p):
            _LOCALNAMES = {}
        else:
            with open(p) as f:
                _LOCALNAMES = json.load(f)
    return _LOCALNAMES


def normalise_locals(fd):
    tab = _load_localnames()
    if not tab or not fd.get("body"):
        return
    key = "%s::%s" % (relpath(fd.get("file", "")), fd.get("name"))
    ref = tab.get(key)
    if not ref:
        return
    params, locs = local_decls(fd)
    m = {}
    if len(params) == len(ref["params"]):
        for a, r in zip(params, ref["params"]):
            if a and r:
                m[a] = r
    by_type_a, by_type_r = {}, {}
    for t, n in locs:
        by_type_a.setdefault(t, []).append(n)
    for t, n in ref["locals"]:
        by_type_r.setdefault(t, []).append(n)
    for t, names in by_type_a.items():
        rn = by_type_r.get(t)
        if rn and len(rn) == len(names):
            for a, r in zip(names, rn):
                m.setdefault(a, r)
    m = {a: r for a, r in m.items() if a != r}
    if not m:
        return
    allnames = set(params) | {n for _, n in locs}
    targets = list(m.values())
    if len(set(targets)) != len(targets) or any(r in allnames and r not in m for r in targets):
        return          # not injective / would capture another variable: leave this function untouched
    for p_ in fd.get("params", []):
        if p_.get("name") in m:
            p_["name"] = m[p_["name"]]
    st = [fd.get("body")]
    while st:
        n = st.pop()
        if not isinstance(n, dict):
            continue
        k = n.get("k")
        if k == "VarDecl" and n.get("dk") != "global" and n.get("name") in m:
            n["name"] = m[n["name"]]
        elif k == "DeclRefExpr" and n.get("dk") in _LOCAL_DK and n.get("name") in m:
            n["name"] = m[n["name"]]
        for ch in n.get("c", []):
            st.append(ch)
    fd["renamed_locals"] = m


class TU:
    def __init__(self, path):
        with open(path) as f:
            d = json.load(f)
        self.path = path
        self.main = d["main"]
        self.base = os.path.basename(self.main)
        self.enums = d["enums"]
        self.enumdecls = d["enumdecls"]
        self.records = d["records"]
        self.macros = {m["name"]: m for m in d["macros"]}
        self.protos = d["protos"]
        self.globals = d["globals"]
        self.functions = []
        self.fn = {}
        for fd in d["functions"]:
            separate_shadows(fd)
            normalise_locals(fd)
            f = Func(fd, self)
            self.functions.append(f)
            # header-defined inline helpers appear in many TUs; main-file wins
            if f.name not in self.fn or relpath(f.file) == relpath(self.main):
                self.fn[f.name] = f

    def main_functions(self):
        m = relpath(self.main)
        return [f for f in self.functions if relpath(f.file) == m]

    def global_(self, name):
        best = None
        for g in self.globals:
            if g["name"] == name:
                if "init" in g:
                    return g
                best = best or g
        return best


REPO = os.environ.get("ORC_REPO", "/repo")


def relpath(p):
    p = os.path.normpath(p)
    i = p.find("/orc/")
    for marker in ("/orc/", "/tools/", "/testsuite/", "/examples/", "/orc-test/"):
        j = p.rfind(marker)
        if j >= 0:
            return p[j + 1:]
    return os.path.basename(p)


class DB:
    def __init__(self, factdir, only=None):
        self.tus = {}
        for fn in sorted(os.listdir(factdir)):
            if not fn.endswith(".json"):
                continue
            base = fn[:-5]
            if only is not None and base not in only:
                continue
            self.tus[base] = TU(os.path.join(factdir, fn))
        self._byname = None
        self._callers = None

    def tu(self, base):
        if base.endswith(".c"):
            base = base[:-2]
        if base not in self.tus:
            raise AnalysisBroken("translation unit %s not extracted" % base)
        return self.tus[base]

    def func(self, name, tu=None):
        """Function definition by name (prefer the given TU for statics)."""
        if tu is not None:
            t = self.tu(tu)
            if name in t.fn:
                return t.fn[name]
            raise AnalysisBroken("function %s not found in %s" % (name, tu))
        if self._byname is None:
            self._byname = defaultdict(list)
            for t in self.tus.values():
                for f in t.main_functions():
                    self._byname[f.name].append(f)
            # header inline functions: register once
            for t in self.tus.values():
                for f in t.functions:
                    if f.name not in self._byname:
                        self._byname[f.name].append(f)
        l = self._byname.get(name)
        if not l:
            raise AnalysisBroken("function %s not found" % name)
        return l[0]

    def funcs(self, name):
        self.has_func(name)
        return self._byname.get(name, [])

    def has_func(self, name):
        try:
            self.func(name)
            return True
        except AnalysisBroken:
            return False

    def all_functions(self):
        for t in self.tus.values():
            for f in t.main_functions():
                yield f

    def enum(self, name):
        for t in self.tus.values():
            if name in t.enums:
                return t.enums[name]
        raise AnalysisBroken("enumerator %s not found" % name)

    def record(self, name):
        for t in self.tus.values():
            for nm in (name, "_" + name, name.lstrip("_")):
                if nm in t.records:
                    return t.records[nm]
        raise AnalysisBroken("record %s not found" % name)

    def macro(self, name):
        for t in self.tus.values():
            if name in t.macros:
                return t.macros[name]
        raise AnalysisBroken("macro %s not found" % name)

    def macro_int(self, name, depth=0):
        """Integer value of an object-like macro (simple arithmetic over
        literals / other macros / enumerators)."""
        m = self.macro(name)
        if m["fn"]:
            raise AnalysisBroken("macro %s is function-like" % name)
        body = m["body"]

        def repl(mo):
            w = mo.group(0)
            if re.fullmatch(r"(0[xX][0-9a-fA-F]+|\d+)[uUlL]*", w):
                return str(int(w.rstrip("uUlL"), 0))
            if depth > 8:
                raise AnalysisBroken("macro recursion " + name)
            try:
                return str(self.macro_int(w, depth + 1))
            except AnalysisBroken:
                return str(self.enum(w))
        expr = re.sub(r"0[xX][0-9a-fA-F]+[uUlL]*|\d+[uUlL]*|[A-Za-z_]\w*", repl, body)
        if not re.fullmatch(r"[\d\s()+\-*/<>|&]+", expr):
            raise AnalysisBroken("macro %s body not constant: %s" % (name, body))
        return int(eval(expr, {"__builtins__": {}}, {}))

    def field(self, rec, name):
        r = self.record(rec)
        for f in r["fields"]:
            if f["name"] == name:
                return f
        raise AnalysisBroken("field %s.%s not found" % (rec, name))

    # ---------------------------------------------------------------- callgraph
    def callers(self):
        if self._callers is None:
            self._callers = defaultdict(list)
            for f in self.all_functions():
                for c in f.calls():
                    if c.name:
                        self._callers[c.name].append((f, c))
        return self._callers


def init_rows(g):
    """rows of a global array initialiser -> list of dict/list/scalars."""
    if g is None or "init" not in g:
        raise AnalysisBroken("global has no initialiser")
    return simplify_init(g["init"])


def simplify_init(x):
    if x is None:
        return None
    if "list" in x:
        return [simplify_init(e) for e in x["list"]]
    if "rec" in x:
        d = {k: simplify_init(v) for k, v in x["f"].items()}
        d["__line"] = x.get("l")
        return d
    if "i" in x:
        return x["i"]
    if "iu" in x:
        return int(x["iu"])
    if "s" in x:
        return x["s"]
    if "fn" in x:
        return ("fn", x["fn"])
    if "ref" in x:
        return ("ref", x["ref"])
    if "zero" in x:
        return 0
    if "d" in x:
        return x["d"]
    return ("x", x.get("x"))


class Locals:
    """Names of a function's parameters and block-scope variables, looked up by position or type, so that rules never
    depend on how a local happens to be called."""

    def __init__(self, func):
        self.f = func
        self.params = [p["name"] for p in func.params]
        self.decls = []            # (name, type) in declaration order, parameters first
        for p in func.params:
            self.decls.append((p["name"], self._norm(p.get("ty", ""))))
        for n in func.walk():
            if n.k == "VarDecl" and n.name and n.get("dk") != "global":
                self.decls.append((n.name, self._norm(n.get("ty") or "")))

    @staticmethod
    def _norm(t):
        return " ".join(t.replace("const ", "").replace("restrict", "").replace("*", " * ").split())

    def param(self, i):
        if i >= len(self.params):
            raise AnalysisBroken("%s has no parameter #%d" % (self.f.name, i))
        return self.params[i]

    def of_type(self, ty):
        ty = self._norm(ty)
        return [n for n, t in self.decls if t == ty]

    def one(self, ty, what=""):
        c = self.of_type(ty)
        if len(c) != 1:
            raise AnalysisBroken("%s: expected exactly one variable of type `%s`%s, found %s" % (self.f.name, ty, " (%s)" % what if what else "", c))
        return c[0]

    def defined_by(self, pred):
        """names of locals one of whose definitions (initialiser or plain assignment) satisfies pred(expr)."""
        out = []
        for n in self.f.walk():
            if n.k == "VarDecl" and n.c and n.c[0] is not None and pred(n.c[0]) and n.name not in out:
                out.append(n.name)
            elif n.k == "BinaryOperator" and n.op == "=":
                l = strip_casts(n.c[0])
                if l is not None and l.k == "DeclRefExpr" and l.get("dk") in ("local", "param") and pred(n.c[1]) and l.name not in out:
                    out.append(l.name)
        return out
