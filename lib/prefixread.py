"""Reads of element K (a constant) of a counted array whose entries beyond the count are not valid objects.

OrcProgram.insns[] / OrcCompiler.insns[] are embedded arrays of which only the first n_insns entries are instructions; the
rest are zero, so `insns[K].opcode->name` is a NULL dereference unless n_insns > K.  A function that reads insns[K] must
either know `n_insns > K` at the read (a must-fact from a dominating test, possibly through a predicate helper), or every
one of its callers must know it at the call (one level: the fact is then a precondition of the function)."""
from facts import access_path, strip_casts, unparse
from flow import Facts, lower_bound


def _count_lb(conds, cpath):
    lb = lower_bound(conds, cpath)
    for c in conds:
        if c[0] == "switch":
            continue
        n, pol = c
        if access_path(strip_casts(n)) == cpath and pol:
            lb = max(lb or 0, 1)            # `if (x->n_insns)`: a count is never negative
    return lb


def check(db, funcs, rep, rule, where, array="insns", count="n_insns"):
    n = 0
    fcache = {}

    def facts_of(f):
        if f.name not in fcache:
            fcache[f.name] = Facts(f)
        return fcache[f.name]
    for f in funcs:
        sites = []
        for x in f.walk():
            base = k = None
            if x.k == "ArraySubscriptExpr" and (access_path(x.c[0]) or "").endswith("->" + array) and strip_casts(x.c[1]) is not None and strip_casts(x.c[1]).v is not None:
                base, k = access_path(x.c[0]), strip_casts(x.c[1]).v
            elif x.k == "BinaryOperator" and x.op == "+" and (access_path(x.c[0]) or "").endswith("->" + array) and strip_casts(x.c[1]) is not None \
                    and strip_casts(x.c[1]).v is not None and "*" in (x.ty or ""):
                base, k = access_path(x.c[0]), strip_casts(x.c[1]).v
            if base is None or k is None or k < 0:
                continue
            p = x.parent
            # a store that fills the slot (insns[n] = ...) or taking its address for appending is the writer side (R-CAP)
            while p is not None and p.k in ("ParenExpr", "CStyleCastExpr", "ImplicitCastExpr"):
                p = p.parent
            if p is not None and p.k == "BinaryOperator" and p.op == "=" and any(y is x for y in p.c[0].walk()):
                continue
            sites.append((x, base, k))
        for x, base, k in sites:
            cpath = base[:-len(array)] + count
            n += 1
            rep.saw(f)
            lb = _count_lb(facts_of(f).conds(x), cpath)
            if lb is not None and lb > k:
                rep.ok(rule, where(f), "%s[%d]@%s" % (base, k, f.name), "read where %s > %d is known" % (cpath, k))
                continue
            # precondition of the function: every caller knows it at the call
            root = base.split("->")[0]
            pidx = [i for i, pr in enumerate(f.params) if pr["name"] == root]
            callers = [(g, c) for g, c in db.callers().get(f.name, []) if g is not f]
            bad = None
            if not pidx:
                bad = "%s is not derived from a parameter" % base
            for g, c in callers:
                if bad:
                    break
                arg = access_path(strip_casts(c.args()[pidx[0]])) if len(c.args()) > pidx[0] else None
                if arg is None:
                    bad = "called from %s with `%s`" % (g.name, unparse(c.args()[pidx[0]])[:30] if len(c.args()) > pidx[0] else "?")
                    break
                gpath = arg + cpath[len(root):]
                glb = _count_lb(facts_of(g).conds(c), gpath)
                if glb is None or glb <= k:
                    bad = "%s calls it (line %s) without knowing %s > %d" % (g.name, c.line, gpath, k)
            rep.check(bad is None, rule, where(f), "%s[%d]@%s" % (base, k, f.name),
                      "%s > %d is a precondition established by all %d callers" % (cpath, k, len(callers)),
                      "%s reads %s[%d] (and dereferences what it holds) but %s: for a program with %d instruction%s the entry is all zeroes and "
                      "its opcode pointer NULL" % (f.name, base, k, bad, k, "" if k == 1 else "s"), line=x.line)
    return n
