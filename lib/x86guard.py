"""R-GUARD for the x86 backends: emission sites, their flag guards (through
helper calls), rule registrations with the rule set's required flags, and the
ISA level of each (table row, register class, operand form) as decided by
GNU as with restricted -march sets."""
import os
import re

from facts import AnalysisBroken, access_path, init_rows, strip_casts, unparse
from flow import Facts
import x86ref

LADDER = ["mmx", "sse", "sse2", "sse3", "ssse3", "sse4.1", "sse4.2", "avx", "avx2"]
SSE_FLAG_LEVEL = {"ORC_TARGET_SSE_SSE2": 2, "ORC_TARGET_SSE_SSE3": 3, "ORC_TARGET_SSE_SSSE3": 4, "ORC_TARGET_SSE_SSE4_1": 5,
                  "ORC_TARGET_SSE_SSE4_2": 6, "ORC_TARGET_AVX_AVX": 7, "ORC_TARGET_AVX_AVX2": 8}
# MMXEXT is set from the SSE2 cpuid bit or from AMD's MMXEXT bit: the weaker of
# the two (AMD K7) gives the SSE integer extensions on mm registers only => level 1
MMX_FLAG_LEVEL = {"ORC_TARGET_MMX_MMX": 0, "ORC_TARGET_MMX_MMXEXT": 1, "ORC_TARGET_MMX_SSSE3": 4, "ORC_TARGET_MMX_SSE4_1": 5,
                  "ORC_TARGET_MMX_SSE4_2": 6}


def flag_levels(target):
    return MMX_FLAG_LEVEL if target == "mmx" else SSE_FLAG_LEVEL


def asm_forms(tn, name, cls, form):
    """assembler strings (32-bit operands) for a row in a register class and operand form."""
    R = {"mm": ("%mm1", "%mm2", "%mm3"), "xmm": ("%xmm1", "%xmm2", "%xmm3"), "vex128": ("%xmm1", "%xmm2", "%xmm3"),
         "vex256": ("%ymm1", "%ymm2", "%ymm3")}.get(cls)
    mem = "16(%edi)"
    n = name
    out = []
    if cls in ("mm", "xmm"):
        s = R[0] if form == "reg" else mem
        if tn in ("MMXM_MMX", "SSEM_SSE", "SSEM_AVX"):
            out = ["%s %s, %s" % (n, s, R[1])]
        elif tn == "IMM8_MMXM_MMX":
            out = ["%s $1, %s, %s" % (n, s, R[1])]
        elif tn == "IMM8_MMX_SHIFT":
            out = ["%s $5, %s" % (n, R[1])]
        elif tn == "IMM8_MMX_REG_REV":
            out = ["%s $1, %s, %s" % (n, R[0], "%edx" if form == "reg" else mem)]
        elif tn in ("MMXM_MMX_REV", "SSEM_SSE_REV"):
            out = ["%s %s, %s" % (n, R[0], R[1] if form == "reg" else mem)]
        elif tn == "REGM_MMX":
            out = ["%s %s, %s" % (n, "%ecx" if form == "reg" else mem, R[1])]
        elif tn == "MMX_REGM_REV":
            out = ["%s %s, %s" % (n, R[0], "%edx" if form == "reg" else mem)]
        elif tn == "IMM8_REGM_MMX":
            out = ["%s $1, %s, %s" % (n, "%ecx" if form == "reg" else mem, R[1])]
        elif tn == "MEM":
            out = ["%s %s" % (n, mem)]
        elif tn == "NONE":
            out = [n]
    elif cls in ("vex128", "vex256"):
        v = "v" + n
        X = ("%xmm1", "%xmm2", "%xmm3")
        s = R[0] if form == "reg" else mem
        if tn in ("MMXM_MMX", "SSEM_SSE", "SSEM_AVX"):
            out = ["%s %s, %s, %s" % (v, s, R[1], R[2]), "%s %s, %s" % (v, s, R[2]),
                   "%s %s, %s" % (v, X[0] if form == "reg" else mem, R[2]), "%s %s, %s, %s, %s" % (v, R[0], s, R[1], R[2])]
            if cls == "vex256":
                # narrowing conversions take a ymm source and an xmm destination (vcvtpd2ps %ymm1, %xmm2; memory form with y suffix)
                out += ["%s %s, %s" % (v, R[0], X[2])] if form == "reg" else ["%sy %s, %s" % (v, mem, X[2])]
        elif tn in ("IMM8_MMXM_MMX", "IMM8_SSEM_AVX"):
            out = ["%s $1, %s, %s, %s" % (v, s, R[1], R[2]), "%s $1, %s, %s" % (v, s, R[2]),
                   "%s $1, %s, %s, %s" % (v, X[0] if form == "reg" else mem, R[1], R[2])]
        elif tn == "IMM8_AVX_SSEM":
            out = ["%s $1, %s, %s" % (v, "%ymm1", X[2] if form == "reg" else mem)]
        elif tn == "IMM8_MMX_SHIFT":
            out = ["%s $5, %s, %s" % (v, R[1], R[2])]
        elif tn == "IMM8_MMX_REG_REV":
            out = ["%s $1, %s, %s" % (v, X[0], "%edx" if form == "reg" else mem)]
        elif tn in ("MMXM_MMX_REV", "SSEM_SSE_REV"):
            out = ["%s %s, %s" % (v, R[0], R[1] if form == "reg" else mem)]
        elif tn == "REGM_MMX":
            out = ["%s %s, %s" % (v, "%ecx" if form == "reg" else mem, X[2])]
        elif tn == "MMX_REGM_REV":
            out = ["%s %s, %s" % (v, X[0], "%edx" if form == "reg" else mem)]
        elif tn == "IMM8_REGM_MMX":
            out = ["%s $1, %s, %s, %s" % (v, "%ecx" if form == "reg" else mem, X[1], X[2])]
        elif tn == "MEM":
            out = ["%s %s" % (v, mem)]
        elif tn == "NONE":
            out = [v]
    return out


class IsaOracle:
    def __init__(self, workdir):
        self.work = workdir
        os.makedirs(workdir, exist_ok=True)
        self.cache = {}

    def levels(self, lines):
        """min ladder index at which each line assembles (None = never)."""
        todo = [l for l in dict.fromkeys(lines) if l not in self.cache]
        if todo:
            res = {l: None for l in todo}
            for lvl in range(len(LADDER)):
                arch = "i486+" + "+".join(LADDER[:lvl + 1])
                pending = [l for l in todo if res[l] is None]
                if not pending:
                    break
                src = os.path.join(self.work, "isa%d.s" % lvl)
                with open(src, "w") as f:
                    f.write(".text\n")
                    for l in pending:
                        f.write("  %s\n" % l)
                import subprocess
                p = subprocess.run(["as", "--32", "-march=" + arch, src, "-o", os.path.join(self.work, "isa.o")],
                                   stdout=subprocess.PIPE, stderr=subprocess.PIPE, text=True)
                bad = set()
                for m in re.finditer(r"\.s:(\d+): Error", p.stderr):
                    bad.add(int(m.group(1)) - 2)
                if p.returncode != 0 and not bad:
                    raise AnalysisBroken("as failed: " + p.stderr[:300])
                for i, l in enumerate(pending):
                    if i not in bad:
                        res[l] = lvl
            self.cache.update(res)
        return [self.cache[l] for l in lines]


class Backend:
    """one of sse / mmx / avx"""

    def __init__(self, db, target):
        self.db = db
        self.t = target
        self.rules_tu = db.tu("orcrules-%s" % target)
        self.tus = [t for t in db.tus.values() if target in t.base and t.base.startswith("orc")]
        xt = db.tu("orcx86insn")
        self.rows = init_rows(xt.global_("orc_x86_opcodes"))
        ie = [e for e in xt.enumdecls if any(i[0] == "ORC_X86_punpcklbw" for i in e["items"])][0]
        te = [e for e in xt.enumdecls if any(i[0] == "ORC_X86_INSN_TYPE_MMXM_MMX" for i in e["items"])][0]
        self.idx = ie["items"]
        self.tname = {v: k[len("ORC_X86_INSN_TYPE_"):] for k, v in te["items"]}
        self.enums = xt.enums
        self._facts = {}
        self._sites = {}
        self.unresolved = []

    # ------------------------------------------------------------ registrations
    def registrations(self):
        f = self.db.func("orc_compiler_%s_register_rules" % self.t, self.rules_tu.base[:-2])
        cur = None
        out = []
        evs = []
        for n in f.walk():
            if n.k == "CallExpr" and n.name == "orc_rule_set_new":
                evs.append((n.line, n.id, "set", n.args()[2].v))
            elif n.k == "CallExpr" and n.name == "orc_rule_register":
                a = n.args()
                fn = strip_casts(a[2])
                evs.append((n.line, n.id, "reg", (strip_casts(a[1]).get("str"), fn.name if fn is not None and fn.k == "DeclRefExpr" else None)))
        # straight-line function: source order == execution order (checked: no branches)
        if any(len(b.succs) > 1 for b in f.blocks.values()):
            raise AnalysisBroken("%s is no longer straight-line" % f.name)
        for line, _id, kind, val in sorted(evs, key=lambda e: (e[0], e[1])):
            if kind == "set":
                cur = val
            else:
                if cur is None:
                    raise AnalysisBroken("rule registered before any rule set in %s" % f.name)
                out.append((val[1], val[0], cur))
        return out

    def flag_names(self, word):
        fl = flag_levels(self.t)
        return {n for n in fl if self.enums.get(n) is not None and word & self.enums[n]}

    # ------------------------------------------------------------------ sites
    def facts(self, f):
        k = (f.name, f.tu.base)
        if k not in self._facts:
            self._facts[k] = Facts(f)
        return self._facts[k]

    def guards_at(self, f, node):
        fl = flag_levels(self.t)
        out = set()
        for c in self.facts(f).conds(node):
            if c[0] == "switch" or not c[1]:
                continue
            cn = c[0]
            if cn.k == "BinaryOperator" and cn.op == "&" and "target_flags" in unparse(cn.c[0]):
                for x in cn.c[1].walk():
                    if x.k == "DeclRefExpr" and x.get("dk") == "enum":
                        # SSE and MMX flag enumerators alias numerically: map by value into this target's names
                        for nm in fl:
                            if self.enums.get(nm) == self.enums.get(x.name):
                                out.add(nm)
        return out

    def row_values(self, f, arg):
        """possible constant row indices of an opcode argument."""
        a = strip_casts(arg)
        if a.v is not None:
            return [a.v]
        if a.k == "ConditionalOperator":
            l, r = self.row_values(f, a.c[1]), self.row_values(f, a.c[2])
            return None if l is None or r is None else l + r
        if a.k == "ArraySubscriptExpr":
            b = strip_casts(a.c[0])
            if b.k == "DeclRefExpr":
                for n in f.walk():
                    if n.k == "VarDecl" and n.name == b.name and n.c and n.c[0] is not None and n.c[0].k == "InitListExpr":
                        vals = [x.v for x in n.c[0].kids()]
                        if all(v is not None for v in vals):
                            return vals
                for g in f.tu.globals:
                    if g["name"] == b.name and g.get("in") == f.name and "init" in g and "list" in g["init"]:
                        vals = [x.get("i") for x in g["init"]["list"]]
                        if all(v is not None for v in vals):
                            return vals
        if a.k == "DeclRefExpr":
            # single-assignment local
            from flow import single_defs
            d = single_defs(f).get(a.name)
            if d is not None:
                return self.row_values(f, d)
            # local assigned constants in several branches
            vals = []
            for n in f.walk():
                if n.k == "BinaryOperator" and n.op == "=" and access_path(n.c[0]) == a.name:
                    v = self.row_values(f, n.c[1])
                    if v is None:
                        return None
                    vals += v
                if n.k == "VarDecl" and n.name == a.name and n.c and n.c[0] is not None:
                    v = self.row_values(f, n.c[0])
                    if v is None:
                        return None
                    vals += v
            return vals or None
        return None

    def local_sites(self, f):
        """[(node, [row...], cls, form, guards)] emission sites inside f itself."""
        k = (f.name, f.tu.base)
        if k in self._sites:
            return self._sites[k]
        out = []
        for c in f.calls():
            if not c.name:
                continue
            vex = c.name.startswith("orc_vex_emit_")
            leg = c.name.startswith("orc_x86_emit_cpuinsn")
            if not (vex or leg) or len(c.args()) < 2:
                continue
            rows = self.row_values(f, c.args()[1])
            form = "mem" if ("memoffset" in c.name or "memindex" in c.name) else "reg"
            if vex:
                pv = strip_casts(c.args()[-1]).v
                cls = "vex256" if pv == self.enums.get("ORC_X86_AVX_VEX256_PREFIX") else "vex128" if pv == self.enums.get("ORC_X86_AVX_VEX128_PREFIX") else None
                if cls is None:
                    # prefix passed through a parameter: both widths possible
                    cls = "vex?"
            else:
                ctxn = (f.tu.base + " " + f.name).lower()
                cls = "mm" if "mmx" in ctxn else "xmm"
            if rows is None:
                self.unresolved.append((f, c))
                continue
            out.append((c, rows, cls, form, self.guards_at(f, c)))
        self._sites[k] = out
        return out

    def emitting_callees(self, f):
        """calls in f to functions (same library) that may emit instructions"""
        out = []
        for c in f.calls():
            if not c.name or c.name.startswith("orc_x86_emit_cpuinsn") or c.name.startswith("orc_vex_emit_"):
                continue
            if not self.db.has_func(c.name):
                continue
            g = None
            for cand in self.db.funcs(c.name):
                if not cand.static or cand.tu is f.tu:
                    g = cand
                    break
            if g is None or g.body is None:
                continue
            out.append((c, g))
        return out

    def all_sites(self, f, ctx=frozenset(), depth=0, stack=()):
        """emission sites reachable from f with accumulated guards."""
        res = []
        for c, rows, cls, form, g in self.local_sites(f):
            res.append((f, c, rows, cls, form, frozenset(ctx | g), stack))
        if depth >= 4:
            return res
        for c, g in self.emitting_callees(f):
            if g.name in stack or g is f:
                continue
            if not self._may_emit(g):
                continue
            cg = frozenset(ctx | self.guards_at(f, c))
            res += self.all_sites(g, cg, depth + 1, stack + (f.name,))
        return res

    def _may_emit(self, g, seen=None):
        seen = seen if seen is not None else set()
        k = (g.name, g.tu.base)
        if k in seen:
            return False
        seen.add(k)
        if self.local_sites(g):
            return True
        for c, h in self.emitting_callees(g):
            if self._may_emit(h, seen):
                return True
        return False
