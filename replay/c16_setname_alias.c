/* Replay driver (documentation only, never part of a check): orc_program_set_name (p, orc_program_get_name (p)) - the getter
 * hands out the owned string ("valid until the name is changed"), the setter freed it before duplicating its argument.
 * Run under valgrind/ASan: invalid read of freed memory in strdup before the repair, clean after. */
#include <orc/orc.h>
#include <stdio.h>
#include <string.h>
int main(void) {
  OrcProgram *p;
  orc_init();
  p = orc_program_new ();
  orc_program_set_name (p, "a_rather_long_program_name_so_that_the_heap_block_is_not_tiny");
  orc_program_set_name (p, orc_program_get_name (p));          /* rename to itself */
  orc_program_set_backup_name (p, "backup_function_name_long_enough");
  orc_program_set_backup_name (p, p->backup_name);
  printf ("%s\n", orc_program_get_name (p));
  orc_program_free (p);
  return 0;
}
