/* replay for C05/C06: a valid program whose rewritten form exceeds the compiler's instruction table (reported by a seeding sub-agent).
 * Build: cc c05_many_insns.c -I/repo -I/repo/_build -L/repo/_build/orc -lorc-0.4 -o /var/tmp/c05_many_insns ; run with LD_LIBRARY_PATH=/repo/_build/orc
 * Before the fix the compile returned ORC_COMPILE_RESULT_UNKNOWN_COMPILE (not fatal: "falls back to emulation") although no code
 * object existed; orc_executor_run() then aborted in the emulator.  A result that is not fatal must leave the program runnable. */
#include <orc/orc.h>
#include <stdio.h>
int main (void)
{
  OrcProgram *p;
  int i, res;
  orc_init ();
  p = orc_program_new ();
  orc_program_add_destination (p, 2, "d1");
  orc_program_add_source (p, 2, "s1");
  orc_program_add_source (p, 2, "s2");
  for (i = 0; i < 30; i++) orc_program_append_str (p, "addw", "d1", "s1", "s2");
  res = orc_program_compile (p);
  printf ("result 0x%x successful=%d fatal=%d orccode=%p\n", res, ORC_COMPILE_RESULT_IS_SUCCESSFUL (res), ORC_COMPILE_RESULT_IS_FATAL (res), (void *) p->orccode);
  if (!ORC_COMPILE_RESULT_IS_FATAL (res) && p->orccode == NULL) { printf ("FAIL: not fatal, yet nothing the emulator could run\n"); return 1; }
  if (!ORC_COMPILE_RESULT_IS_FATAL (res)) {
    orc_int16 d[8], a[8] = { 1, 2, 3, 4, 5, 6, 7, 8 }, b[8] = { 1, 1, 1, 1, 1, 1, 1, 1 };
    OrcExecutor *ex = orc_executor_new (p);
    orc_executor_set_n (ex, 8);
    orc_executor_set_array_str (ex, "d1", d); orc_executor_set_array_str (ex, "s1", a); orc_executor_set_array_str (ex, "s2", b);
    orc_executor_run (ex);
    printf ("ran: d[0]=%d\n", d[0]);
  }
  printf ("PASS\n");
  return 0;
}
