.function addc
.dest 8 d1 orc_int64
.source 8 s1 orc_int64
.const 4 c1 0x80000000

addq d1, s1, c1
