#include <stdio.h>
#include "const4q.h"
int main(void){
  orc_int64 s[20], d[20]; int i;
  for(i=0;i<20;i++) s[i]=i;
  addc(d,s,20);
  printf("d[1]=%lld d[19]=%lld\n",(long long)d[1],(long long)d[19]);
  return 0;
}
