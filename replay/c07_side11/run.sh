#!/bin/sh
# `.const 4 c1 0x80000000` used by addq: what JIT, backup, emulate and the Orc-free build compute.  exit 0 = all four agree.
TOP=${ORC_TOP:-/repo}; B=${ORC_BUILD:-$TOP/_build}
HERE=$(cd "$(dirname "$0")" && pwd)
W=${TMPDIR:-/var/tmp}/c07_side11.$$
rm -rf "$W"; mkdir -p "$W" || exit 2
trap 'rm -rf "$W"' EXIT
LD_LIBRARY_PATH=$B/orc; export LD_LIBRARY_PATH
t=const4q
$B/tools/orcc --header -o "$W/$t.h" "$HERE/$t.orc" || exit 2
$B/tools/orcc --implementation -o "$W/$t.c" "$HERE/$t.orc" || exit 2
cc -O2 -I$TOP -I$B -I"$W" "$HERE/${t}_main.c" "$W/$t.c" -o "$W/$t" -L$B/orc -lorc-0.4 -lm -Wl,-rpath,$B/orc || exit 2
cc -O2 -DDISABLE_ORC -I$TOP -I$B -I"$W" "$HERE/${t}_main.c" "$W/$t.c" -o "$W/${t}_noorc" -lm || exit 2
a=$(ORC_CODE= "$W/$t"); b=$(ORC_CODE=backup "$W/$t"); c=$(ORC_CODE=emulate "$W/$t"); d=$("$W/${t}_noorc")
echo "JIT: $a"; echo "backup: $b"; echo "emulate: $c"; echo "DISABLE_ORC: $d"
[ "$a" = "$b" ] && [ "$b" = "$c" ] && [ "$c" = "$d" ] && { echo PASS; exit 0; }
echo FAIL; exit 1
