/* Replay: registry capacities reached through the public registration API */
#include <orc/orc.h>
#include <stdio.h>
#include <stdlib.h>
#include <string.h>
static void emu(OrcOpcodeExecutor *ex, int off, int n) {}
static OrcStaticOpcode ops[] = { { "myop", 0, {2}, {2}, emu }, { "" } };
static OrcTarget extra[8];
static unsigned int noflags(void) { return 0; }
int main(int argc, char **argv) {
  int k = atoi(argv[1]), i;
  orc_init();
  if (k == 0) {
    OrcTarget *t = orc_target_get_by_name("sse");
    orc_opcode_register_static(ops, "my");
    for (i = 0; i < 12; i++) { OrcRuleSet *rs = orc_rule_set_new(orc_opcode_set_get("my"), t, 0); printf("%d n_rule_sets=%d rs=%p\n", i, t->n_rule_sets, (void*)rs); if (!rs) break; }
  } else {
    for (i = 0; i < 8; i++) { memset(&extra[i], 0, sizeof extra[i]); extra[i].name = "x"; extra[i].get_default_flags = noflags; orc_target_register(&extra[i]); printf("registered %d\n", i); }
  }
  return 0;
}
