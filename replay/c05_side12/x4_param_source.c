/* `x4 convlw d1, p1`: an 8-byte destination from a 4-byte parameter under x4 - the parameter is loaded into a compiler temporary
 * of 4 * 4 = 16 bytes, twice ORC_MAX_VAR_SIZE.  orc_compiler_check_sizes exempted parameter and constant sources from the size
 * limit, the compile "succeeds", and emulation writes past the 8-bytes-per-element scratch block of the temporary.
 * Run under valgrind / ASan or watch glibc abort in free().  exit 0 = compile refused or emulation clean. */
#include <stdio.h>
#include <stdlib.h>
#include <string.h>
#include <orc/orc.h>

int main (int argc, char **argv)
{
  static const char *text = ".function f\n.dest 8 d1\n.param 4 p1\nx4 convlw d1, p1\n";
  OrcProgram **ps; OrcExecutor *ex; OrcCompileResult r; orc_int64 d[64];
  const char *target = argc > 1 ? argv[1] : "c";
  orc_init ();
  if (orc_parse (text, &ps) != 1) return 2;
  r = orc_program_compile_full (ps[0], orc_target_get_by_name (target), orc_target_get_default_flags (orc_target_get_by_name (target)));
  printf ("compile for %s: %#x\n", target, r);
  if (ORC_COMPILE_RESULT_IS_FATAL (r)) { puts ("refused: PASS"); return 0; }
  ex = orc_executor_new (ps[0]);
  orc_executor_set_n (ex, 40);
  orc_executor_set_array_str (ex, "d1", d);
  orc_executor_set_param_str (ex, "p1", 0x00030002);
  orc_executor_emulate (ex);
  orc_executor_free (ex);
  orc_program_free (ps[0]);
  puts ("emulated and freed: PASS");
  return 0;
}
