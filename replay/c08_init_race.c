/* Replay: concurrent library initialisation under ThreadSanitizer */
#include <orc/orc.h>
#include <pthread.h>
#include <stdio.h>
static void *worker(void *arg) { orc_init(); return NULL; }
int main(void) {
  pthread_t t[4]; int i;
  for (i = 0; i < 4; i++) pthread_create(&t[i], NULL, worker, NULL);
  for (i = 0; i < 4; i++) pthread_join(t[i], NULL);
  printf("done\n");
  return 0;
}
