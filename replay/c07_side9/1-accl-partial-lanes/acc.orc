.function acc_test
.accumulator 4 a1 int
.source 4 s1 int
.temp 4 t

addl t, s1, 1
accl a1, t
