#include <stdio.h>
#include <stdlib.h>
#include "acc.h"
int main(void){
  int fail=0;
  int *buf = malloc(4*1100);
  for (int i=0;i<1100;i++) buf[i]=i*7+3;
  for (int off=0; off<9; off++) for (int n=0;n<70;n++){
    int a=12345; int exp=0; for(int i=0;i<n;i++) exp+=buf[off+i]+1;
    acc_test(&a, buf+off, n);
    if (a!=exp){ if(fail<10)printf("off %d n %d got %d exp %d\n",off,n,a,exp); fail++; }
  }
  printf(fail?"FAIL %d\n":"PASS\n",fail); return fail!=0;
}
