.function accsel_test
.accumulator 4 a1 int
.source 8 s1 double
.temp 8 t1
.temp 4 t2

cmpltd t1, 0.0L, s1
select0ql t2, t1
accl a1, t2
