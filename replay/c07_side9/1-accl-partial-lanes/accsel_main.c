#include <stdio.h>
#include "accsel.h"
int main(void){
  double s[67]; int i, a = 0, e = 0;
  for (i=0;i<67;i++) { s[i] = (i%3) ? 1.0+i : -1.0; if (s[i] > 0) e--; }
  accsel_test (&a, s, 67);
  printf ("accsel_test: got %d expected %d %s\n", a, e, a==e ? "PASS":"FAIL");
  return a != e;
}
