#!/bin/sh
# Reproducers for defects of the UNCHANGED tree (independent of the seeded change).
ROOT=/repo
B=/repo/_build
HERE=$(cd "$(dirname "$0")" && pwd)
OUT=$HERE/out; mkdir -p "$OUT"
build () { # dir name
  "$B/tools/orcc" --implementation -o "$OUT/$2.c" "$HERE/$1/$2.orc" || return 1
  "$B/tools/orcc" --header -o "$OUT/$2.h" "$HERE/$1/$2.orc" || return 1
  cc -O1 -I"$OUT" -I$ROOT -I$B "$OUT/$2.c" "$HERE/$1/$2_main.c" -o "$OUT/$2" -L$B/orc -lorc-0.4 -lm -Wl,-rpath,$B/orc || return 1
  cc -O1 -DDISABLE_ORC -I"$OUT" -I$ROOT -I$B "$OUT/$2.c" "$HERE/$1/$2_main.c" -o "$OUT/$2_noorc" -lm
}
echo "== 1a: accl of a value computed with a constant (JIT, any x86 target)"
build 1-accl-partial-lanes acc && { "$OUT/acc" | tail -2; ORC_CODE=emulate "$OUT/acc"; }
echo "== 1b: accl of a select0ql result (ORC_TARGET=sse)"
build 1-accl-partial-lanes accsel && { "$OUT/accsel"; ORC_TARGET=sse "$OUT/accsel"; ORC_CODE=emulate "$OUT/accsel"; }
echo "== 2: .param 4 used by a 64-bit opcode: JIT, backup, emulate, DISABLE_ORC"
build 2-param4-in-64bit-op pq && { "$OUT/pq"; ORC_CODE=backup "$OUT/pq"; ORC_CODE=emulate "$OUT/pq"; "$OUT/pq_noorc"; }
echo "== 3: two named constants with the same value and size"
"$B/tools/orcc" --implementation -o "$OUT/cc.c" "$HERE/3-equal-named-constants/cc.orc"; echo "orcc exit status $?"
