.function cc_test
.dest 4 d1 int
.source 4 s1 int
.const 4 c1 5
.const 4 c2 5
.temp 4 t

addl t, s1, c1
addl d1, t, c2
