/* Side finding probe: C backend and a 64-bit constant used as the scalar
 * (shift) operand / by a rule that prints it with c_get_name_int(). */
#include <stdio.h>
#include <stdlib.h>
#include <orc/orc.h>
int main (int argc, char **argv)
{
  OrcTarget *t; OrcProgram *p; int r;
  const char *tn = argc > 1 ? argv[1] : "c";
  orc_init ();
  t = orc_target_get_by_name (tn);
  p = orc_program_new ();
  orc_program_add_destination (p, 8, "d1");
  orc_program_add_source (p, 8, "s1");
  orc_program_add_constant_int64 (p, 8, 0x100000000LL, "c1");
  orc_program_append_str (p, "shlq", "d1", "s1", "c1");
  r = orc_program_compile_full (p, t, orc_target_get_default_flags (t));
  printf ("%s: result %#x (%s)\n", tn, r, orc_program_get_error (p));
  orc_program_free (p);
  return 0;
}
