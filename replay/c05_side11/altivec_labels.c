/* Side finding: the altivec back end hands out label numbers >= ORC_N_LABELS.
 *
 * orc_compiler_powerpc_assemble() runs the loop body twice (once to discover
 * the constants, once for real) and between the passes clears labels[],
 * constants[].label and n_fixups - but not compiler->n_labels.  Every pooled
 * constant therefore draws a fresh label in each pass: with N pooled constants
 * the second pass uses labels 3+N .. 2+2N.  N may be as large as
 * ORC_N_CONSTANTS (20), ORC_N_LABELS is 40, and powerpc_add_label() /
 * powerpc_do_fixups() index compiler->labels[] without a bound check.
 *
 * This program needs 19+ pooled constants and prints the highest label number
 * that appears in the listing.
 */
#include <stdio.h>
#include <stdlib.h>
#include <string.h>
#include <orc/orc.h>

int main (int argc, char **argv)
{
  OrcTarget *t;
  OrcProgram *p;
  OrcCompileResult r;
  const char *asm_code, *s;
  char name[16];
  int i, max = -1;

  orc_init ();
  t = orc_target_get_by_name ("altivec");
  if (!t) { printf ("no altivec backend\n"); return 0; }

  p = orc_program_new ();
  orc_program_add_destination (p, 4, "d1");
  orc_program_add_source (p, 4, "s1");
  orc_program_add_temporary (p, 4, "t1");
  orc_program_add_temporary (p, 2, "w1");
  orc_program_add_temporary (p, 2, "w2");
  orc_program_add_temporary (p, 1, "b1");
  orc_program_add_temporary (p, 8, "q1");
  orc_program_append_str (p, "loadl", "t1", "s1", NULL);
  /* 8 program constants, none of them a small splat: 8 pool entries */
  for (i = 0; i < (argc > 2 ? atoi (argv[2]) : 0); i++) {
    sprintf (name, "c%d", i + 1);
    orc_program_add_constant (p, 4, 0x12345 + i * 977, name);
    orc_program_append_str (p, "addl", "t1", "t1", name);
  }
  /* rules that bring permute / mask constants of their own */
  {
    static const char *ops[][4] = {
      { "swapl", "t1", "t1", NULL },
      { "select0lw", "w1", "t1", NULL },
      { "select1lw", "w2", "t1", NULL },
      { "swapw", "w1", "w1", NULL },
      { "select0wb", "b1", "w1", NULL },
      { "convsbw", "w1", "b1", NULL },
      { "select1wb", "b1", "w2", NULL },
      { "convsbw", "w2", "b1", NULL },
      { "mergewl", "t1", "w1", "w2" },
      { "convlw", "w1", "t1", NULL },
      { "convhlw", "w2", "t1", NULL },
      { "mergewl", "t1", "w1", "w2" },
      { "mergelq", "q1", "t1", "t1" },
      { "swaplq", "q1", "q1", NULL },
      { "swapq", "q1", "q1", NULL },
      { "convql", "t1", "q1", NULL },
      { "mergelq", "q1", "t1", "t1" },
      { "select1ql", "t1", "q1", NULL },
      { "convlf", "t1", "t1", NULL },
      { "addf", "t1", "t1", "t1" },
      { "swapwl", "t1", "t1", NULL },
      { "convhlw", "w1", "t1", NULL },
      { "convhwb", "b1", "w1", NULL },
      { "mergebw", "w1", "b1", "b1" },
      { "mulhsw", "w1", "w1", "w2" },
      { "mulhuw", "w1", "w1", "w2" },
      { "convswl", "t1", "w1", NULL },
      { "mulll", "t1", "t1", "t1" },
      { "mergelq", "q1", "t1", "t1" },
      { "splatw3q", "q1", "q1", NULL },
      { "convql", "t1", "q1", NULL },
      { "convhwb", "b1", "w2", NULL },
      { "convfl", "t1", "t1", NULL },
      { "convld", "q1", "t1", NULL },
      { "mind", "q1", "q1", "q1" },
      { "convdl", "t1", "q1", NULL },
      { "convld", "q1", "t1", NULL },
      { "convdf", "t1", "q1", NULL },
      { "mulhsb", "b1", "b1", "b1" },
      { "mullb", "b1", "b1", "b1" },
    };
    int n_ops = argc > 1 ? atoi (argv[1]) : 35;
    for (i = 0; i < n_ops && i < (int)(sizeof(ops)/sizeof(ops[0])); i++)
      orc_program_append_str (p, ops[i][0], ops[i][1], ops[i][2], ops[i][3]);
  }
  orc_program_append_str (p, "storel", "d1", "t1", NULL);

  r = orc_program_compile_full (p, t, orc_target_get_default_flags (t));
  printf ("result %#x (%s)\n", r, orc_program_get_error (p));
  asm_code = orc_program_get_asm_code (p);
  if (asm_code) {
    /* label definitions look like "<number>:\n" at the start of a line */
    for (s = asm_code; s; s = strchr (s, '\n') ? strchr (s, '\n') + 1 : NULL) {
      int n, len = 0;
      if (sscanf (s, "%d:%n", &n, &len) == 1 && len > 0 && s[len] == '\n')
        if (n > max) max = n;
    }
  }
  printf ("highest label defined: %d (ORC_N_LABELS is 40)\n", max);
  orc_program_free (p);
  return max >= 40;
}
