/* Replay driver (documentation only): programs beyond the compiler's fixed tables. */
#include <orc/orc.h>
#include <stdio.h>
#include <stdlib.h>
#include <string.h>
int main(int argc, char **argv) {
  int k = atoi(argv[1]), n = argc > 2 ? atoi(argv[2]) : 60, i;
  OrcProgram *p; OrcCompileResult r;
  orc_init();
  p = orc_program_new();
  orc_program_add_destination(p, 2, "d1");
  orc_program_add_source(p, 2, "s1");
  orc_program_add_source(p, 2, "s2");
  orc_program_add_temporary(p, 2, "t1");
  orc_program_add_temporary(p, 4, "t2");
  if (k == 0) {          /* insns[] expansion: every insn reads two arrays and writes the dest */
    for (i = 0; i < n; i++) orc_program_append_str(p, "addw", "d1", "s1", "s2");
  } else if (k == 1) {   /* many temporaries: loads only */
    for (i = 0; i < n; i++) orc_program_append_str(p, "addw", "t1", "s1", "s2");
    orc_program_append_str(p, "copyw", "d1", "t1", NULL);
  } else if (k == 2) {   /* code buffer: long rules */
    orc_program_append_str(p, "copyw", "t1", "s1", NULL);
    for (i = 0; i < n; i++) orc_program_append_str(p, "divluw", "t1", "t1", "s2");
    orc_program_append_str(p, "copyw", "d1", "t1", NULL);
  } else if (k == 3) {   /* distinct compiler constants */
    static const char *ops[] = {"absw","avgsw","cmpgtsw","signw","subusw","addusw","swapw","maxuw","minuw","mulhsw","mulhuw","avguw","shruw","shrsw","shlw",NULL};
    orc_program_append_str(p, "copyw", "t1", "s1", NULL);
    for (i = 0; ops[i]; i++) orc_program_append_str(p, ops[i], "t1", "t1", "s2");
    orc_program_append_str(p, "convssswb", "t1", "t1", NULL);
    orc_program_append_str(p, "copyw", "d1", "t1", NULL);
  }
  else if (k == 4) { /* > ORC_N_CONSTANTS distinct compiler constants */
    char nm[8], val[8];
    orc_program_add_temporary(p, 1, "b1");
    orc_program_add_temporary(p, 8, "q1");
    orc_program_append_str(p, "convwb", "b1", "s1", NULL);
    for (i = 1; i <= 7; i++) { sprintf(nm, "c%d", i); orc_program_add_constant(p, 1, i, nm); }
    for (i = 1; i <= 7; i++) { sprintf(nm, "c%d", i); orc_program_append_str(p, "shlb", "b1", "b1", nm); }
    for (i = 1; i <= 7; i++) { sprintf(nm, "c%d", i); orc_program_append_str(p, "shrub", "b1", "b1", nm); }
    orc_program_append_str(p, "avgsb", "b1", "b1", "b1");
    orc_program_append_str(p, "convsbw", "t1", "b1", NULL);
    orc_program_append_str(p, "swapw", "t1", "t1", NULL);
    orc_program_append_str(p, "avgsw", "t1", "t1", "t1");
    orc_program_append_str(p, "div255w", "t1", "t1", NULL);
    orc_program_append_str(p, "divluw", "t1", "t1", "s2");
    orc_program_append_str(p, "convswl", "t2", "t1", NULL);
    orc_program_append_str(p, "swapl", "t2", "t2", NULL);
    orc_program_append_str(p, "swapwl", "t2", "t2", NULL);
    orc_program_append_str(p, "addssl", "t2", "t2", "t2");
    orc_program_append_str(p, "convslq", "q1", "t2", NULL);
    orc_program_append_str(p, "swapq", "q1", "q1", NULL);
    orc_program_append_str(p, "convsssql", "t2", "q1", NULL);
    orc_program_append_str(p, "select0lw", "t1", "t2", NULL);
    orc_program_append_str(p, "select1wb", "b1", "t1", NULL);
    orc_program_append_str(p, "convubw", "d1", "b1", NULL);
  }
  else if (k == 5) { /* altivec: many distinct vector constants */
    orc_program_add_temporary(p, 1, "b1");
    orc_program_add_temporary(p, 1, "b2");
    orc_program_add_temporary(p, 2, "w2");
    orc_program_append_str(p, "convwb", "b1", "s1", NULL);
    orc_program_append_str(p, "absb", "b1", "b1", NULL);
    orc_program_append_str(p, "signb", "b1", "b1", NULL);
    orc_program_append_str(p, "mullb", "b1", "b1", "b1");
    orc_program_append_str(p, "mulhsb", "b1", "b1", "b1");
    orc_program_append_str(p, "mulhub", "b1", "b1", "b1");
    orc_program_append_str(p, "convubw", "t1", "b1", NULL);
    orc_program_append_str(p, "absw", "t1", "t1", NULL);
    orc_program_append_str(p, "signw", "t1", "t1", NULL);
    orc_program_append_str(p, "swapw", "t1", "t1", NULL);
    orc_program_append_str(p, "mulhsw", "t1", "t1", "t1");
    orc_program_append_str(p, "mulhuw", "t1", "t1", "t1");
    orc_program_append_str(p, "div255w", "t1", "t1", NULL);
    orc_program_append_str(p, "select0wb", "b1", "t1", NULL);
    orc_program_append_str(p, "select1wb", "b2", "t1", NULL);
    orc_program_append_str(p, "mergebw", "t1", "b1", "b2");
    orc_program_append_str(p, "convhwb", "b1", "t1", NULL);
    orc_program_append_str(p, "splitwb", "b1", "b2", "t1");
    orc_program_append_str(p, "convuwl", "t2", "t1", NULL);
    orc_program_append_str(p, "absl", "t2", "t2", NULL);
    orc_program_append_str(p, "signl", "t2", "t2", NULL);
    orc_program_append_str(p, "swapl", "t2", "t2", NULL);
    orc_program_append_str(p, "swapwl", "t2", "t2", NULL);
    orc_program_append_str(p, "mulll", "t2", "t2", "t2");
    orc_program_append_str(p, "select0lw", "t1", "t2", NULL);
    orc_program_append_str(p, "select1lw", "w2", "t2", NULL);
    orc_program_append_str(p, "mergewl", "t2", "t1", "w2");
    orc_program_append_str(p, "convhlw", "t1", "t2", NULL);
    orc_program_append_str(p, "splitlw", "t1", "w2", "t2");
    orc_program_append_str(p, "addw", "d1", "t1", "w2");
  }
  r = argc > 3 ? orc_program_compile_for_target(p, orc_target_get_by_name(argv[3])) : orc_program_compile(p);
  printf("result=%d (%s) err=%s\n", r, ORC_COMPILE_RESULT_IS_SUCCESSFUL(r) ? "ok" : ORC_COMPILE_RESULT_IS_FATAL(r) ? "fatal" : "fallback", orc_program_get_error(p));
  orc_program_free(p);
  return 0;
}
