/* replay for C05: compile OK, make the program erroneous, compile again (found by a seeding sub-agent, confirmed here).
 * Build: cc c05_stale_after_fatal.c -I/repo -I/repo/_build -L/repo/_build/orc -lorc-0.4 -o /var/tmp/c05_stale_after_fatal
 * Before the fix the second compile returned a fatal result from the early "program carries an error" check while
 * program->orccode and code_exec still pointed at the machine code of the first compile. */
#include <stdio.h>
#include <orc/orc.h>
int main(void)
{
  OrcProgram *p; int r;
  orc_init();
  p = orc_program_new_dss(2,2,2);
  orc_program_append(p, "addw", ORC_VAR_D1, ORC_VAR_S1, ORC_VAR_S2);
  r = orc_program_compile(p);
  printf("first: 0x%x orccode=%p code_exec=%p\n", r, (void*)p->orccode, p->code_exec);
  orc_program_append(p, "nosuchopcode", ORC_VAR_D1, ORC_VAR_S1, ORC_VAR_S2);
  r = orc_program_compile(p);
  printf("second: 0x%x fatal=%d orccode=%p code_exec=%p (emulate=%p)\n", r, ORC_COMPILE_RESULT_IS_FATAL(r), (void*)p->orccode, p->code_exec, (void*)orc_executor_emulate);
  return 0;
}
