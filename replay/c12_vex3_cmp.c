/* replay for C12/C18: a VEX compare (type SSEM_SSE, two sources) with exactly one of dest / second source in xmm8..15.
 * Build: cc c12_vex3_cmp.c -I/repo -I/repo/_build -L/repo/_build/orc -lorc-0.4 -o /var/tmp/c12_vex3_cmp
 * Run:   LD_LIBRARY_PATH=/repo/_build/orc /var/tmp/c12_vex3_cmp > /var/tmp/code.bin 2> /var/tmp/listing.s
 *        objdump -D -b binary -mi386:x86-64 /var/tmp/code.bin | grep -i vcmp ; grep vcmp /var/tmp/listing.s
 * Before the fix output_3byte_vex_opcode computed VEX.R from src[1] and VEX.B from dest for this type, the reverse of what
 * orc_vex_insn_output_modrm puts into ModRM.reg / ModRM.rm. */
#include <orc/orc.h>
#include <stdio.h>
#include <string.h>
int main (void)
{
  OrcProgram *p;
  OrcExecutor *ex;
  OrcTarget *t;
  int i, bad = 0;
  char nm[8];
  float s[8] = { 1.5f, 2.25f, -3.0f, 100.0f, 0.1f, 7.0f, -8.5f, 1e6f };
  float d[8], e[8];
  orc_init ();
  t = orc_target_get_by_name ("avx");
  p = orc_program_new ();
  orc_program_add_destination (p, 4, "d1");
  orc_program_add_source (p, 4, "s1");
  orc_program_add_temporary (p, 4, "t1");
  for (i = 0; i < 8; i++) { sprintf (nm, "p%d", i + 1); orc_program_add_parameter_float (p, 4, nm); }
  orc_program_append_str (p, "addf", "t1", "s1", "p1");
  for (i = 1; i < 8; i++) { sprintf (nm, "p%d", i + 1); orc_program_append_str (p, "addf", "t1", "t1", nm); }
  orc_program_add_temporary (p, 4, "t2");
  orc_program_append_str (p, "cmpeqf", "t2", "t1", "p2");
  orc_program_append_str (p, "andl", "d1", "t2", "t1");
  if (orc_program_compile_full (p, t, orc_target_get_default_flags (t)) != ORC_COMPILE_RESULT_OK) { fprintf (stderr, "not compiled for avx\n"); return 2; }
  fprintf (stderr, "%s", orc_program_get_asm_code (p));
  fwrite (p->orccode->code, 1, p->orccode->code_size, stdout);
  for (i = 0; i < 2; i++) {
    ex = orc_executor_new (p);
    orc_executor_set_n (ex, 8);
    orc_executor_set_array_str (ex, "d1", i ? e : d);
    orc_executor_set_array_str (ex, "s1", s);
    /* all parameters zero: t1 == s1 */
    if (i) orc_executor_emulate (ex); else orc_executor_run (ex);
    orc_executor_free (ex);
  }
  for (i = 0; i < 8; i++) {
    fprintf (stderr, "# (%g == 0) & x: native %g emulated %g%s\n", s[i], d[i], e[i], memcmp (d + i, e + i, 4) == 0 ? "" : "  <-- differs");
    bad += memcmp (d + i, e + i, 4) != 0;
  }
  return bad != 0;
}
