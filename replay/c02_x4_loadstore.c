/* replay for C02: explicit x4 loadb / x4 storeb through the emulator with n > 16 (found by three seeding sub-agents, confirmed here).
 * Build: cc c02_x4_loadstore.c -I/repo -I/repo/_build -L/repo/_build/orc -lorc-0.4 -o /var/tmp/c02_x4_loadstore
 * Run:   LD_LIBRARY_PATH=/repo/_build/orc /var/tmp/c02_x4_loadstore
 * Before the fix orc_executor_emulate scaled the element count of an x2/x4 instruction but not the chunk offset, so the explicit
 * loads and stores of chunks after the first indexed the arrays at offset instead of offset << shift. */
#include <stdio.h>
#include <stdlib.h>
#include <string.h>
#include <orc/orc.h>
#include <orc/orcparse.h>

static const char *src =
".function f\n"
".dest 4 d\n"
".source 4 s\n"
".temp 4 t\n"
"x4 loadb t, s\n"
"x4 addb t, t, 1\n"
"x4 storeb d, t\n";

int main (void)
{
  OrcProgram **progs; OrcProgram *p; OrcExecutor *ex;
  unsigned char s[4*40], d[4*40];
  int n = 40, i, bad = 0, nprog;
  char *log = NULL;
  orc_init ();
  nprog = orc_parse_full (src, &progs, &log);
  if (nprog < 1) { printf ("parse failed %s\n", log ? log : ""); return 2; }
  p = progs[0];
  orc_program_compile (p);
  printf ("compile error: %s\n", orc_program_get_error (p) ? orc_program_get_error (p) : "(none)");
  for (i = 0; i < 4*n; i++) { s[i] = i; d[i] = 0xee; }
  ex = orc_executor_new (p);
  orc_executor_set_n (ex, n);
  orc_executor_set_array_str (ex, "s", s);
  orc_executor_set_array_str (ex, "d", d);
  orc_executor_emulate (ex);
  for (i = 0; i < 4*n; i++) {
    if (d[i] != (unsigned char)(s[i] + 1)) { if (bad < 8) printf ("emulate: d[%d]=%d want %d\n", i, d[i], (unsigned char)(s[i]+1)); bad++; }
  }
  printf ("emulate mismatches: %d\n", bad);
  {
    int jbad = 0;
    for (i = 0; i < 4*n; i++) d[i] = 0xee;
    orc_executor_run (ex);   /* JIT when available */
    for (i = 0; i < 4*n; i++) if (d[i] != (unsigned char)(s[i] + 1)) jbad++;
    printf ("orc_executor_run (JIT) mismatches: %d\n", jbad);
  }
  return bad ? 1 : 0;
}
