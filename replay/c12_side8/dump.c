/* dump.c: compile every program of an .orc file for TARGET with FLAGS,
 * write NAME.s (listing) and NAME.bin (machine code) into OUTDIR.
 * usage: dump file.orc target flags|default outdir
 */
#include <stdio.h>
#include <stdlib.h>
#include <string.h>
#include <orc/orc.h>
#include <orc/orcparse.h>

static char *slurp (const char *fn)
{
  FILE *f = fopen (fn, "rb");
  long n;
  char *b;
  if (!f) { perror (fn); exit (2); }
  fseek (f, 0, SEEK_END); n = ftell (f); fseek (f, 0, SEEK_SET);
  b = malloc (n + 1);
  if (fread (b, 1, n, f) != (size_t) n) exit (2);
  b[n] = 0;
  fclose (f);
  return b;
}

int main (int argc, char **argv)
{
  OrcProgram **progs;
  OrcTarget *t;
  unsigned int flags;
  int n, i;
  char fn[512];

  if (argc < 5) return 2;
  orc_init ();
  n = orc_parse (slurp (argv[1]), &progs);
  t = orc_target_get_by_name (argv[2]);
  if (!t) { fprintf (stderr, "no target %s\n", argv[2]); return 2; }
  if (strcmp (argv[3], "default") == 0)
    flags = orc_target_get_default_flags (t);
  else
    flags = strtoul (argv[3], NULL, 0);
  for (i = 0; i < n; i++) {
    OrcCompileResult r = orc_program_compile_full (progs[i], t, flags);
    FILE *f;
    if (!ORC_COMPILE_RESULT_IS_SUCCESSFUL (r)) {
      fprintf (stderr, "%s: compile failed (%d) %s\n", progs[i]->name, r,
          orc_program_get_error (progs[i]) ? orc_program_get_error (progs[i]) : "");
      continue;
    }
    snprintf (fn, sizeof fn, "%s/%s.s", argv[4], progs[i]->name);
    f = fopen (fn, "w");
    fputs (orc_program_get_asm_code (progs[i]), f);
    fclose (f);
    snprintf (fn, sizeof fn, "%s/%s.bin", argv[4], progs[i]->name);
    f = fopen (fn, "wb");
    fwrite (progs[i]->orccode->code, 1, progs[i]->orccode->code_size, f);
    fclose (f);
    printf ("%s\n", progs[i]->name);
  }
  return 0;
}
