.function t_convdl
.dest 4 d1
.source 8 s1
convdl d1, s1

.function t_convld
.dest 8 d1
.source 4 s1
convld d1, s1

.function t_convfd
.dest 8 d1
.source 4 s1
convfd d1, s1

.function t_convdf
.dest 4 d1
.source 8 s1
convdf d1, s1
