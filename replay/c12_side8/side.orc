.function side_2d
.flags 2d
.dest 2 d
.source 2 s
addw d, d, s

.function side_shift_by_param
.dest 2 d
.source 2 s
.param 2 p
shrsw d, s, p

.function side_convswl
.dest 4 d
.source 2 s
convswl d, s

.function side_mulhsl
.dest 4 d
.source 4 s1
.source 4 s2
mulhsl d, s1, s2
