#!/bin/sh
# Side findings: listing != machine code on the UNCHANGED tree (single thread).
# sh run.sh   -- prints the mismatches; exit 1 if any was seen.
here=$(cd "$(dirname "$0")" && pwd)
B=/repo/_build
S=/repo
out=${TMPDIR:-/tmp}/c12_seed8_extra.$$
mkdir -p "$out" || exit 2
trap 'rm -rf "$out"' EXIT
${CC:-cc} -o "$out/dump" "$here/dump.c" -I"$S" -I"$B" -L"$B/orc" -lorc-0.4 \
    -Wl,-rpath,"$B/orc" || exit 2

dis () {
  objdump -D -b binary -m i386:x86-64 "$1" | awk -F'\t' '
    /^ *[0-9a-f]+:\t/ {
      if (NF < 3) next
      a = $1; sub(/^ */, "", a); sub(/:$/, "", a)
      t = $3; gsub(/ +/, " ", t); sub(/ +$/, "", t)
      if (t ~ /^(nop|xchg %ax,%ax|data16|cs nopw|nopw|nopl)/) { pad[npad++] = a; next }
      for (i = 0; i < npad; i++) idx[pad[i]] = n
      npad = 0
      idx[a] = n; text[n++] = t
    }
    END {
      for (i = 0; i < n; i++) {
        t = text[i]
        if (t ~ /^j[a-z]+ 0x[0-9a-f]+$/) {
          split(t, w, " "); tgt = substr(w[2], 3)
          t = w[1] " @" ((tgt in idx) ? idx[tgt] : "?" tgt)
        }
        print t
      }
    }'
}

rc=0
# target flags: 0x201 = SSE2 only, 64 bit; 0x29f = all SSE levels + frame pointer, 64 bit
for cfg in "sse default" "mmx default" "avx default" "sse 0x201" "sse 0x29f"; do
  set -- $cfg
  d="$out/$1_$2"; mkdir -p "$d"
  "$out/dump" "$here/side.orc" $1 $2 "$d" >/dev/null 2>&1
  for s in "$d"/*.s; do
    n=${s%.s}
    if ! as --64 -o "$n.o" "$s" 2>"$n.err"; then
      echo "[$cfg] $(basename "$n"): listing does not assemble: $(grep Error "$n.err" | head -1 | sed 's/.*Error: //')"
      rc=1; continue
    fi
    objcopy -O binary -j .text "$n.o" "$n.as.bin"
    dis "$n.as.bin" > "$n.as.dis"; dis "$n.bin" > "$n.jit.dis"
    if ! cmp -s "$n.as.dis" "$n.jit.dis"; then
      echo "[$cfg] $(basename "$n"): (< assembled listing, > machine code)"
      diff "$n.as.dis" "$n.jit.dis" | grep '^[<>]' | sort -u | head -6 | sed 's/^/    /'
      rc=1
    fi
  done
done
exit $rc
