/* Replay: a program without any array (accumulator + constant only) */
#include <orc/orc.h>
#include <stdio.h>
int main(int argc, char **argv) {
  OrcProgram *p; OrcCompileResult r; OrcExecutor _ex, *ex = &_ex;
  orc_init();
  p = orc_program_new();
  orc_program_add_accumulator(p, 4, "a1");
  orc_program_add_constant(p, 4, 3, "c1");
  orc_program_append_str(p, "accl", "a1", "c1", NULL);
  r = argc > 1 ? orc_program_compile_for_target(p, orc_target_get_by_name(argv[1])) : orc_program_compile(p);
  printf("result=%d code_size=%d err=%s\n", r, p->orccode ? p->orccode->code_size : -1, orc_program_get_error(p));
  orc_executor_set_program(ex, p);
  orc_executor_set_n(ex, 10);
  orc_executor_run(ex);
  printf("acc=%d (expect 30)\n", orc_executor_get_accumulator(ex, ORC_VAR_A1));
  return 0;
}
