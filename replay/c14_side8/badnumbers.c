#include <orc/orc.h>
#include <orc/orcparse.h>
#include <stdio.h>
#include <stdlib.h>
int main(int argc, char **argv)
{
  const char *text =
    ".function f\n"
    ".dest 4 d1\n"
    ".source abc s1\n"      /* bad number: size */
    ".source 4 s2 align zz\n" /* bad number: alignment */
    ".n mult q\n"
    ".m x\n"
    ".const 4 c1 0x\n"      /* not a number */
    ".const 4 c2 08\n"      /* invalid octal */
    ".temp 4x t1\n"
    "addl d1, s2, 09\n";
  OrcProgram **p; OrcParseError **e; int np=0, ne=0, i;
  if (argc < 2) orc_init();
  orc_parse_code(text, &p, &np, &e, &ne);
  printf("programs=%d errors=%d\n", np, ne);
  for(i=0;i<ne;i++) printf("  line %d: %s\n", e[i]->line_number, e[i]->text);
  for(i=0;i<ORC_N_VARIABLES;i++) if (p[0]->vars[i].name) printf("  var %d %s size=%d align=%d value=0x%llx\n", i, p[0]->vars[i].name, p[0]->vars[i].size, p[0]->vars[i].alignment, (unsigned long long)p[0]->vars[i].value.i);
  printf("n_multiple=%d constant_m=%d\n", p[0]->n_multiple, p[0]->constant_m);
  return 0;
}
