#!/bin/sh
# Reproducers for side findings on the UNCHANGED tree (independent of the seeded change).
ROOT=/var/tmp/seed8/C14
B=$ROOT/_b
HERE=$(cd "$(dirname "$0")" && pwd)
T=${TMPDIR:-/tmp}/c14_extra.$$
mkdir -p "$T"
FLAGS="-I$ROOT -I$B -L$B/orc -lorc-0.4 -Wl,-rpath,$B/orc"
cc -g -o "$T/pc" "$HERE/parse_compile.c" $FLAGS
cc -g -o "$T/bn" "$HERE/badnumbers.c" $FLAGS
echo "== 1. SIGFPE in orc_x86_adjust_alignment (INT_MIN % -1)"
"$T/pc" "$HERE/sigfpe_alignment.orc"; echo "exit status $? (136 = SIGFPE)"
echo "== 2. bad numbers in directives produce no error record"
"$T/bn"; echo "exit status $?"
echo "== 3. duplicate name in the 16th temporary is not reported"
"$T/pc" "$HERE/dup_name_t16.orc"; echo "exit status $?"
echo "== 4. orc_parse_code() before orc_init(): NULL opcode set"
"$T/bn" noinit; echo "exit status $? (139 = SIGSEGV)"
rm -rf "$T"
