.function f
.dest 4 d1
.source -1 s1 align 0x80000000
copyl d1, 1
