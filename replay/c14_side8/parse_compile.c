#include <orc/orc.h>
#include <orc/orcparse.h>
#include <stdio.h>
#include <stdlib.h>
#include <string.h>
int main(int argc, char **argv)
{
  char *buf; long n; FILE *f;
  OrcProgram **progs; OrcParseError **errs; int np=0, ne=0, i;
  orc_init();
  f = fopen(argv[1], "rb"); fseek(f,0,SEEK_END); n=ftell(f); rewind(f);
  buf = malloc(n+1); fread(buf,1,n,f); buf[n]=0; fclose(f);
  orc_parse_code(buf, &progs, &np, &errs, &ne);
  printf("programs=%d errors=%d\n", np, ne);
  for(i=0;i<ne;i++) printf("  %s @ %d: %s\n", errs[i]->source, errs[i]->line_number, errs[i]->text);
  for(i=0;i<np;i++){
    OrcCompileResult r = orc_program_compile(progs[i]);
    printf("  compile %s -> %d (%s)\n", progs[i]->name, r, orc_program_get_error(progs[i]));
  }
  orc_parse_error_freev(errs);
  for(i=0;i<np;i++) orc_program_free(progs[i]);
  free(progs);
  free(buf);
  printf("done\n");
  return 0;
}
