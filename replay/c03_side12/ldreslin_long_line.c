/* ldreslinb over a line longer than 32768 elements at scale 1.0: the emulator (and the generated C, same template) kept the
 * 16.16 position in `int tmp`: from element 32768 on it wrapped negative and the source was read BEFORE s1[0].
 * The source sits in the middle of a larger buffer so that the bad read does not crash.  exit 0 = d[i] == s[i] for all i. */
#include <stdio.h>
#include <stdlib.h>
#include <string.h>
#include <orc/orc.h>

int main (void)
{
  static const char *text = ".function f\n.source 1 s1\n.dest 1 d1\n.param 4 p1\n.param 4 p2\nldreslinb d1, s1, p1, p2\n";
  OrcProgram **ps; OrcExecutor *ex; int n = 40000, i, bad = 0, first = -1;
  unsigned char *buf = malloc (3 * 65536), *s = buf + 65536, *d = malloc (n);
  orc_init ();
  if (orc_parse (text, &ps) != 1) return 2;
  orc_program_compile (ps[0]);
  for (i = 0; i < 3 * 65536; i++) buf[i] = (unsigned char) (((unsigned) i * 2654435761u) >> 13);
  ex = orc_executor_new (ps[0]);
  orc_executor_set_n (ex, n);
  orc_executor_set_array_str (ex, "s1", s);
  orc_executor_set_array_str (ex, "d1", d);
  orc_executor_set_param_str (ex, "p1", 0);
  orc_executor_set_param_str (ex, "p2", 65536);
  orc_executor_emulate (ex);
  for (i = 0; i < n; i++) if (d[i] != s[i]) { if (first < 0) first = i; bad++; }
  printf ("emulated ldreslinb, n=%d, scale 1.0: %d elements differ from the source (first at %d)\n", n, bad, first);
  puts (bad ? "FAIL" : "PASS");
  return bad ? 1 : 0;
}
