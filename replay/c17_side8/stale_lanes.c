/* Side finding: accw on a value produced by loadupdb+convubw adds stale
 * vector-register lanes in the partial (tail) iterations: the accumulator
 * depends on what the caller left in the xmm registers.
 * usage: stale_lanes [target [n]]   (default: sse 2) */
#include <stdio.h>
#include <stdlib.h>
#include <string.h>
#include <stdint.h>
#include <emmintrin.h>
#include <orc/orc.h>

static void dirty (int v)
{
  /* leave v in every lane of every xmm register the JIT might use */
  static short buf[8] __attribute__ ((aligned (16)));
  int i;
  for (i = 0; i < 8; i++) buf[i] = (short) v;
  __asm__ volatile ("movdqa %0, %%xmm0\n movdqa %0, %%xmm1\n movdqa %0, %%xmm2\n"
      "movdqa %0, %%xmm3\n movdqa %0, %%xmm4\n movdqa %0, %%xmm5\n"
      "movdqa %0, %%xmm6\n movdqa %0, %%xmm7\n movdqa %0, %%xmm8\n"
      "movdqa %0, %%xmm9\n movdqa %0, %%xmm10\n movdqa %0, %%xmm11\n"
      "movdqa %0, %%xmm12\n movdqa %0, %%xmm13\n movdqa %0, %%xmm14\n movdqa %0, %%xmm15\n"
      :: "m" (*(const char (*)[16]) buf) : "xmm0","xmm1","xmm2","xmm3","xmm4","xmm5","xmm6","xmm7",
      "xmm8","xmm9","xmm10","xmm11","xmm12","xmm13","xmm14","xmm15");
}

int main (int argc, char **argv)
{
  const char *tname = argc > 1 ? argv[1] : "sse";
  int n = argc > 2 ? atoi (argv[2]) : 2;
  OrcProgram *p;
  OrcTarget *t;
  OrcExecutor *ex;
  uint8_t src[64];
  int i, r1, r2, expect = 0;

  orc_init ();
  t = orc_target_get_by_name (tname);
  p = orc_program_new ();
  orc_program_set_name (p, "stale");
  orc_program_add_source (p, 1, "s1");
  orc_program_add_accumulator (p, 2, "a1");
  orc_program_add_temporary (p, 1, "t1");
  orc_program_add_temporary (p, 2, "t2");
  orc_program_append_str (p, "loadupdb", "t1", "s1", NULL);
  orc_program_append_str (p, "convubw", "t2", "t1", NULL);
  orc_program_append_str (p, "accw", "a1", "t2", NULL);
  i = orc_program_compile_full (p, t, orc_target_get_default_flags (t));
  if (!ORC_COMPILE_RESULT_IS_SUCCESSFUL (i)) {
    printf ("compile failed (%d): %s\n", i, orc_program_get_error (p));
    return 2;
  }
  for (i = 0; i < 64; i++) src[i] = i + 1;
  for (i = 0; i < n; i++) expect += src[i >> 1];
  expect &= 0xffff;

  ex = orc_executor_new (p);
  orc_executor_set_n (ex, n);
  orc_executor_set_array_str (ex, "s1", src);
  dirty (0);
  orc_executor_run (ex);
  r1 = ex->accumulators[0] & 0xffff;
  orc_executor_set_array_str (ex, "s1", src);
  dirty (0x1111);
  orc_executor_run (ex);
  r2 = ex->accumulators[0] & 0xffff;
  printf ("target %s n=%d: expected %d, run1 %d, run2 %d -> %s\n", tname, n, expect, r1, r2,
      (r1 == expect && r2 == expect) ? "PASS" : "FAIL");
  return !(r1 == expect && r2 == expect);
}
