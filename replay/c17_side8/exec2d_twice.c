/* Side finding: the x86 JIT code of a 2-D program advances the array pointers
 * stored in the OrcExecutor (orc_x86_add_strides adds the stride to
 * ex->arrays[] in memory after every row).  Running the same executor a
 * second time therefore reads/writes m rows further down (out of bounds);
 * the emulator leaves ex->arrays[] alone. */
#include <stdio.h>
#include <string.h>
#include <stdlib.h>
#include <orc/orc.h>

int main (void)
{
  OrcProgram *p;
  OrcExecutor *ex;
  static unsigned char src[8][32], dst[8][32];
  void *before;
  int i, j;

  orc_init ();
  p = orc_program_new_ds (1, 1);
  orc_program_set_name (p, "copy2d");
  orc_program_set_2d (p);
  orc_program_append_ds_str (p, "copyb", "d1", "s1");
  if (!ORC_COMPILE_RESULT_IS_SUCCESSFUL (orc_program_compile (p))) {
    printf ("not compiled, nothing to show\n");
    return 0;
  }
  for (i = 0; i < 8; i++) for (j = 0; j < 32; j++) src[i][j] = i * 32 + j;

  ex = orc_executor_new (p);
  orc_executor_set_n (ex, 32);
  orc_executor_set_m (ex, 2);
  orc_executor_set_array (ex, ORC_VAR_D1, dst);
  orc_executor_set_stride (ex, ORC_VAR_D1, 32);
  orc_executor_set_array (ex, ORC_VAR_S1, src);
  orc_executor_set_stride (ex, ORC_VAR_S1, 32);
  before = ex->arrays[ORC_VAR_D1];
  orc_executor_run (ex);
  if (ex->arrays[ORC_VAR_D1] != before) {
    printf ("FAIL: after one run ex->arrays[D1] moved by %ld bytes; a second "
        "orc_executor_run() writes rows %ld.. instead of rows 0..1\n",
        (long) ((char *) ex->arrays[ORC_VAR_D1] - (char *) before),
        (long) ((char *) ex->arrays[ORC_VAR_D1] - (char *) before) / 32);
    memset (dst, 0, sizeof (dst));
    orc_executor_run (ex);
    printf ("      second run: dst row0 %s, dst row2 %s\n",
        memcmp (dst[0], src[0], 32) ? "untouched" : "written",
        memcmp (dst[2], src[2], 32) ? "untouched" : "written");
    return 1;
  }
  printf ("PASS\n");
  return 0;
}
