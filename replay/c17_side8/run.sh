#!/bin/sh
# Builds and runs the side-finding reproducers against /var/tmp/seed8/C17/_b.
# Each prints FAIL (exit 1) on the UNCHANGED tree.
ROOT=/var/tmp/seed8/C17
HERE=$(cd "$(dirname "$0")" && pwd)
for f in stale_lanes default_name exec2d_twice; do
  cc -O1 -msse2 -DORC_ENABLE_UNSTABLE_API -I"$ROOT" -I"$ROOT/_b" "$HERE/$f.c" -o "/tmp/c17_extra_$f" \
     -L"$ROOT/_b/orc" -lorc-0.4 -Wl,-rpath,"$ROOT/_b/orc" || exit 2
done
/tmp/c17_extra_stale_lanes sse 4
/tmp/c17_extra_stale_lanes sse 5
/tmp/c17_extra_default_name
/tmp/c17_extra_exec2d_twice
rm -f /tmp/c17_extra_*
