/* Side finding: a program that was never given a name gets "func_<address of
 * the OrcProgram>" as its name, and the name is printed into the listing
 * (.global / label).  Two identically constructed programs therefore compile
 * to different listings, and the listing of "the same program" changes from
 * run to run with the heap layout / ASLR. */
#include <stdio.h>
#include <string.h>
#include <stdlib.h>
#include <orc/orc.h>

static OrcProgram *make (void)
{
  OrcProgram *p = orc_program_new_dss (1, 1, 1);
  orc_program_append_str (p, "addb", "d1", "s1", "s2");
  return p;
}

int main (void)
{
  OrcProgram *a, *b;
  orc_init ();
  a = make ();
  b = make ();
  orc_program_compile (a);
  orc_program_compile (b);
  if (!orc_program_get_asm_code (a) || !orc_program_get_asm_code (b)) {
    printf ("no listing\n");
    return 2;
  }
  if (strcmp (orc_program_get_asm_code (a), orc_program_get_asm_code (b))) {
    printf ("FAIL: listings of two identical unnamed programs differ:\n");
    printf ("  %.40s  vs\n  %.40s\n", orc_program_get_asm_code (a),
        orc_program_get_asm_code (b));
    return 1;
  }
  printf ("PASS\n");
  return 0;
}
