#!/bin/sh
# usage: c11_scan.sh <libdir> <incdir> <target> <flags-hex> <opcode> <dsize> <ssize> <regex of forbidden mnemonics>
D=$(mktemp -d /var/tmp/c11.XXXXXX)
gcc -I/repo -I$2 -DORC_ENABLE_UNSTABLE_API $(dirname $0)/c11_flags.c -o $D/t -L$1 -lorc-0.4 -Wl,-rpath,$1 || exit 2
$D/t $3 $4 $5 $6 $7 $D/code.bin && objdump -D -b binary -mi386:x86-64 $D/code.bin | grep -E "$8" | head -5
rm -rf $D
