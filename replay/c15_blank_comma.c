#include <orc/orc.h>
#include <orc/orcparse.h>
#include <stdio.h>
#include <string.h>
#include <stdlib.h>
static int parse(const char *src){ OrcProgram **p=NULL; OrcParseError **e=NULL; int ne=0,n=0; orc_parse_code(src,&p,&n,&e,&ne); const char *log = ne? e[0]->text : NULL; int ni = (n>0&&p&&p[0])? p[0]->n_insns:-1; printf("n=%d insns=%d log=%s\n", n, ni, log?log:"(null)"); return (log&&log[0])?1:0; }
int main(void){ orc_init();
 int a=parse(".function f\n.dest 2 d1\n.source 2 s1\n.source 2 s2\naddw d1, s1, s2\n");
 int b=parse(".function f\n.dest 2 d1\n.source 2 s1\n.source 2 s2\naddw d1 , s1 ,s2\n");
 int c=parse(".function f\n.dest 2 d1\n.source 2 s1\n.source 2 s2\naddw d1 s1 s2\n");
 int d=parse(".function f\n.dest 2 d1\n.source 2 s1\n.source 2 s2\naddw d1,,s1,s2\n");
 printf("%d %d %d %d\n",a,b,c,d); return a!=b; }
