/* Replay: does a compiled float function preserve the caller's MXCSR? */
#include <orc/orc.h>
#include <stdio.h>
#include <xmmintrin.h>
int main(int argc, char **argv) {
  OrcProgram *p; OrcExecutor *ex; OrcCompileResult r;
  float a[64], b[64], d[64]; int i; unsigned before, after;
  orc_init();
  for (i = 0; i < 64; i++) { a[i] = i; b[i] = 2 * i; }
  p = orc_program_new_dss(4, 4, 4);
  orc_program_append_str(p, "addf", "d1", "s1", "s2");
  r = argc > 1 ? orc_program_compile_for_target(p, orc_target_get_by_name(argv[1])) : orc_program_compile(p);
  if (!ORC_COMPILE_RESULT_IS_SUCCESSFUL(r)) { printf("compile failed\n"); return 2; }
  ex = orc_executor_new(p);
  orc_executor_set_n(ex, 64);
  orc_executor_set_array(ex, ORC_VAR_D1, d); orc_executor_set_array(ex, ORC_VAR_S1, a); orc_executor_set_array(ex, ORC_VAR_S2, b);
  before = _mm_getcsr();
  orc_executor_run(ex);
  after = _mm_getcsr();
  printf("MXCSR before=%#x after=%#x %s\n", before, after, before == after ? "preserved" : "CLOBBERED (FTZ|DAZ left set)");
  return before != after;
}
