/* shared helpers for the side-finding reproducers */
#include <orc/orc.h>
#include <orc/orcparse.h>
#include <stdio.h>
#include <stdlib.h>
#include <string.h>
#include <signal.h>
#include <unistd.h>
#include <sys/mman.h>

#define PAGE 4096
#define DATA_PAGES 8

static void on_fault (int sig, siginfo_t *si, void *u)
{
  char buf[96];
  int l = snprintf (buf, sizeof buf, "FAIL: signal %d, fault address %p\n", sig, si->si_addr);
  if (write (1, buf, l) < 0) {}
  _exit (1);
}

static void catch_faults (void)
{
  struct sigaction sa;
  memset (&sa, 0, sizeof sa);
  sa.sa_sigaction = on_fault;
  sa.sa_flags = SA_SIGINFO;
  sigaction (SIGSEGV, &sa, NULL);
  sigaction (SIGBUS, &sa, NULL);
}

/* DATA_PAGES accessible pages between two inaccessible ones; returns the
 * address of the first accessible byte */
static unsigned char *guarded (void)
{
  unsigned char *b = mmap (NULL, (DATA_PAGES + 2) * PAGE, PROT_READ | PROT_WRITE,
      MAP_PRIVATE | MAP_ANONYMOUS, -1, 0);
  if (b == MAP_FAILED) { perror ("mmap"); exit (2); }
  memset (b, 0xa5, (DATA_PAGES + 2) * PAGE);
  mprotect (b, PAGE, PROT_NONE);
  mprotect (b + (DATA_PAGES + 1) * PAGE, PAGE, PROT_NONE);
  return b + PAGE;
}
#define GUARDED_END(p) ((p) + DATA_PAGES * PAGE)

static OrcProgram *build (const char *text, const char *target)
{
  OrcProgram **progs; OrcCompileResult r;
  setvbuf (stdout, NULL, _IONBF, 0);
  if (orc_parse (text, &progs) < 1) { printf ("parse failed\n"); exit (2); }
  if (target == NULL) r = orc_program_compile (progs[0]);
  else if (strcmp (target, "emulate") == 0) r = orc_program_compile_for_target (progs[0], NULL);
  else r = orc_program_compile_for_target (progs[0], orc_target_get_by_name (target));
  printf ("[%s] compile result %d (%s)\n", target ? target : "default", r,
      ORC_COMPILE_RESULT_IS_SUCCESSFUL (r) ? "machine code" : "fallback");
  return progs[0];
}
