/* Side finding 3: an array declared "align 32" (and really 32-byte aligned)
 * that is NOT the array the x86 backend aligns its main loop on keeps its
 * is_aligned flag in every region.  When the alignment array (here d1, no
 * declared alignment) is misaligned, the head region consumes a few elements,
 * the declared-aligned source is then no longer on a 32-byte boundary, and
 * the main loop's vmovdqa on it raises #GP (SIGSEGV, fault address 0).
 * Same for sse with "align 16".  The emulator is fine.
 * usage: sf3_declared_alignment [target|emulate] */
#include "common.h"

static const char *text =
  ".function cps\n.dest 1 d1\n.source 1 s1 align 32\n\ncopyb d1, s1\n";

int main (int argc, char **argv)
{
  const int n = 100; OrcProgram *p; OrcExecutor *ex; unsigned char *d, *s; int i;
  orc_init ();
  p = build (text, argc > 1 ? argv[1] : NULL);
  catch_faults ();
  s = guarded ();             /* page aligned: satisfies align 32 */
  d = guarded () + 5;         /* destination off by 5 bytes: allowed */
  for (i = 0; i < n; i++) s[i] = i;
  ex = orc_executor_new (p);
  orc_executor_set_n (ex, n);
  orc_executor_set_array (ex, ORC_VAR_D1, d);
  orc_executor_set_array (ex, ORC_VAR_S1, s);
  orc_executor_run (ex);
  for (i = 0; i < n; i++) if (d[i] != i) { printf ("FAIL: wrong value\n"); return 1; }
  printf ("PASS\n");
  return 0;
}
