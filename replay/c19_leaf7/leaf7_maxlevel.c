/* Side finding (UNCHANGED tree): CPUID leaf 7 is read without checking that
 * the CPU implements leaf 7.
 *
 * orc_x86_cpuid_handle_standard_flags() (orc/orccpu-x86.c) does
 *     get_cpuid (0x00000007, ...);  avx2 = ebx & (1 << 5);
 * whatever the maximum basic leaf reported by CPUID.0 is.  Intel CPUs answer a
 * basic leaf above their maximum with the data of the HIGHEST basic leaf.  An
 * AVX-only CPU (Sandy Bridge / Ivy Bridge) that runs with the firmware option
 * "Limit CPUID Maxval" (IA32_MISC_ENABLE[22]) reports a maximum leaf of 2, so
 * the leaf-7 query returns the leaf-2 cache descriptor bytes; on Sandy Bridge
 * these are ebx = 0x00f0b2ff, which has bit 5 set.  orc then believes the CPU
 * has AVX2, marks the avx backend executable, makes it the default target and
 * puts "avx2" into its default flags: AVX2 integer code on a CPU without AVX2.
 *
 * This program emulates exactly that CPU with CPUID faulting
 * (arch_prctl(ARCH_SET_CPUID, 0) + a SIGSEGV handler that emulates CPUID) and
 * then asks orc for its default target.
 *
 * exit 0 = property held, 1 = violated, 77 = CPUID faulting not available.
 */
#define _GNU_SOURCE
#include <stdio.h>
#include <stdlib.h>
#include <string.h>
#include <signal.h>
#include <unistd.h>
#include <ucontext.h>
#include <sys/syscall.h>
#include <asm/prctl.h>

#include <orc/orc.h>

static int scenario;   /* 0: max leaf 2 (the finding); 1: max leaf 13 (control) */

static void
real_cpuid (unsigned int leaf, unsigned int sub, unsigned int r[4])
{
  __asm__ volatile ("cpuid"
      : "=a" (r[0]), "=b" (r[1]), "=c" (r[2]), "=d" (r[3])
      : "a" (leaf), "c" (sub));
}

static void
fake_cpuid (unsigned int leaf, unsigned int sub, unsigned int r[4])
{
  const unsigned int max_basic = scenario == 0 ? 2 : 13;

  /* start from what the real CPU says */
  syscall (SYS_arch_prctl, ARCH_SET_CPUID, 1);
  real_cpuid (leaf, sub, r);
  syscall (SYS_arch_prctl, ARCH_SET_CPUID, 0);

  if (leaf >= 0x40000000u) return;        /* hypervisor / extended: untouched */

  if (leaf > max_basic) {
    /* Intel: data of the highest basic leaf */
    if (max_basic == 2) {
      leaf = 2;                           /* fall through to leaf 2 below */
    } else {
      r[0] = r[1] = r[2] = r[3] = 0;      /* leaf 13, invalid subleaf: zeros */
      return;
    }
  }

  switch (leaf) {
    case 0:
      r[0] = max_basic;
      r[1] = 0x756e6547; r[3] = 0x49656e69; r[2] = 0x6c65746e; /* GenuineIntel */
      break;
    case 1:
      /* Sandy Bridge: AVX, XSAVE, OSXSAVE; no FMA, MOVBE, F16C, RDRAND */
      r[0] = 0x000206a7;
      r[2] &= ~((1u << 12) | (1u << 22) | (1u << 29) | (1u << 30));
      r[2] |= (1u << 26) | (1u << 27) | (1u << 28);
      break;
    case 2:
      /* Sandy Bridge cache descriptors */
      r[0] = 0x76035a01; r[1] = 0x00f0b2ff; r[2] = 0x00000000; r[3] = 0x00ca0000;
      break;
    case 7:
      /* only reached in the control scenario: no AVX2, no BMI, ... */
      r[0] = r[1] = r[2] = r[3] = 0;
      break;
    default:
      break;
  }
}

static void
on_segv (int sig, siginfo_t *si, void *uc_)
{
  ucontext_t *uc = uc_;
  greg_t *g = uc->uc_mcontext.gregs;
  const unsigned char *ip = (const unsigned char *) g[REG_RIP];
  unsigned int r[4];

  (void) sig; (void) si;
  if (ip[0] != 0x0f || ip[1] != 0xa2) {
    static const char msg[] = "unexpected SIGSEGV\n";
    if (write (2, msg, sizeof (msg) - 1) < 0) {}
    _exit (99);
  }
  fake_cpuid ((unsigned int) g[REG_RAX], (unsigned int) g[REG_RCX], r);
  g[REG_RAX] = r[0]; g[REG_RBX] = r[1]; g[REG_RCX] = r[2]; g[REG_RDX] = r[3];
  g[REG_RIP] += 2;
}

int
main (int argc, char **argv)
{
  struct sigaction sa;
  OrcTarget *def, *avx;
  unsigned int flags = 0;
  int bad = 0;

  scenario = (argc > 1) ? atoi (argv[1]) : 0;
  unsetenv ("ORC_TARGET");
  unsetenv ("ORC_CODE");

  memset (&sa, 0, sizeof (sa));
  sa.sa_sigaction = on_segv;
  sa.sa_flags = SA_SIGINFO | SA_NODEFER;
  sigaction (SIGSEGV, &sa, NULL);
  if (syscall (SYS_arch_prctl, ARCH_SET_CPUID, 0) != 0) {
    printf ("SKIP: CPUID faulting is not available here\n");
    return 77;
  }

  orc_init ();
  def = orc_target_get_default ();
  avx = orc_target_get_by_name ("avx");
  if (def) flags = orc_target_get_default_flags (def);

  syscall (SYS_arch_prctl, ARCH_SET_CPUID, 1);

  printf ("emulated CPU: Sandy Bridge (AVX, no AVX2), maximum basic CPUID leaf %d\n",
      scenario == 0 ? 2 : 13);
  printf ("default target: %s, flags 0x%x; avx->executable = %d\n",
      def ? orc_target_get_name (def) : "(none)", flags,
      avx ? avx->executable : -1);

  if (avx && avx->executable) {
    printf ("FAIL: the avx backend is marked executable on a CPU without AVX2\n");
    bad = 1;
  }
  if (def && strcmp (orc_target_get_name (def), "sse") != 0) {
    printf ("FAIL: default target is %s, expected sse\n", orc_target_get_name (def));
    bad = 1;
  }
  if (def && (flags & ORC_TARGET_AVX_AVX2)) {
    printf ("FAIL: default flags claim avx2\n");
    bad = 1;
  }
  if (!bad) printf ("PASS\n");
  return bad;
}
