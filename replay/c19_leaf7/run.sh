#!/bin/sh
# Side finding reproducer; builds against /var/tmp/seed8/C19/_b.
# "sh run.sh"   : the finding  (maximum basic leaf 2)  -> FAIL on the unchanged tree
# "sh run.sh 1" : the control  (maximum basic leaf 13) -> PASS
here=$(cd "$(dirname "$0")" && pwd)
top=/var/tmp/seed8/C19
b=$top/_b
out=${TMPDIR:-/tmp}/c19_seed8_extra.$$
trap 'rm -f "$out"' EXIT
${CC:-cc} -O1 -Wall -DORC_ENABLE_UNSTABLE_API -I"$top" -I"$b" \
    -o "$out" "$here/leaf7_maxlevel.c" -L"$b/orc" -lorc-0.4 -lm -lpthread || exit 2
LD_LIBRARY_PATH="$b/orc${LD_LIBRARY_PATH:+:$LD_LIBRARY_PATH}" "$out" "$@"
