/* Replay: MMX target + an 8-byte variable => orc_x86_compiler_max_loop_shift never finds its exit */
#include <orc/orc.h>
#include <stdio.h>
int main(void) {
  OrcProgram *p; OrcCompileResult r;
  orc_init();
  p = orc_program_new_ds(8, 8);
  orc_program_append_str(p, "copyq", "d1", "s1", NULL);
  r = orc_program_compile_for_target(p, orc_target_get_by_name("mmx"));
  printf("result=%d\n", r);
  orc_program_free(p);
  return 0;
}
