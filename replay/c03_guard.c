/* Replay: does compiled code read past the last entitled source byte?  The source array ends
 * right before an inaccessible page.  usage: c03_guard <target> <flags-hex> <opcode> <n> */
#include <orc/orc.h>
#include <stdio.h>
#include <stdlib.h>
#include <string.h>
#include <sys/mman.h>
#include <signal.h>
#include <unistd.h>
static void segv(int s) { const char m[] = "SIGSEGV: read/write beyond the entitled elements\n"; write(1, m, sizeof m - 1); _exit(3); }
int main(int argc, char **argv) {
  OrcProgram *p; OrcExecutor *ex; OrcCompileResult r; OrcTarget *t;
  int n = atoi(argv[4]); long pg = sysconf(_SC_PAGESIZE);
  unsigned char *m, *src, *dst; int srclen;
  OrcStaticOpcode *o;
  signal(SIGSEGV, segv);
  orc_init();
  t = orc_target_get_by_name(argv[1]);
  o = orc_opcode_find_by_name(argv[3]);
  p = orc_program_new();
  orc_program_add_destination(p, o->dest_size[0], "d1");
  orc_program_add_source(p, o->src_size[0], "s1");
  orc_program_append_str(p, argv[3], "d1", "s1", NULL);
  r = orc_program_compile_full(p, t, strtoul(argv[2], NULL, 16));
  if (!ORC_COMPILE_RESULT_IS_SUCCESSFUL(r)) { printf("compile failed: %s\n", orc_program_get_error(p)); return 2; }
  /* entitled source elements for the upsampling loads: indices 0 .. max over i<n of (i>>1) (+1 when i is odd, loadupib) */
  if (!strcmp(argv[3], "loadupib")) { int i, mx = 0; for (i = 0; i < n; i++) { int k = (i >> 1) + (i & 1); if (k > mx) mx = k; } srclen = (mx + 1) * o->src_size[0]; }
  else if (!strcmp(argv[3], "loadupdb")) srclen = (((n - 1) >> 1) + 1) * o->src_size[0];
  else srclen = n * o->src_size[0];
  m = mmap(NULL, 4 * pg, PROT_READ | PROT_WRITE, MAP_PRIVATE | MAP_ANONYMOUS, -1, 0);
  mprotect(m + pg, pg, PROT_NONE);
  mprotect(m + 3 * pg, pg, PROT_NONE);
  src = m + pg - srclen;                       /* ends at the guard page */
  dst = m + 3 * pg - n * o->dest_size[0];
  memset(src, 1, srclen);
  ex = orc_executor_new(p);
  orc_executor_set_n(ex, n);
  orc_executor_set_array(ex, ORC_VAR_D1, dst); orc_executor_set_array(ex, ORC_VAR_S1, src);
  orc_executor_run(ex);
  printf("%s n=%d srclen=%d: ok\n", argv[3], n, srclen);
  return 0;
}
