/* Replay: leaks that grow with the number of iterations */
#include <orc/orc.h>
#include <stdio.h>
#include <stdlib.h>
int main(int argc, char **argv) {
  int k = atoi(argv[1]), i;
  OrcProgram *p;
  orc_init();
  p = orc_program_new_ds(1, 1);
  if (k == 0) {            /* compile attempts of a program that carries an error */
    orc_program_append_str(p, "nosuchopcode", "d1", "s1", NULL);
    for (i = 0; i < 10; i++) orc_program_compile(p);
  } else {                 /* type name set repeatedly */
    for (i = 0; i < 10; i++) orc_program_set_type_name(p, ORC_VAR_D1, "uint8_t");
  }
  orc_program_free(p);
  return 0;
}
