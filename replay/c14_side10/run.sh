#!/bin/sh
# exit 0 = none of the side findings reproduces, non-zero = number reproduced
TOP=/var/tmp/seed10/C14
B=$TOP/_b
HERE=$(cd "$(dirname "$0")" && pwd)
OUT=${TMPDIR:-/tmp}/c14_extra.$$
cc -O0 -g -DORC_ENABLE_UNSTABLE_API -I"$TOP" -I"$B" -o "$OUT" "$HERE/repro.c" \
   -L"$B/orc" -lorc-0.4 -Wl,-rpath,"$B/orc" || exit 99
LD_LIBRARY_PATH="$B/orc" "$OUT"
rc=$?
rm -f "$OUT"
exit $rc
