/* Side findings on the UNCHANGED tree (independent of the seeded change).
 * Prints one line per finding; exit status = number of findings reproduced. */
#include <stdio.h>
#include <stdlib.h>
#include <string.h>
#include <orc/orc.h>
#include <orc/orcparse.h>

static OrcProgram *
parse_one (const char *text, int *n_errors)
{
  OrcProgram **programs = NULL;
  OrcParseError **errors = NULL;
  int n_programs = 0;
  OrcProgram *p;

  orc_parse_code (text, &programs, &n_programs, &errors, n_errors);
  orc_parse_error_freev (errors);
  p = n_programs > 0 ? programs[0] : NULL;
  free (programs);
  return p;
}

int
main (void)
{
  int found = 0;
  int n_errors;
  OrcProgram *p;

  orc_init ();

  /* 1a: a number wider than int is accepted and wraps modulo 2^32 */
  p = parse_one (".function f\n.n 4294967304\n.source 4294967298 s1\n"
      ".dest 2 d1\ncopyw d1, s1\n", &n_errors);
  if (n_errors == 0 && p->vars[ORC_VAR_S1].size == 2 && p->constant_n == 8) {
    printf ("FOUND 1a: '.source 4294967298 s1' is a 2-byte source and "
        "'.n 4294967304' is n=8, no error record\n");
    found++;
  }
  orc_program_free (p);

  /* 1b: a number wider than long saturates in strtol() and becomes -1 */
  p = parse_one (".function f\n.source 99999999999999999999 s1\n"
      ".dest 2 d1\ncopyw d1, s1\n", &n_errors);
  if (n_errors == 0 && p->vars[ORC_VAR_S1].size == -1) {
    printf ("FOUND 1b: '.source 99999999999999999999 s1' has size -1, "
        "no error record\n");
    found++;
  }
  orc_program_free (p);

  /* 2a: a declared variable called inf (nan, infinity, any case) is never
   * looked up: the operand is read as a floating point literal */
  p = parse_one (".function f\n.source 4 inf\n.source 4 s2\n.dest 4 d1\n"
      "addf d1, inf, s2\n", &n_errors);
  if (n_errors == 0 && p->n_insns == 1 &&
      p->insns[0].src_args[0] != ORC_VAR_S1 &&
      p->vars[p->insns[0].src_args[0]].vartype == ORC_VAR_TYPE_CONST) {
    printf ("FOUND 2a: 'addf d1, inf, s2' adds the constant 0x%08x, not the "
        "source array named inf; no error record\n",
        (unsigned int) p->vars[p->insns[0].src_args[0]].value.i);
    found++;
  }
  orc_program_free (p);

  /* 2b: a declared variable whose name starts like such a literal cannot be
   * used at all */
  p = parse_one (".function f\n.source 4 s1\n.dest 4 d1\n.temp 4 info\n"
      "copyl info, s1\ncopyl d1, info\n", &n_errors);
  if (n_errors > 0 && p->n_insns == 0) {
    printf ("FOUND 2b: the declared temporary 'info' is refused as a bad "
        "constant (%d error records, 0 instructions)\n", n_errors);
    found++;
  }
  orc_program_free (p);

  return found;
}
