/* Replay driver (documentation only, never part of a check): feeds texts to
 * orc_parse_code under ASan.  usage: c14_parse <case>  */
#include <orc/orc.h>
#include <orc/orcparse.h>
#include <stdio.h>
#include <stdlib.h>
#include <string.h>
static const char *cases[] = {
  /*0*/ ".function f\n.source 1 s a b c d e f g h i j k l m n o p q r s t u v w x y z\n",
  /*1*/ ".source 1 s1\n.function f\n",
  /*2*/ "addb d1, s1, s2\n",
  /*3*/ ".function f\n.dest 1 d1\n.source 1 s1\naddb d1, s1, 1abc\n",
  /*4*/ ".function f\n.dest 1 d1\nbogus d1\n",   /* one error, then freev */
  /*5*/ NULL
};
int main(int argc, char **argv) {
  int k = atoi(argv[1]);
  OrcProgram **progs; int n = 0, ne = 0; OrcParseError **errs = NULL;
  char *text;
  orc_init();
  if (k == 5) { /* 33 errors: fills the first vector chunk exactly?  32 */
    int i; text = malloc(64*40); text[0]=0; strcat(text, ".function f\n");
    for (i=0;i<32;i++) strcat(text, "bogus d1\n");
  } else if (k == 6) { /* 101 instructions */
    int i; text = malloc(200*40); text[0]=0; strcat(text, ".function f\n.dest 1 d1\n.source 1 s1\n");
    for (i=0;i<130;i++) strcat(text, "copyb d1, s1\n");
  } else text = strdup(cases[k]);
  orc_parse_code(text, &progs, &n, &errs, &ne);
  printf("programs=%d errors=%d\n", n, ne);
  orc_parse_error_freev(errs);
  { int i; for (i=0;i<n;i++) orc_program_free(progs[i]); free(progs); }
  return 0;
}
