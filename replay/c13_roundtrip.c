/* Replay: a double parameter does not survive the bytecode round trip */
#include <orc/orc.h>
#include <orc/orcbytecode.h>
#include <stdio.h>
int main(void) {
  OrcProgram *p, *q; OrcBytecode *bc; int v;
  orc_init();
  p = orc_program_new();
  orc_program_add_destination(p, 8, "d1");
  v = orc_program_add_parameter_double(p, 8, "p1");
  orc_program_append_str(p, "loadpq", "d1", "p1", NULL);
  bc = orc_bytecode_from_program(p);
  q = orc_program_new_from_static_bytecode(bc->bytecode);
  printf("param_type before=%d after=%d (DOUBLE=%d INT64=%d)\n", p->vars[v].param_type, q->vars[v].param_type, ORC_PARAM_TYPE_DOUBLE, ORC_PARAM_TYPE_INT64);
  return p->vars[v].param_type != q->vars[v].param_type;
}
