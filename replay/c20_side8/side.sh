#!/bin/sh
ROOT=/var/tmp/seed8/C20
HERE=$(cd "$(dirname "$0")" && pwd)
cc -O0 -g -DORC_ENABLE_UNSTABLE_API -I"$ROOT" -I"$ROOT/_b" "$HERE/side.c" -o /tmp/c20_side \
   -L"$ROOT/_b/orc" -lorc-0.4 -Wl,-rpath,"$ROOT/_b/orc" || exit 2
for i in 1 2 3; do echo "== $i"; /tmp/c20_side $i; echo "   exit status $?"; done
