/* Side findings on the UNCHANGED tree (nothing to do with the seeded change).
 * Build: see side.sh.  Each check prints what it observed. */
#include <stdio.h>
#include <stdlib.h>
#include <string.h>
#include <orc/orc.h>
#include <orc/orcparse.h>
#include <orc/orcbytecode.h>

static void
emulate_incw (OrcOpcodeExecutor *ex, int offset, int n)
{
  orc_int16 *d = ex->dest_ptrs[0];
  const orc_int16 *s = ex->src_ptrs[0];
  int i;
  for (i = 0; i < n; i++) d[i] = s[i] + 1;
}

static OrcStaticOpcode ops_a[] = {
  { "incw", 0, { 2 }, { 2 }, emulate_incw },
  { "" }
};
static OrcStaticOpcode ops_b[] = {
  { "incw2", 0, { 2 }, { 2 }, emulate_incw },
  { "" }
};

int
main (int argc, char **argv)
{
  int which = argc > 1 ? atoi (argv[1]) : 0;

  orc_init ();
  orc_opcode_register_static (ops_a, "ext");

  if (which == 1) {
    /* 1. the text parser only searches the "sys" set */
    const char *src =
        ".function f\n.dest 2 d\n.source 2 s\nincw d, s\n";
    OrcProgram **progs = NULL;
    OrcParseError **errors = NULL;
    int n = 0, n_errors = 0, i;
    orc_parse_code (src, &progs, &n, &errors, &n_errors);
    printf ("parse: %d program(s), %d error(s)\n", n, n_errors);
    for (i = 0; i < n_errors; i++)
      printf ("  line %d: %s\n", errors[i]->line_number, errors[i]->text);
    printf ("  orc_opcode_find_by_name(\"incw\") = %p (so the opcode IS registered)\n",
        (void *) orc_opcode_find_by_name ("incw"));
  }
  if (which == 2) {
    /* 2. a prefix of 8 or more characters is silently truncated, the set can
     *    then not be found under the name it was registered with */
    int major = orc_opcode_register_static (ops_b, "extension");
    printf ("registered \"extension\" as major %d; orc_opcode_set_get(\"extension\") = %p, "
        "orc_opcode_set_get(\"extensi\") = %p\n", major,
        (void *) orc_opcode_set_get ("extension"),
        (void *) orc_opcode_set_get ("extensi"));
  }
  if (which == 3) {
    /* 3. bytecode: the opcode number is computed relative to the "sys" table,
     *    for an extension opcode that is an unrelated pointer difference */
    OrcProgram *p = orc_program_new ();
    OrcBytecode *bc;
    orc_program_add_destination (p, 2, "d1");
    orc_program_add_source (p, 2, "s1");
    orc_program_append_ds (p, "incw", ORC_VAR_D1, ORC_VAR_S1);
    bc = orc_bytecode_from_program (p);   /* aborts (ORC_ASSERT value >= 0) or
                                             emits a bogus opcode number */
    printf ("bytecode length %d (opcode number is garbage)\n", bc->length);
    {
      OrcProgram *q = orc_program_new ();
      orc_bytecode_parse_function (q, bc->bytecode);   /* reads sys->opcodes[garbage] */
      printf ("parsed back %d insn(s), opcode ptr %p vs original %p\n",
          q->n_insns, (void *) q->insns[0].opcode, (void *) p->insns[0].opcode);
    }
  }
  return 0;
}
