/* Side finding (UNCHANGED tree): on x86-64 a program that needs more than the
 * 13 allocatable general registers is compiled without an error
 * (allow_gp_on_stack is set unconditionally in orc_x86_compiler_init, so
 * orc_compiler_allocate_register() returns 0 silently).  The ldresnearl rule
 * then uses "register 0" as src->ptr_register / src->ptr_offset; encoded
 * with &7 this is %eax / %rax -- the pointer register of d1.  The generated
 * code therefore adds the resampling increment to, and masks with 0xffff,
 * the destination pointer, and stores through it.
 */
#include <stdio.h>
#include <stdlib.h>
#include <string.h>
#include <stdint.h>
#include <signal.h>
#include <unistd.h>
#include <orc/orc.h>

static const char source[] =
  ".function many_ldres\n"
  ".dest 4 d1\n"
  ".source 4 s1\n"
  ".source 4 s2\n"
  ".source 4 s3\n"
  ".source 4 s4\n"
  ".source 4 s5\n"
  ".source 4 s6\n"
  ".source 4 s7\n"
  ".param 4 p1\n"
  ".param 4 p2\n"
  ".temp 4 t1\n"
  ".temp 4 t2\n"
  "ldresnearl t1, s1, p1, p2\n"
  "ldresnearl t2, s2, p1, p2\n"
  "addl t1, t1, t2\n"
  "ldresnearl t2, s3, p1, p2\n"
  "addl t1, t1, t2\n"
  "ldresnearl t2, s4, p1, p2\n"
  "addl t1, t1, t2\n"
  "ldresnearl t2, s5, p1, p2\n"
  "addl t1, t1, t2\n"
  "ldresnearl t2, s6, p1, p2\n"
  "addl t1, t1, t2\n"
  "ldresnearl t2, s7, p1, p2\n"
  "addl t1, t1, t2\n"
  "storel d1, t1\n";

static void on_segv (int sig)
{
  static const char msg[] = "FAIL: SIGSEGV inside the generated function\n";
  (void) sig;
  if (write (1, msg, sizeof (msg) - 1) < 0) {}
  _exit (2);
}

#define N 64
#define GUARD 4096

int main (int argc, char **argv)
{
  const char *tname = argc > 1 ? argv[1] : "sse";
  OrcTarget *target;
  OrcProgram **programs = NULL;
  OrcProgram *p;
  OrcExecutor *ex;
  OrcCompileResult res;
  char *log = NULL;
  unsigned char *dbuf;
  int32_t *d, *s;
  int i, bad = 0, k;

  orc_init ();
  target = orc_target_get_by_name (tname);
  if (orc_parse_full (source, &programs, &log) != 1) {
    printf ("parse failed: %s\n", log ? log : "");
    return 3;
  }
  p = programs[0];
  res = orc_program_compile_full (p, target, orc_target_get_default_flags (target));
  printf ("compile result %d (%s)\n", res,
      ORC_COMPILE_RESULT_IS_SUCCESSFUL (res) ? "successful" : "refused");
  if (!ORC_COMPILE_RESULT_IS_SUCCESSFUL (res) || !p->code_exec) {
    printf ("PASS (program refused)\n");
    return 0;
  }
  if (argc > 2) printf ("%s\n", orc_program_get_asm_code (p));

  dbuf = malloc (GUARD + N * 4 + GUARD);
  memset (dbuf, 0xA5, GUARD + N * 4 + GUARD);
  d = (int32_t *) (dbuf + GUARD);
  s = calloc (N * 4, 4);
  for (i = 0; i < N * 4; i++) s[i] = 1;

  signal (SIGSEGV, on_segv);
  signal (SIGBUS, on_segv);

  ex = orc_executor_new (p);
  orc_executor_set_n (ex, N);
  orc_executor_set_array (ex, ORC_VAR_D1, d);
  for (k = 0; k < 7; k++)
    orc_executor_set_array (ex, ORC_VAR_S1 + k, s);
  orc_executor_set_param (ex, ORC_VAR_P1, 0);
  orc_executor_set_param (ex, ORC_VAR_P2, 65536);
  orc_executor_run (ex);

  for (i = 0; i < GUARD; i++) {
    if (dbuf[i] != 0xA5) bad++;
    if (dbuf[GUARD + N * 4 + i] != 0xA5) bad++;
  }
  for (i = 0; i < N; i++) if (d[i] != 7) { bad++; }
  printf ("%s (%d bad bytes/elements)\n", bad ? "FAIL" : "PASS", bad);
  return bad != 0;
}
