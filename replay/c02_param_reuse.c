/* replay for C02/C04: one parameter used by "x2 addb" and then by "addw" (found by a seeding sub-agent, confirmed here).
 * Build: cc c02_param_reuse.c -I/repo -I/repo/_build -L/repo/_build/orc -lorc-0.4 -o /var/tmp/c02_param_reuse
 * Run:   LD_LIBRARY_PATH=/repo/_build/orc /var/tmp/c02_param_reuse
 * Before the fix orc_compiler_rewrite_insns reused a parameter temporary whenever the TOTAL size matched, so the addw read the
 * byte-splat made for the x2 addb: p = 1 became 0x0101 (emulation, generated C and native code alike). */
#include <stdio.h>
#include <orc/orc.h>
int main (void)
{
  OrcProgram *p; OrcExecutor *ex; int i, bad = 0;
  orc_int16 s1[8], d1[8], s2[8], d2[8];
  orc_init ();
  p = orc_program_new ();
  orc_program_add_destination (p, 2, "d1");
  orc_program_add_destination (p, 2, "d2");
  orc_program_add_source (p, 2, "s1");
  orc_program_add_source (p, 2, "s2");
  orc_program_add_parameter (p, 2, "p1");
  orc_program_append_str_2 (p, "addb", ORC_INSTRUCTION_FLAG_X2, "d1", "s1", "p1", NULL);
  orc_program_append_str (p, "addw", "d2", "s2", "p1");
  orc_program_compile (p);
  ex = orc_executor_new (p);
  for (i = 0; i < 8; i++) { s1[i] = 0; s2[i] = 0; }
  orc_executor_set_n (ex, 8);
  orc_executor_set_array_str (ex, "d1", d1);
  orc_executor_set_array_str (ex, "d2", d2);
  orc_executor_set_array_str (ex, "s1", s1);
  orc_executor_set_array_str (ex, "s2", s2);
  orc_executor_set_param_str (ex, "p1", 1);
  orc_executor_emulate (ex);
  for (i = 0; i < 8; i++) if (d2[i] != 1) bad++;
  printf ("d2[0]=%04x (want 0001) bad=%d\n", d2[0] & 0xffff, bad);
  return bad != 0;
}
