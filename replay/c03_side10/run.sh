#!/bin/sh
# Reproducers for behaviour of the UNCHANGED tree (independent of the seeded change).
top=/var/tmp/seed10/C03
here=$(cd "$(dirname "$0")" && pwd)
out=${TMPDIR:-/tmp}/seed10_c03_extra.$$
mkdir -p "$out"
for f in ldresnearl_params ldresnearl_2d_rows emulate_large_stride; do
  ${CC:-cc} -O0 -g -I"$top" -I"$top/_b" "$here/$f.c" -o "$out/$f" \
      -L"$top/_b/orc" -lorc-0.4 -Wl,-rpath,"$top/_b/orc" || exit 2
done
echo "== 1a. ldresnearl, p1 = 2.0 (0x20000), array handed over so that element 0 and 1 are in an inaccessible page"
echo "   (the opcode definition refers to s1[2..5] only); emulation:"
"$out/ldresnearl_params" 0x20000 0x10000 4 1024 -2 sse emu | tail -4
echo "   sse machine code (reads s1[0] for the first pixel):"
"$out/ldresnearl_params" 0x20000 0x10000 4 1024 -2 sse; echo "   exit status $?"
echo "   same, array fully accessible: first output differs from the emulation"
"$out/ldresnearl_params" 0x20000 0x10000 4 8 0 sse emu | tail -4
"$out/ldresnearl_params" 0x20000 0x10000 4 8 0 sse | tail -4
echo "== 1b. ldresnearl, negative increment (-1.0), s1 points at the last pixel; emulation:"
"$out/ldresnearl_params" 0 -0x10000 4 8 7 sse emu | tail -4
echo "   sse machine code:"
"$out/ldresnearl_params" 0 -0x10000 4 8 7 sse; echo "   exit status $?"
echo "== 2. 2-D ldresnearl, rows of one source pixel each, p1=0 p2=0.75, n=2, m=2; emulation:"
"$out/ldresnearl_2d_rows" sse emu
echo "   sse machine code (row 1 starts with the fraction left over from row 0 and reads s1_row1[1]):"
"$out/ldresnearl_2d_rows" sse; echo "   exit status $?"
echo "== 3. 2-D copyb, stride 1 GiB, m=3; machine code:"
"$out/emulate_large_stride" jit; echo "   exit status $?"
echo "   emulation (int stride * int row overflows):"
"$out/emulate_large_stride" emu; echo "   exit status $?"
rm -rf "$out"
