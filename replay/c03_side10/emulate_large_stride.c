#include <stdio.h>
#include <stdlib.h>
#include <string.h>
#include <sys/mman.h>
#include <orc/orc.h>
/* 2D with a large stride: emulation multiplies int stride by int row index */
int main(int argc,char**argv){
  const char *mode = argc>1?argv[1]:"emu";
  size_t stride = 0x40000000; int m=3, n=16;
  orc_init();
  OrcProgram *p = orc_program_new();
  orc_program_set_2d(p);
  orc_program_add_destination(p,1,"d1");
  orc_program_add_source(p,1,"s1");
  orc_program_append_str(p,"copyb","d1","s1",NULL);
  OrcCompileResult r = orc_program_compile(p);
  printf("compile %d\n", r);
  size_t len = stride*(m-1)+4096;
  unsigned char *s = mmap(0,len,PROT_READ|PROT_WRITE,MAP_PRIVATE|MAP_ANONYMOUS|MAP_NORESERVE,-1,0);
  unsigned char *d = mmap(0,len,PROT_READ|PROT_WRITE,MAP_PRIVATE|MAP_ANONYMOUS|MAP_NORESERVE,-1,0);
  if (s==MAP_FAILED||d==MAP_FAILED){perror("mmap");return 77;}
  for(int j=0;j<m;j++) for(int i=0;i<n;i++) s[j*stride+i]=j*16+i+1;
  OrcExecutor *ex = orc_executor_new(p);
  orc_executor_set_n(ex,n); orc_executor_set_m(ex,m);
  orc_executor_set_array(ex,ORC_VAR_D1,d); orc_executor_set_stride(ex,ORC_VAR_D1,(int)stride);
  orc_executor_set_array(ex,ORC_VAR_S1,s); orc_executor_set_stride(ex,ORC_VAR_S1,(int)stride);
  if (!strcmp(mode,"emu")) orc_executor_emulate(ex); else orc_executor_run(ex);
  int bad=0; for(int j=0;j<m;j++) if (memcmp(d+j*stride,s+j*stride,n)) {printf("row %d not copied\n",j);bad=1;}
  printf(bad?"FAIL\n":"PASS\n");
  return bad; }
