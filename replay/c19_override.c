/* Replay: the documented override variable and executability of the chosen default */
#include <orc/orc.h>
#include <stdio.h>
#include <stdlib.h>
int main(int argc, char **argv) {
  OrcTarget *t;
  setenv(argv[1], argv[2], 1);
  orc_init();
  t = orc_target_get_default();
  printf("%s=%s -> default target %s executable=%d\n", argv[1], argv[2], orc_target_get_name(t), t->executable);
  return 0;
}
