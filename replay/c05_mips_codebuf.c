/* replay for C05: a 52-instruction program compiled for the mips target (found by a seeding sub-agent, confirmed here).
 * Build: cc c05_mips_codebuf.c -I/repo -I/repo/_build -L/repo/_build/orc -lorc-0.4 -o /var/tmp/c05_mips_codebuf ; run with LD_LIBRARY_PATH=/repo/_build/orc (valgrind shows the write)
 * Before the fix orc_mips_emit never checked the 64 KiB code buffer: heap overflow (glibc: double free or corruption). */
/*
 * UNCHANGED TREE: heap overflow of the 64 KiB compiler->code buffer in the
 * MIPS backend (no backend other than x86 compares codeptr with
 * ORC_COMPILER_CODE_BUFFER_SIZE).
 *
 * 1 destination + 6 sources of size 1 make orc_compiler_orc_mips_assemble()
 * emit one unrolled copy of the loop body per alignment combination
 * (limited only by ORC_N_LABELS), so a 52-instruction program (well inside
 * ORC_N_INSNS = 100) produces more than 65536 bytes of code.
 *
 * build: cc -g -o mips_overflow mips_code_buffer_overflow.c \
 *          -I/var/tmp/seed7/C05 -I/var/tmp/seed7/C05/_b \
 *          -L/var/tmp/seed7/C05/_b/orc -lorc-0.4 -Wl,-rpath,/var/tmp/seed7/C05/_b/orc
 * run:   valgrind -q ./mips_overflow        (Invalid write ... 0 bytes after a block of size 65,536)
 *        ./mips_overflow                    (glibc usually aborts in free(): "invalid next size"/"corrupted")
 */
#include <stdio.h>
#include <stdlib.h>
#include <orc/orc.h>

int
main (int argc, char **argv)
{
  int n = argc > 1 ? atoi (argv[1]) : 50;
  OrcTarget *t;
  OrcProgram *p;
  char name[8];
  int i, r;

  orc_init ();
  t = orc_target_get_by_name ("mips");
  if (!t) { printf ("mips backend not built\n"); return 0; }

  p = orc_program_new ();
  orc_program_add_destination (p, 1, "d1");
  for (i = 0; i < 6; i++) {
    sprintf (name, "s%d", i + 1);
    orc_program_add_source (p, 1, name);
  }
  orc_program_add_temporary (p, 1, "t1");
  orc_program_append_str (p, "copyb", "t1", "s1", NULL);
  for (i = 0; i < n; i++) {
    sprintf (name, "s%d", i + 1);
    orc_program_append_str (p, "avgub", "t1", "t1", i < 6 ? name : "t1");
  }
  orc_program_append_str (p, "copyb", "d1", "t1", NULL);

  r = orc_program_compile_full (p, t, orc_target_get_default_flags (t));
  printf ("result 0x%x, code size %d (buffer is 65536)\n", r,
      p->orccode ? p->orccode->code_size : -1);
  orc_program_free (p);
  return 0;
}
