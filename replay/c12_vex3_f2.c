/* replay for C12/C02: a VEX instruction with mandatory prefix F2 that needs the three-byte VEX form (an xmm8..15 operand).
 * Build: cc c12_vex3_f2.c -I/repo -I/repo/_build -L/repo/_build/orc -lorc-0.4 -o /var/tmp/c12_vex3_f2
 * Run:   LD_LIBRARY_PATH=/repo/_build/orc /var/tmp/c12_vex3_f2 > /var/tmp/code.bin 2> /var/tmp/listing.s
 *        objdump -D -b binary -mi386:x86-64 /var/tmp/code.bin | grep -i pshuf ; grep pshuf /var/tmp/listing.s
 * Before the fix output_3byte_vex_opcode encoded VEX.pp = 2 (F3) for both F2 and F3, so the listing's `vpshuflw` with an
 * xmm8..15 operand was emitted as vpshufhw; the program also computes the wrong value (exit status 1). */
#include <orc/orc.h>
#include <stdio.h>
#include <string.h>
int main (void)
{
  OrcProgram *p;
  OrcExecutor *ex;
  OrcTarget *t;
  int i, bad = 0;
  char nm[8];
  orc_uint64 s[4] = { 0x1111222233334444ULL, 0xaaaabbbbccccddddULL, 0x0123456789abcdefULL, 0xfedcba9876543210ULL };
  orc_uint64 d[4], e[4];
  orc_init ();
  t = orc_target_get_by_name ("avx");
  p = orc_program_new ();
  orc_program_add_destination (p, 8, "d1");
  orc_program_add_source (p, 8, "s1");
  orc_program_add_temporary (p, 8, "t1");
  for (i = 0; i < 8; i++) { sprintf (nm, "p%d", i + 1); orc_program_add_parameter_int64 (p, 8, nm); }
  orc_program_append_str (p, "xorq", "t1", "s1", "p1");
  for (i = 1; i < 8; i++) { sprintf (nm, "p%d", i + 1); orc_program_append_str (p, "xorq", "t1", "t1", nm); }
  orc_program_append_str (p, "splatw3q", "d1", "t1", NULL);
  if (orc_program_compile_full (p, t, orc_target_get_default_flags (t)) != ORC_COMPILE_RESULT_OK) { fprintf (stderr, "not compiled for avx\n"); return 2; }
  fprintf (stderr, "%s", orc_program_get_asm_code (p));
  fwrite (p->orccode->code, 1, p->orccode->code_size, stdout);
  for (i = 0; i < 2; i++) {
    ex = orc_executor_new (p);
    orc_executor_set_n (ex, 4);
    orc_executor_set_array_str (ex, "d1", i ? e : d);
    orc_executor_set_array_str (ex, "s1", s);
    /* all parameters zero: t1 == s1 */
    if (i) orc_executor_emulate (ex); else orc_executor_run (ex);
    orc_executor_free (ex);
  }
  for (i = 0; i < 4; i++) {
    fprintf (stderr, "# splatw3q(%016llx): native %016llx emulated %016llx%s\n", (unsigned long long) s[i], (unsigned long long) d[i], (unsigned long long) e[i], d[i] == e[i] ? "" : "  <-- differs");
    bad += d[i] != e[i];
  }
  return bad != 0;
}
