/* Two flag-gating gaps in the unchanged tree (asm text inspection only):
 *  1. sse, flags SSE2|SSE4.2 WITHOUT SSE4.1: convsssql compiles (rule set
 *     requires only SSE4.2) but the rule emits blendvpd, an SSE4.1 instruction.
 *  2. mmx, flags MMX|MMXEXT|SSE4.2: cmpgtsq compiles and emits
 *     "pcmpgtq %mm1, %mm0" -- pcmpgtq has no MMX-register form at all
 *     (bytes 0f 38 37 without 66 prefix are undefined).
 */
#include "common.h"
static int check (const char *src, const char *target, unsigned int flags, const char *needle)
{
  OrcProgram *p = build (src, target, flags, 0);
  const char *a;
  if (!p) { printf ("  (does not compile: fine)\n"); return 0; }
  a = orc_program_get_asm_code (p);
  if (a && strstr (a, needle)) { printf ("FAIL: %s flags 0x%x emits \"%s\"\n", target, flags, needle); return 1; }
  printf ("PASS: %s flags 0x%x has no \"%s\"\n", target, flags, needle);
  return 0;
}
int main (void)
{
  int r = 0;
  r |= check (".function a\n.dest 4 d1\n.source 8 s1\nconvsssql d1, s1\n", "sse",
      ORC_TARGET_SSE_SSE2 | ORC_TARGET_SSE_SSE4_2 | ORC_TARGET_SSE_64BIT, "blendvpd");
  r |= check (".function b\n.dest 8 d1\n.source 8 s1\n.source 8 s2\ncmpgtsq d1, s1, s2\n", "mmx",
      ORC_TARGET_MMX_MMX | ORC_TARGET_MMX_MMXEXT | ORC_TARGET_MMX_SSE4_2 | ORC_TARGET_MMX_64BIT, "pcmpgtq %mm");
  return r;
}
