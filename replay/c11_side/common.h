#include <stdio.h>
#include <stdlib.h>
#include <string.h>
#include <orc/orc.h>

static OrcProgram *
build (const char *source, const char *target_name, unsigned int flags, int show_asm)
{
  OrcProgram **programs = NULL;
  OrcProgram *p;
  OrcCompileResult res;
  int n;
  orc_init ();
  n = orc_parse (source, &programs);
  if (n != 1) { printf ("parse error\n"); exit (2); }
  p = programs[0];
  res = orc_program_compile_full (p, orc_target_get_by_name (target_name), flags);
  if (!ORC_COMPILE_RESULT_IS_SUCCESSFUL (res)) {
    printf ("compile failed (%d) for flags 0x%x\n", res, flags);
    return NULL;
  }
  if (show_asm) printf ("%s\n", orc_program_get_asm_code (p));
  return p;
}
