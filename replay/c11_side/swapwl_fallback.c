/* sse swapwl with SSSE3: sse_rule_swapwl_ssse3 falls back to sse_rule_swapl
 * (byte swap) instead of sse_rule_swapwl (word swap) when its pshufb mask did
 * not get a constant-pool register, i.e. under vector register pressure. */
#include "common.h"
int main (int argc, char **argv)
{
  unsigned int flags = argc > 1 ? strtoul (argv[1], NULL, 0) : 0x207;
  int k = argc > 2 ? atoi (argv[2]) : 13;   /* number of live invariants */
  char source[4096]; int len = 0, i, bad = 0;
  OrcProgram *p; OrcExecutor *ex;
  orc_uint32 s1[21], d1[21];
  len += sprintf (source + len, ".function t_swapwl\n.dest 4 d1\n.source 4 s1\n.temp 4 t\n");
  for (i = 0; i < k && i < 8; i++) len += sprintf (source + len, ".const 4 c%d %d\n", i + 1, 0x1234567 + 977 * i);
  for (i = 8; i < k; i++) len += sprintf (source + len, ".param 4 p%d\n", i - 7);
  len += sprintf (source + len, "loadl t, s1\n");
  for (i = 0; i < k && i < 8; i++) len += sprintf (source + len, "xorl t, t, c%d\n", i + 1);
  for (i = 8; i < k; i++) len += sprintf (source + len, "xorl t, t, p%d\n", i - 7);
  len += sprintf (source + len, "swapwl d1, t\n");
  p = build (source, "sse", flags, argc > 3);
  if (!p) return 2;
  for (i = 0; i < 21; i++) s1[i] = 0x01020304u * (i + 1) + 0x10;
  ex = orc_executor_new (p);
  orc_executor_set_n (ex, 21);
  orc_executor_set_array_str (ex, "d1", d1);
  orc_executor_set_array_str (ex, "s1", s1);
  for (i = 8; i < k; i++) orc_executor_set_param (ex, ORC_VAR_P1 + (i - 8), 0x01010101 * (i - 6));
  orc_executor_run (ex);
  for (i = 0; i < 21; i++) {
    orc_uint32 v = s1[i]; int j;
    for (j = 0; j < k && j < 8; j++) v ^= (orc_uint32)(0x1234567 + 977 * j);
    for (j = 8; j < k; j++) v ^= (orc_uint32)(0x01010101 * (j - 6));
    v = (v << 16) | (v >> 16);
    if (d1[i] != v) { if (!bad) printf ("i=%d got %08x expected %08x\n", i, d1[i], v); bad++; }
  }
  printf ("%s flags 0x%x k=%d: %d wrong\n", bad ? "FAIL" : "PASS", flags, k, bad);
  return bad != 0;
}
