/* sse convsssql (SSE 4.2 rule, sse_rule_convsssql_sse41): the rule takes its
 * temporaries with orc_compiler_get_temp_reg() and then uses XMM0 as the
 * implicit blendvpd mask.  When XMM0 is free at that point (the source lives
 * in another register) the first temporary -- the INT32_MAX constant -- IS
 * XMM0 and is overwritten before it is used. */
#include "common.h"
static const char *source =
  ".function t_convsssql\n"
  ".dest 4 d1\n"
  ".dest 8 d2\n"
  ".source 8 s1\n"
  ".source 8 s2\n"
  ".temp 8 a\n"
  ".temp 8 b\n"
  "loadq a, s1\n"
  "loadq b, s2\n"
  "storeq d2, a\n"
  "convsssql d1, b\n";
int main (int argc, char **argv)
{
  unsigned int flags = argc > 1 ? strtoul (argv[1], NULL, 0) : 0x21f;
  OrcProgram *p = build (source, "sse", flags, argc > 2);
  OrcExecutor *ex;
  orc_int64 s1[9], s2[9], d2[9]; orc_int32 d1[9];
  int i, bad = 0;
  if (!p) return 2;
  for (i = 0; i < 9; i++) { s1[i] = i; s2[i] = (i & 1) ? ((orc_int64)i << 40) : -((orc_int64)i << 36) + i; if (i % 3 == 0) s2[i] = 1000 - i; }
  ex = orc_executor_new (p);
  orc_executor_set_n (ex, 9);
  orc_executor_set_array_str (ex, "d1", d1);
  orc_executor_set_array_str (ex, "d2", d2);
  orc_executor_set_array_str (ex, "s1", s1);
  orc_executor_set_array_str (ex, "s2", s2);
  orc_executor_run (ex);
  for (i = 0; i < 9; i++) {
    orc_int64 v = s2[i]; orc_int32 e = v > 0x7fffffffLL ? 0x7fffffff : v < -0x80000000LL ? (-0x7fffffff - 1) : (orc_int32) v;
    if (d1[i] != e) { if (bad < 3) printf ("i=%d src %lld got %d expected %d\n", i, (long long) v, d1[i], e); bad++; }
  }
  printf ("%s flags 0x%x: %d wrong\n", bad ? "FAIL" : "PASS", flags, bad);
  return bad != 0;
}
