#!/bin/sh
# Builds and runs the side-finding reproducers against /repo/_build.
# Each prints PASS/FAIL; all of them FAIL on the unchanged tree as well
# (they are independent of the seeded change).
ROOT=/repo
B=$ROOT/_build
HERE=$(cd "$(dirname "$0")" && pwd)
T=${TMPDIR:-/tmp}/seed7_C11_extra.$$
mkdir -p "$T"
for f in select1ql convsssql_xmm0 swapwl_fallback isa_flags; do
  cc -O1 -DORC_ENABLE_UNSTABLE_API -I"$ROOT" -I"$B" "$HERE/$f.c" -o "$T/$f" \
     -L"$B/orc" -lorc-0.4 -Wl,-rpath,"$B/orc" || exit 2
done
echo "== select1ql, source still live afterwards (sse, mmx)"
"$T/select1ql" sse 0x201; "$T/select1ql" mmx 0x203
echo "== convsssql with XMM0 free (sse, all flags)"
"$T/convsssql_xmm0" 0x21f
echo "== swapwl under register pressure: SSSE3 vs no SSSE3"
"$T/swapwl_fallback" 0x207 14; "$T/swapwl_fallback" 0x203 14
echo "== flag gating gaps"
"$T/isa_flags"
rm -rf "$T"
