/* select1ql (and select1ql on mmx) when the source register is still live
 * after the instruction (src != dest): the rule shifts dest, then overwrites
 * dest from src, so the LOW half is returned instead of the HIGH half. */
#include "common.h"
static const char *source =
  ".function t_select1ql\n"
  ".dest 4 d1\n"
  ".dest 8 d2\n"
  ".source 8 s1\n"
  ".temp 8 t1\n"
  "loadq t1, s1\n"
  "select1ql d1, t1\n"
  "copyq d2, t1\n";
int main (int argc, char **argv)
{
  const char *tn = argc > 1 ? argv[1] : "sse";
  unsigned int flags = argc > 2 ? strtoul (argv[2], NULL, 0) : 0x201;
  OrcProgram *p = build (source, tn, flags, 0);
  OrcExecutor *ex;
  orc_uint64 s1[9]; orc_uint32 d1[9]; orc_uint64 d2[9];
  int i, bad = 0;
  if (!p) return 2;
  for (i = 0; i < 9; i++) s1[i] = ((orc_uint64)(0xA0000000u + i) << 32) | (0x0B000000u + i);
  ex = orc_executor_new (p);
  orc_executor_set_n (ex, 9);
  orc_executor_set_array_str (ex, "d1", d1);
  orc_executor_set_array_str (ex, "d2", d2);
  orc_executor_set_array_str (ex, "s1", s1);
  orc_executor_run (ex);
  for (i = 0; i < 9; i++) if (d1[i] != (orc_uint32)(s1[i] >> 32)) { if (!bad) printf ("i=%d got %08x expected %08x\n", i, d1[i], (orc_uint32)(s1[i] >> 32)); bad++; }
  printf ("%s target %s flags 0x%x: %d wrong\n", bad ? "FAIL" : "PASS", tn, flags, bad);
  return bad != 0;
}
