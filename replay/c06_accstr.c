/* replay for C06/C02: orc_executor_get_accumulator_str (found by three seeding sub-agents, confirmed here).
 * Build: cc c06_accstr.c -I/repo -I/repo/_build -L/repo/_build/orc -lorc-0.4 -o /var/tmp/c06_accstr ; run with LD_LIBRARY_PATH=/repo/_build/orc
 * Before the fix it indexed ex->accumulators[] (4 entries) with the raw variable number (ORC_VAR_A1 == 12 and up): out-of-bounds read. */
/* orc_executor_get_accumulator_str() indexes ex->accumulators[] with the
 * variable number (ORC_VAR_A1 == 12 ...) instead of var - ORC_VAR_A1, so it
 * reads past the 4-entry array and never returns the accumulated sum. */
#include <stdio.h>
#include <stdlib.h>
#include <orc/orc.h>
#include <orc/orcparse.h>
static const char *src =
".function f\n"
".accumulator 4 a1\n"
".source 4 s\n"
"accl a1, s\n";
int main (void)
{
  OrcProgram **progs; char *log = NULL; OrcExecutor *ex; int s[10], i, want = 0, by_idx, by_str;
  orc_init ();
  if (orc_parse_full (src, &progs, &log) != 1) return 2;
  orc_program_compile (progs[0]);
  for (i = 0; i < 10; i++) { s[i] = 1000 + i; want += s[i]; }
  ex = orc_executor_new (progs[0]);
  orc_executor_set_n (ex, 10);
  orc_executor_set_array_str (ex, "s", s);
  orc_executor_emulate (ex);
  by_idx = orc_executor_get_accumulator (ex, ORC_VAR_A1);
  by_str = orc_executor_get_accumulator_str (ex, "a1");
  printf ("want %d, get_accumulator %d, get_accumulator_str %d (var index %d, array has 4 entries)\n",
      want, by_idx, by_str, orc_program_find_var_by_name (progs[0], "a1"));
  return (by_idx == want && by_str == want) ? 0 : 1;
}
