#!/bin/sh
# usage: c12_compare.sh <libdir> <incdir> <target>   -- compares JIT bytes with `as` of the listing
set -e
D=$(mktemp -d /var/tmp/c12.XXXXXX)
gcc -I/repo -I$2 -DORC_ENABLE_UNSTABLE_API $(dirname $0)/c12_listing.c -o $D/dump -L$1 -lorc-0.4 -Wl,-rpath,$1
$D/dump $3 $D/jit.bin $D/list.s
as --64 $D/list.s -o $D/list.o
objcopy -O binary -j .text $D/list.o $D/as.bin
objdump -D -b binary -mi386:x86-64 $D/jit.bin | sed -n '8,$p' | cut -f3 > $D/jit.dis
objdump -D -b binary -mi386:x86-64 $D/as.bin | sed -n '8,$p' | cut -f3 > $D/as.dis
if diff $D/jit.dis $D/as.dis > $D/diff; then echo "SAME instruction sequence ($(wc -l < $D/jit.dis) insns)"; else echo "DIFFERENT:"; head -20 $D/diff; fi
rm -rf $D
