
.function c19_extra_add
.dest 2 d1
.source 2 s1
.source 2 s2

addw d1, s1, s2
