#!/bin/sh
# Side finding (unchanged tree): `orcc --implementation --target T` only honours
# T in the lazy-init code path.  When the .orc file has an `.init` directive
# (or --init-function is given) the programs are compiled in the generated
# init function, which always emits `orc_program_compile (p)` -- the named
# target is silently dropped and the default backend is used instead.
# exit 0 = target honoured in both modes, 1 = dropped.
ORCC=/repo/_build/tools/orcc
HERE=$(cd "$(dirname "$0")" && pwd)
T=$(mktemp -d "$HERE/tmp.XXXXXX") || exit 2
$ORCC --implementation --target sse -o "$T/lazy.c" "$HERE/lazy.orc" || exit 2
$ORCC --implementation --target sse -o "$T/init.c" "$HERE/with_init.orc" || exit 2
echo "lazy-init mode:";     grep -n "orc_program_compile" "$T/lazy.c"
echo "init-function mode:"; grep -n "orc_program_compile" "$T/init.c"
rc=0
grep -q 'orc_program_compile_for_target (p, orc_target_get_by_name ("sse"))' "$T/lazy.c" || rc=1
grep -q 'orc_program_compile_for_target (p, orc_target_get_by_name ("sse"))' "$T/init.c" || rc=1
rm -rf "$T"
if [ $rc -eq 0 ]; then echo PASS; else echo "FAIL: --target sse dropped in init-function mode"; fi
exit $rc
