#!/bin/sh
# Side finding reproducer (UNCHANGED tree): a program compiled for a target that
# is registered but not executable on this CPU is run as if it were native code.
# usage: sh run.sh [target]   (default: c; also try neon, mips, altivec, c64x-c)
T=/var/tmp/seed8/C06
HERE=$(cd "$(dirname "$0")" && pwd)
OUT=${TMPDIR:-/tmp}/seed8_C06_extra.$$
${CC:-cc} -g -o "$OUT" "$HERE/nonexec_target.c" -I$T -I$T/_b -DORC_ENABLE_UNSTABLE_API \
    -L$T/_b/orc -lorc-0.4 -Wl,-rpath,$T/_b/orc || exit 3
"$OUT" "${1:-c}"
rc=$?
rm -f "$OUT"
echo "exit status $rc (0 = same as emulation, 139 = SIGSEGV, 132 = SIGILL)"
exit $rc
