#include <stdio.h>
#include <stdlib.h>
#include <string.h>
#include <orc/orc.h>
#define N 64
int main(int argc, char **argv)
{
  const char *tname = argc > 1 ? argv[1] : "c";
  unsigned char s1[N], d1[N], d2[N];
  int i;
  orc_init();
  for (i=0;i<N;i++) s1[i]=i*3+1;
  OrcProgram *p = orc_program_new_ds(1,1);
  orc_program_append_ds_str(p, "copyb", "d1", "s1");
  OrcTarget *t = orc_target_get_by_name(tname);
  if (!t) { printf("no target %s\n", tname); return 2; }
  OrcCompileResult r = orc_program_compile_for_target(p, t);
  printf("target %s executable=%d result=%d successful=%d code_exec=%p emulate=%p\n", tname, t->executable, r,
      ORC_COMPILE_RESULT_IS_SUCCESSFUL(r), (void*)p->code_exec, (void*)orc_executor_emulate);
  fflush(stdout);
  OrcExecutor *ex = orc_executor_new(p);
  orc_executor_set_n(ex, N);
  orc_executor_set_array(ex, ORC_VAR_S1, s1);
  memset(d1,0,N); memset(d2,0,N);
  orc_executor_set_array(ex, ORC_VAR_D1, d1);
  orc_executor_run(ex);
  orc_executor_set_array(ex, ORC_VAR_D1, d2);
  orc_executor_emulate(ex);
  printf("%s\n", memcmp(d1,d2,N)?"MISMATCH":"same");
  return memcmp(d1,d2,N)!=0;
}
