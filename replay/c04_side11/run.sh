#!/bin/sh
# exit 0: generated C == emulation for all four programs; 1: some differ
set -e
TOP=${ORC_TOP:-/repo}
B=${ORC_BUILD:-$TOP/_build}
HERE=$(cd "$(dirname "$0")" && pwd)
OUT=${TMPDIR:-/var/tmp}/c04_side11.$$
rm -rf "$OUT"; mkdir -p "$OUT"
cp "$HERE/extra.orc" "$OUT/"
LD_LIBRARY_PATH=$B/orc${LD_LIBRARY_PATH:+:$LD_LIBRARY_PATH}; export LD_LIBRARY_PATH
"$B/tools/orcc" --include stdint.h --implementation -o "$OUT/gen.c" "$OUT/extra.orc"
${CC:-cc} -O1 -std=gnu99 -w -I"$OUT" -I$TOP -I$B -o "$OUT/extra" "$HERE/extra.c" \
    -L"$B/orc" -lorc-0.4 -lm -Wl,-rpath,"$B/orc"
cd "$OUT" && ./extra
