/* Reproducers for divergences between generated C and emulation that exist in
 * the UNCHANGED tree (they do not depend on the seeded change). */
#include <stdio.h>
#include <stdlib.h>
#include <string.h>
#include <orc/orc.h>
#include <orc/orcparse.h>
#include "gen.c"

static OrcProgram *find (OrcProgram **ps, int n, const char *name)
{ int i; for (i=0;i<n;i++) if (!strcmp (ps[i]->name, name)) return ps[i]; exit (2); }
static char *rd (const char *f)
{ FILE *fp = fopen (f, "r"); char *b = malloc (65536); size_t n = fread (b,1,65535,fp); b[n]=0; fclose (fp); return b; }

int main (void)
{
  OrcProgram **ps, *p; OrcParseError **errs; int np, ne, bad = 0, i;
  OrcExecutor *ex;

  orc_init ();
  orc_parse_code (rd ("extra.orc"), &ps, &np, &errs, &ne);
  if (ne) return 2;

  {
    unsigned char s[32], c[32], e[32];
    for (i=0;i<32;i++) s[i] = i + 1;
    p = find (ps, np, "up2"); orc_program_compile (p);
    ex = orc_executor_new (p); orc_executor_set_n (ex, 8);
    orc_executor_set_array (ex, ORC_VAR_S1, s);
    memset (c,0,32); memset (e,0,32);
    orc_executor_set_array (ex, ORC_VAR_D1, c); _backup_up2 (ex);
    orc_executor_set_array (ex, ORC_VAR_D1, e); orc_executor_emulate (ex);
    printf ("x2 loadupdb  C:  "); for (i=0;i<16;i++) printf ("%d ", c[i]);
    printf ("\n             emu: "); for (i=0;i<16;i++) printf ("%d ", e[i]);
    printf ("\n  -> %s\n", memcmp (c,e,32) ? "DIFFER" : "same");
    bad += !!memcmp (c,e,32);
    orc_executor_free (ex);
  }
  {
    unsigned short s[16]; int c, e;
    for (i=0;i<16;i++) s[i] = i + 1;
    p = find (ps, np, "acc2"); orc_program_compile (p);
    ex = orc_executor_new (p); orc_executor_set_n (ex, 8);
    orc_executor_set_array (ex, ORC_VAR_S1, s);
    _backup_acc2 (ex); c = ex->accumulators[0];
    orc_executor_emulate (ex); e = ex->accumulators[0];
    printf ("x2 accw      C: 0x%08x  emu: 0x%08x -> %s\n", c, e, c != e ? "DIFFER" : "same");
    bad += c != e;
    orc_executor_free (ex);
  }
  {
    unsigned int s[16]; int c, e;
    for (i=0;i<16;i++) s[i] = i + 1;
    p = find (ps, np, "accl2"); orc_program_compile (p);
    ex = orc_executor_new (p); orc_executor_set_n (ex, 8);
    orc_executor_set_array (ex, ORC_VAR_S1, s);
    _backup_accl2 (ex); c = ex->accumulators[0];
    orc_executor_emulate (ex); e = ex->accumulators[0];
    printf ("x2 accl      C: %d  emu: %d -> %s\n", c, e, c != e ? "DIFFER" : "same");
    bad += c != e;
    orc_executor_free (ex);
  }
  {
    /* the source pointer is in the middle of a big buffer so that the wrapped
     * (negative) index the C code computes stays inside our allocation */
    int N = 40000, G = 40000, diff = 0, first = -1;
    signed char *buf = malloc (G + N + 16), *s = buf + G;
    signed char *c = calloc (N, 1), *e = calloc (N, 1);
    for (i = 0; i < G + N + 16; i++) buf[i] = (signed char) ((i * 2654435761u) >> 24);
    p = find (ps, np, "near"); orc_program_compile (p);
    ex = orc_executor_new (p); orc_executor_set_n (ex, N);
    orc_executor_set_array (ex, ORC_VAR_S1, s);
    orc_executor_set_param (ex, ORC_VAR_P1, 0);
    orc_executor_set_param (ex, ORC_VAR_P2, 0x10000);   /* scale 1:1 */
    orc_executor_set_array (ex, ORC_VAR_D1, c); _backup_near (ex);
    orc_executor_set_array (ex, ORC_VAR_D1, e); orc_executor_emulate (ex);
    for (i = 0; i < N; i++) if (c[i] != e[i]) { if (first < 0) first = i; diff++; }
    printf ("ldresnearb n=40000 scale 1.0: %d elements differ, first at i=%d -> %s\n",
        diff, first, diff ? "DIFFER" : "same");
    bad += !!diff;
    orc_executor_free (ex);
  }
  return bad ? 1 : 0;
}
