# 1. loadupdb under x2: s1/d1 are 2-byte elements
.function up2
.dest 2 d1
.source 2 s1
x2 loadupdb d1, s1

# 2. accw under x2: 4-byte accumulator, 4-byte source elements
.function acc2
.accumulator 4 a1
.source 4 s1
x2 accw a1, s1

# 3. accl under x2
.function accl2
.accumulator 8 a1
.source 8 s1
x2 accl a1, s1

# 4. nearest-neighbour resampling of a line longer than 32768 elements
.function near
.dest 1 d1
.source 1 s1
.param 4 p1
.param 4 p2
ldresnearb d1, s1, p1, p2
