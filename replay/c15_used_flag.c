/* Side finding: orc_parse leaves vars[].used = TRUE in the returned program
 * (orc_parse_sanity_check side effect); the API-built program has used = 0.
 * The compiler memcpy()s program->vars, so the parsed program is compiled
 * differently: every temporary's first write is treated as a re-definition
 * and gets a ".dupN" temporary. */
#include <orc/orc.h>
#include <orc/orcparse.h>
#include <stdio.h>
#include <string.h>
#include <stdlib.h>

int main (void)
{
  static const char *txt =
    ".function f\n.dest 2 d1\n.source 2 s1\n.temp 2 t1\n"
    "addw t1, s1, s1\naddw d1, t1, s1\n";
  OrcProgram **progs; int n, i, diff = 0;
  OrcProgram *a;
  orc_init ();
  n = orc_parse (txt, &progs);
  if (n != 1) return 2;
  a = orc_program_new ();
  orc_program_set_name (a, "f");
  orc_program_add_destination (a, 2, "d1");
  orc_program_add_source (a, 2, "s1");
  orc_program_add_temporary (a, 2, "t1");
  orc_program_append_str (a, "addw", "t1", "s1", "s1");
  orc_program_append_str (a, "addw", "d1", "t1", "s1");
  for (i = 0; i < ORC_N_VARIABLES; i++) {
    if (progs[0]->vars[i].used != a->vars[i].used) {
      printf ("var %d (%s): used text=%d api=%d\n", i, a->vars[i].name,
          progs[0]->vars[i].used, a->vars[i].used);
      diff++;
    }
  }
  {
    OrcCompileResult r1, r2;
    const char *s1, *s2;
    r1 = orc_program_compile_full (progs[0], orc_target_get_by_name ("c"), 0);
    r2 = orc_program_compile_full (a, orc_target_get_by_name ("c"), 0);
    s1 = orc_program_get_asm_code (progs[0]);
    s2 = orc_program_get_asm_code (a);
    printf ("compile: text=%d api=%d, C output %s\n", r1, r2,
        (s1 && s2 && strcmp (s1, s2) == 0) ? "identical" : "DIFFERENT");
    if (s1 && s2 && strcmp (s1, s2)) { diff++; printf ("--- text:\n%s\n--- api:\n%s\n", s1, s2); }
  }
  printf (diff ? "FAIL\n" : "PASS\n");
  return diff ? 1 : 0;
}
