/* replay for C14/C15: a constant whose value token is only a sign ("-" or "+").
 * Build: cc c14_const_sign.c -I/repo -I/repo/_build -L/repo/_build/orc -lorc-0.4 -o /var/tmp/c14_const_sign
 * Run:   LD_LIBRARY_PATH=/repo/_build/orc valgrind -q --error-exitcode=9 /var/tmp/c14_const_sign
 * Before the fix _strtoll() returned early without storing *endptr; orc_program_add_constant_str() then read end[0]
 * through an uninitialised pointer (valgrind: use of uninitialised value / invalid read; SIGSEGV with most stack contents). */
#include <orc/orc.h>
#include <orc/orcparse.h>
#include <stdio.h>
#include <string.h>
#include <stdlib.h>
static void scribble (void) { volatile char junk[4096]; memset ((void *) junk, 0x5a, sizeof (junk)); }
int main (void)
{
  const char *texts[] = { ".function f\n.dest 4 d1\n.const 4 c -\ncopyl d1, c\n", ".function f\n.dest 4 d1\n.const 4 c +\ncopyl d1, c\n", NULL };
  int k;
  orc_init ();
  for (k = 0; texts[k]; k++) {
    OrcProgram **progs = NULL; OrcParseError **errs = NULL; int n = 0, ne = 0, i;
    scribble ();
    orc_parse_code (texts[k], &progs, &n, &errs, &ne);
    printf ("text %d: programs=%d errors=%d\n", k, n, ne);
    orc_parse_error_freev (errs);
    for (i = 0; i < n; i++) orc_program_free (progs[i]);
    free (progs);
  }
  return 0;
}
