/* replay for C02: the unsigned->signed saturating narrowing of 64-bit values.
 * Build: cc c02_convus_sat.c -I/repo -I/repo/_build -L/repo/_build/orc -lorc-0.4 -o /var/tmp/c02_convus_sat
 * Run:   LD_LIBRARY_PATH=/repo/_build/orc /var/tmp/c02_convus_sat
 * Reference (doc/opcode_table.xml): convussql = clamp(a), unsigned source, signed 32-bit result: min(a, 0x7fffffff).
 * Before the fix the emulator (and the generated C, same opcodes.h expression) compared the orc_uint64 operand
 * against ORC_SL_MIN converted to unsigned (0xffffffff80000000), so every source value below that gave INT32_MIN. */
#include <orc/orc.h>
#include <stdio.h>
#include <string.h>
int main (void)
{
  OrcProgram *p;
  OrcExecutor *ex;
  orc_uint64 s[4] = { 5, 0x7fffffffULL, 0x100000000ULL, 0xffffffffffffffffULL };
  orc_int32 want[4] = { 5, 0x7fffffff, 0x7fffffff, 0x7fffffff };
  orc_int32 d[4];
  int i, bad = 0;
  orc_init ();
  p = orc_program_new ();
  orc_program_add_destination (p, 4, "d1");
  orc_program_add_source (p, 8, "s1");
  orc_program_append_str (p, "convussql", "d1", "s1", NULL);
  orc_program_compile (p);
  ex = orc_executor_new (p);
  orc_executor_set_n (ex, 4);
  orc_executor_set_array_str (ex, "d1", d);
  orc_executor_set_array_str (ex, "s1", s);
  orc_executor_emulate (ex);
  for (i = 0; i < 4; i++) {
    printf ("convussql(0x%llx) = %d, reference %d%s\n", (unsigned long long) s[i], d[i], want[i], d[i] == want[i] ? "" : "   <-- differs");
    bad += d[i] != want[i];
  }
  return bad != 0;
}
