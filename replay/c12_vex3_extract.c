/* replay for C12/C02: vextractf128 (type IMM8_AVX_SSEM, one source) with exactly one of source / destination in ymm8..15.
 * Build: cc c12_vex3_extract.c -I/repo -I/repo/_build -L/repo/_build/orc -lorc-0.4 -o /var/tmp/c12_vex3_extract
 * Run:   LD_LIBRARY_PATH=/repo/_build/orc /var/tmp/c12_vex3_extract > /var/tmp/code.bin 2> /var/tmp/listing.s
 *        objdump -D -b binary -mi386:x86-64 /var/tmp/code.bin | grep -i vextract ; grep vextract /var/tmp/listing.s
 * Before the fix the one-source arm of output_3byte_vex_opcode computed VEX.R from dest and VEX.B from src[0] for this type,
 * the reverse of the ModRM byte (reg = src[0], r/m = dest): the accumulator reduction read and wrote the wrong registers. */
#include <orc/orc.h>
#include <stdio.h>
#include <string.h>
int main (void)
{
  OrcProgram *p;
  OrcExecutor *ex;
  OrcTarget *t;
  int i, k, bad = 0;
  char nm[8];
  orc_int16 s[40];
  int got[2];
  orc_init ();
  t = orc_target_get_by_name ("avx");
  p = orc_program_new ();
  orc_program_add_source (p, 2, "s1");
  orc_program_add_accumulator (p, 2, "a1");
  orc_program_add_temporary (p, 2, "t1");
  for (i = 0; i < 8; i++) { sprintf (nm, "p%d", i + 1); orc_program_add_parameter (p, 2, nm); }
  orc_program_append_str (p, "addw", "t1", "s1", "p1");
  for (i = 1; i < 8; i++) { sprintf (nm, "p%d", i + 1); orc_program_append_str (p, "addw", "t1", "t1", nm); }
  orc_program_append_str (p, "accw", "a1", "t1", NULL);
  if (orc_program_compile_full (p, t, orc_target_get_default_flags (t)) != ORC_COMPILE_RESULT_OK) { fprintf (stderr, "not compiled for avx\n"); return 2; }
  fprintf (stderr, "%s", orc_program_get_asm_code (p));
  fwrite (p->orccode->code, 1, p->orccode->code_size, stdout);
  for (i = 0; i < 40; i++) s[i] = 100 + i;
  for (k = 0; k < 2; k++) {
    ex = orc_executor_new (p);
    orc_executor_set_n (ex, 40);
    orc_executor_set_array_str (ex, "s1", s);
    if (k) orc_executor_emulate (ex); else orc_executor_run (ex);
    got[k] = orc_executor_get_accumulator (ex, ORC_VAR_A1);
    orc_executor_free (ex);
  }
  fprintf (stderr, "# accumulator: native %d emulated %d%s\n", got[0], got[1], got[0] == got[1] ? "" : "   <-- differs");
  bad = got[0] != got[1];
  return bad;
}
