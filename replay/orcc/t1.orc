.function f_acc
.backup f_acc_backup
.source 2 s1
.accumulator 4 a1
accw a1, s1
