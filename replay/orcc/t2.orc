.function f_constn
.backup f_constn_backup
.n 8
.dest 1 d1
.source 1 s1
copyb d1, s1
