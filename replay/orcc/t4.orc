.function f_a4
.dest 2 d1
.dest 2 d2
.dest 2 d3
.dest 2 d4
.source 2 s1
.accumulator 2 a1
.accumulator 2 a2
.accumulator 2 a3
.accumulator 2 a4
copyw d1, s1
copyw d2, s1
copyw d3, s1
copyw d4, s1
accw a1, s1
accw a2, s1
accw a3, s1
accw a4, s1
