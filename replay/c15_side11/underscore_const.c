/* UNCHANGED tree: a .const whose name starts with '_' and whose value and size
 * equal an earlier constant is silently not declared; the instruction that
 * names it is then rejected ("bad operand").  Valid text, same program is
 * buildable through orc_program_add_constant(). */
#include <stdio.h>
#include <orc/orc.h>
#include <orc/orcparse.h>

static const char text[] =
  ".function f\n"
  ".dest 4 d1\n"
  ".source 4 s1\n"
  ".const 4 _one 1\n"
  ".const 4 _uno 1\n"
  ".temp 4 t1\n"
  "addl t1, s1, _one\n"
  "addl d1, t1, _uno\n";

int main (void)
{
  OrcProgram **programs; OrcParseError **errors; int n = 0, ne = 0, i;
  orc_init ();
  orc_parse_code (text, &programs, &n, &errors, &ne);
  for (i = 0; i < ne; i++)
    printf ("%s @ %d: %s\n", errors[i]->source, errors[i]->line_number, errors[i]->text);
  printf ("n_insns=%d n_const_vars=%d\n", programs[0]->n_insns, programs[0]->n_const_vars);
  if (ne || programs[0]->n_insns != 2) { printf ("FAIL\n"); return 1; }
  printf ("PASS\n"); return 0;
}
