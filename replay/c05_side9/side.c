/*
 * Side findings: the UNCHANGED tree (9e8c7f1) already breaks the property.
 * Not related to the seeded change.  One finding per mode, run each in its
 * own process (see run.sh):
 *
 *   side neon-fixups     abort   (ORC_ASSERT in orc_arm_add_fixup)
 *   side altivec-fixups  heap corruption (powerpc_add_fixup writes past fixups[])
 *   side sse-no64        SIGSEGV when the "successful" code is called
 *   side c-const64       abort   (ORC_ASSERT(0) in c_get_name_int)
 */
#include <stdio.h>
#include <stdlib.h>
#include <string.h>

#include <orc/orc.h>

/* load s1 -> t1, then COUNT times "op t(i+1), t(i) [, t(i)]" round robin over
 * 16 temporaries, then store.  Stays inside every documented limit. */
static OrcProgram *
chain (const char *op, int size, int two_src, int count)
{
  OrcProgram *p = orc_program_new ();
  char a[8], b[8];
  int i;

  orc_program_add_destination (p, size, "d1");
  orc_program_add_source (p, size, "s1");
  for (i = 0; i < 16; i++) {
    sprintf (a, "t%d", i + 1);
    orc_program_add_temporary (p, size, a);
  }
  orc_program_append_str (p, size == 8 ? "loadq" : "loadl", "t1", "s1", NULL);
  for (i = 0; i < count; i++) {
    sprintf (a, "t%d", (i + 1) % 16 + 1);
    sprintf (b, "t%d", i % 16 + 1);
    orc_program_append_str (p, op, a, b, two_src ? b : NULL);
  }
  sprintf (b, "t%d", count % 16 + 1);
  orc_program_append_str (p, size == 8 ? "storeq" : "storel", "d1", b, NULL);
  return p;
}

int
main (int argc, char **argv)
{
  const char *mode = argc > 1 ? argv[1] : "";
  OrcProgram *p;
  OrcTarget *t;
  int r;

  orc_init ();

  if (!strcmp (mode, "neon-fixups")) {
    /* 20 x splatw3q (22 instructions): every splatw3q loads its shuffle mask
     * from a literal pool, one fixup per copy of the loop body; the 101st
     * fixup hits ORC_ASSERT (n_fixups < ORC_N_FIXUPS) -> abort() */
    t = orc_target_get_by_name ("neon");
    p = chain ("splatw3q", 8, 0, 20);
    r = orc_program_compile_for_target (p, t);
    printf ("neon: result 0x%x\n", r);
  } else if (!strcmp (mode, "altivec-fixups")) {
    /* 46 x divf (48 instructions): powerpc_add_fixup() stores first and only
     * logs "too many fixups" afterwards, so fixups[100..] are written over
     * labels[], labels_int[] ... of the OrcCompiler; glibc then reports
     * "free(): invalid pointer" (or valgrind: invalid writes) */
    t = orc_target_get_by_name ("altivec");
    p = chain ("divf", 4, 1, 46);
    r = orc_program_compile_for_target (p, t);
    printf ("altivec: result 0x%x\n", r);
  } else if (!strcmp (mode, "sse-no64")) {
    /* on an x86-64 host: the sse target with the default flags minus
     * ORC_TARGET_SSE_64BIT produces 32-bit code, reports success and installs
     * it as code_exec; running the program crashes */
    unsigned char a[64], b[64], d[64];
    OrcExecutor *ex;

    t = orc_target_get_by_name ("sse");
    p = orc_program_new_dss (1, 1, 1);
    orc_program_append_str (p, "addb", "d1", "s1", "s2");
    r = orc_program_compile_full (p, t,
        orc_target_get_default_flags (t) & ~ORC_TARGET_SSE_64BIT);
    printf ("sse without 64bit: result 0x%x, native code installed: %d\n", r,
        p->orccode != NULL && p->code_exec == p->orccode->exec);
    fflush (stdout);
    memset (a, 1, 64); memset (b, 2, 64); memset (d, 0, 64);
    ex = orc_executor_new (p);
    orc_executor_set_n (ex, 64);
    orc_executor_set_array (ex, ORC_VAR_D1, d);
    orc_executor_set_array (ex, ORC_VAR_S1, a);
    orc_executor_set_array (ex, ORC_VAR_S2, b);
    orc_executor_run (ex);
    printf ("d[0] = %d\n", d[0]);
  } else if (!strcmp (mode, "c-const64")) {
    /* a 64-bit constant that does not fit an int, used as the scalar operand
     * of a shift: the C backend prints constants with "%d" and asserts on
     * anything else */
    t = orc_target_get_by_name ("c");
    p = orc_program_new ();
    orc_program_add_destination (p, 8, "d1");
    orc_program_add_source (p, 8, "s1");
    orc_program_add_constant_int64 (p, 8, 0x100000000LL, "c1");
    orc_program_append_str (p, "shlq", "d1", "s1", "c1");
    r = orc_program_compile_for_target (p, t);
    printf ("c: result 0x%x\n", r);
  } else {
    fprintf (stderr, "usage: side neon-fixups|altivec-fixups|sse-no64|c-const64\n");
    return 2;
  }
  printf ("survived\n");
  return 0;
}
