#!/bin/sh
# Side findings on the unchanged tree; independent of the seeded change.
here=$(cd "$(dirname "$0")" && pwd)
top=/var/tmp/seed9/C05
b=$top/_b
out=${TMPDIR:-/tmp}/seed9_C05_side.$$
trap 'rm -f "$out"' EXIT
cc -O1 -g -DORC_ENABLE_UNSTABLE_API -I"$top" -I"$b" -o "$out" "$here/side.c" \
   -L"$b/orc" -lorc-0.4 -lm -Wl,-rpath,"$b/orc" || exit 2
unset ORC_CODE ORC_TARGET ORC_DEBUG || true
rc=0
for m in neon-fixups altivec-fixups sse-no64 c-const64; do
  echo "== $m"
  LD_LIBRARY_PATH="$b/orc" "$out" $m 2>&1 | tail -4
  # the pipeline hides the status; run again quietly for it
  LD_LIBRARY_PATH="$b/orc" "$out" $m >/dev/null 2>&1
  s=$?
  echo "   exit status $s"
  [ $s -ne 0 ] && rc=1
done
exit $rc
