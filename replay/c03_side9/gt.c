/* generic guard-page tester: gt file.orc target [flags_xor] [nmax] */
#include <stdio.h>
#include <stdlib.h>
#include <string.h>
#include <signal.h>
#include <setjmp.h>
#include <sys/mman.h>
#include <unistd.h>
#include <orc/orc.h>
#include <orc/orcparse.h>

static sigjmp_buf jb;
static volatile void *fault_addr;
static void handler (int sig, siginfo_t *si, void *u) { fault_addr = si->si_addr; siglongjmp (jb, 1); }

#define PG 4096
#define NPG 64
typedef struct { unsigned char *base; unsigned char *lo; unsigned char *hi; } Region;

static Region region_new (void)
{
  Region r;
  r.base = mmap (NULL, (NPG + 2) * PG, PROT_NONE, MAP_PRIVATE | MAP_ANONYMOUS, -1, 0);
  r.lo = r.base + PG;
  r.hi = r.lo + NPG * PG;
  mprotect (r.lo, NPG * PG, PROT_READ | PROT_WRITE);
  return r;
}

static char *readfile (const char *fn)
{
  FILE *f = fopen (fn, "r"); char *s; long n;
  if (!f) { perror (fn); exit (2); }
  fseek (f, 0, SEEK_END); n = ftell (f); rewind (f);
  s = malloc (n + 1); n = fread (s, 1, n, f); s[n] = 0; fclose (f); return s;
}

int main (int argc, char **argv)
{
  OrcProgram **progs; int np, pi, fails = 0;
  const char *tname = argc > 2 ? argv[2] : "sse";
  unsigned int fx = argc > 3 ? strtoul (argv[3], NULL, 0) : 0;
  int nmax = argc > 4 ? atoi (argv[4]) : 70;
  struct sigaction sa;
  Region reg[16], ref[16];
  int i;

  orc_init ();
  memset (&sa, 0, sizeof sa); sa.sa_sigaction = handler; sa.sa_flags = SA_SIGINFO | SA_NODEFER;
  sigaction (SIGSEGV, &sa, NULL); sigaction (SIGBUS, &sa, NULL);
  np = orc_parse (readfile (argv[1]), &progs);
  for (i = 0; i < 16; i++) { reg[i] = region_new (); ref[i] = region_new (); }

  for (pi = 0; pi < np; pi++) {
    OrcProgram *p = progs[pi];
    OrcTarget *t = orc_target_get_by_name (tname);
    OrcCompileResult res;
    int is2d = p->is_2d;
    int end, n, m, k, mis;
    if (strcmp (tname, "emu") == 0) {
      res = orc_program_compile_full (p, NULL, 0);
    } else {
      res = orc_program_compile_full (p, t, orc_target_get_default_flags (t) ^ fx);
    }
    printf ("program %s target %s: result %d code_exec=%s\n", p->name, tname, res,
        p->code_exec == (void *) orc_executor_emulate ? "emulate" : "native");
    if (getenv ("GT_ASM") && p->asm_code) printf ("%s\n", p->asm_code);
    for (end = 0; end < 2; end++)
      for (m = 1; m <= (is2d ? 3 : 1); m++)
        for (mis = 0; mis < (getenv("GT_MIS") ? atoi(getenv("GT_MIS")) : 1); mis++)
        for (n = 0; n <= nmax; n++) {
          OrcExecutor *ex = orc_executor_new (p);
          OrcExecutor *ex2 = orc_executor_new (p);
          unsigned char *ptr[16], *ptr2[16]; int len[16], stride[16];
          int nn = p->constant_n ? p->constant_n : n;
          if (p->constant_n && n > 0) { orc_executor_free (ex); orc_executor_free (ex2); break; }
          orc_executor_set_n (ex, nn); orc_executor_set_n (ex2, nn);
          if (is2d) { orc_executor_set_m (ex, m); orc_executor_set_m (ex2, m); }
          for (k = 0; k < 12; k++) {
            OrcVariable *v = p->vars + k;
            int cnt = nn;
            int j;
            if (v->size == 0) continue;
            /* source elements needed for special loads: be generous only via the declared count env */
            if (getenv ("GT_SRCN") && k >= ORC_VAR_S1) cnt = atoi (getenv ("GT_SRCN"));
            len[k] = cnt * v->size;
            stride[k] = ((len[k] + 63) & ~63) + 64;
            if (!is2d) stride[k] = len[k];
            {
              int total = stride[k] * (m - 1) + len[k];
              int off = mis * v->size;
              if (end) { ptr[k] = reg[k].hi - total; ptr2[k] = ref[k].hi - total; (void)off; }
              else { ptr[k] = reg[k].lo; ptr2[k] = ref[k].lo; }
              if (end && !is2d) { /* misalign by moving start earlier is impossible; keep */ }
              memset (reg[k].lo, 0x55, NPG * PG); memset (ref[k].lo, 0x55, NPG * PG);
              for (j = 0; j < total; j++) { ptr[k][j] = ptr2[k][j] = (unsigned char) (j * 7 + k * 13 + 1); }
            }
            orc_executor_set_array (ex, k, ptr[k]); orc_executor_set_array (ex2, k, ptr2[k]);
            if (is2d) { orc_executor_set_stride (ex, k, stride[k]); orc_executor_set_stride (ex2, k, stride[k]); }
          }
          for (k = ORC_VAR_P1; k < ORC_VAR_P1 + 8; k++) if (p->vars[k].size) {
            int val = getenv ("GT_P") ? atoi (getenv ("GT_P")) : 3;
            orc_executor_set_param (ex, k, val); orc_executor_set_param (ex2, k, val);
          }
          if (sigsetjmp (jb, 1) == 0) {
            orc_executor_run (ex);
          } else {
            printf ("FAIL: %s fault n=%d m=%d end=%d addr=%p", p->name, nn, m, end, (void *) fault_addr);
            for (k = 0; k < 12; k++) if (p->vars[k].size) {
              if ((unsigned char *) fault_addr >= reg[k].base && (unsigned char *) fault_addr < reg[k].hi + PG)
                printf (" (array %d [%p..%p) off %ld)", k, ptr[k], ptr[k] + len[k], (long) ((unsigned char *) fault_addr - ptr[k]));
            }
            printf ("\n");
            fails++;
            goto next;
          }
          orc_executor_emulate (ex2);
          for (k = 0; k < 12; k++) if (p->vars[k].size) {
            if (memcmp (reg[k].lo, ref[k].lo, NPG * PG) != 0) {
              long j; for (j = 0; j < NPG * PG; j++) if (reg[k].lo[j] != ref[k].lo[j]) break;
              printf ("FAIL: %s mismatch n=%d m=%d end=%d array %d at off %ld (array at %ld len %d)\n", p->name, nn, m, end, k,
                  j, (long) (ptr[k] - reg[k].lo), len[k]);
              fails++;
              break;
            }
          }
        next:
          orc_executor_free (ex); orc_executor_free (ex2);
          if (fails > 5) goto out;
        }
  }
out:
  printf ("%s\n", fails ? "FAIL" : "PASS");
  return fails != 0;
}
