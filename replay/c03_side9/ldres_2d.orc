.function r2d
.flags 2d
.dest 4 d
.source 4 s
ldresnearl d, s, 0x8000, 0x9000
