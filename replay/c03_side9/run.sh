#!/bin/sh
# Side findings on the UNCHANGED tree (they do not depend on the seeded change).
# gt <file.orc> <target> [flags_xor] [nmax]: runs the program for n = 0..nmax with
# every array first starting right after, then ending right before, an
# inaccessible page, compares with the emulator, reports faults.
# GT_SRCN=k gives every source array k elements instead of n.
R=/var/tmp/seed9/C03
D=$(cd "$(dirname "$0")" && pwd)
cc -O1 -g -o "$D/gt" "$D/gt.c" -DORC_ENABLE_UNSTABLE_API -I"$R" -I"$R/_b" \
   -L"$R/_b/orc" -lorc-0.4 -Wl,-rpath,"$R/_b/orc" || exit 2
echo "== 1. SSE loadoffl on the array chosen for alignment: movdqa on a misaligned address"
GT_SRCN=200 "$D/gt" "$D/loadoff_aligned.orc" sse 0 20
echo "== 2. SSE ldresnearl, negative increment: index zero-extended to 64 bits"
GT_SRCN=200 "$D/gt" "$D/ldres_neg.orc" sse 0 8
echo "== 3. SSE ldresnearl, start offset >= 1.0: first element read from s[0]"
GT_SRCN=200 "$D/gt" "$D/ldres_p1.orc" sse 0 6
echo "== 4. SSE ldresnearl in a 2-D program: offset not reloaded for rows after the first"
GT_SRCN=200 "$D/gt" "$D/ldres_2d.orc" sse 0 8
exit 0
