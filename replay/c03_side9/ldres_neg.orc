.function rn
.dest 4 d
.source 4 s
ldresnearl d, s, 0x80000, -65536
