.function rp
.dest 4 d
.source 4 s
ldresnearl d, s, 0x50000, 65536
