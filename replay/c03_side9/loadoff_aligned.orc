.function lo
.dest 2 d
.source 4 s
.temp 4 t
loadoffl t, s, 1
convlw d, t
