/* Replay: dump JIT bytes and listing of one program for a target */
#include <orc/orc.h>
#include <stdio.h>
#include <stdlib.h>
int main(int argc, char **argv) {
  OrcProgram *p; OrcCompileResult r; FILE *f;
  orc_init();
  p = orc_program_new_dss(1, 1, 1);
  orc_program_set_name(p, "f1");
  orc_program_append_str(p, "addb", "d1", "s1", "s2");
  r = orc_program_compile_full(p, orc_target_get_by_name(argv[1]), orc_target_get_default_flags(orc_target_get_by_name(argv[1])));
  if (!ORC_COMPILE_RESULT_IS_SUCCESSFUL(r)) { printf("compile failed %d\n", r); return 2; }
  f = fopen(argv[2], "wb"); fwrite(p->orccode->code, 1, p->orccode->code_size, f); fclose(f);
  f = fopen(argv[3], "w"); fputs(orc_program_get_asm_code(p), f); fclose(f);
  return 0;
}
