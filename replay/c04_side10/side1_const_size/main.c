/* Compares what the C code written by orcc computes with what Orc's emulator
 * computes for the program in demo.orc.
 *
 * Built twice by run.sh:
 *   -DDISABLE_ORC : demo_dec() is the Orc-free implementation
 *   (without)     : demo_dec() runs through an OrcExecutor; run.sh starts it
 *                   with ORC_CODE=backup so the generated backup function runs
 */
#include <stdio.h>
#include <stdlib.h>
#include <string.h>
#include <orc/orc.h>
#include <orc/orcparse.h>

void demo_dec (orc_int32 * d1, orc_int64 * d2, const orc_int32 * s1,
    const orc_int64 * s2, int n);

#define N 19

static char *
read_file (const char *fn)
{
  FILE *f = fopen (fn, "rb");
  long sz;
  char *s;
  if (!f) return NULL;
  fseek (f, 0, SEEK_END); sz = ftell (f); fseek (f, 0, SEEK_SET);
  s = malloc (sz + 1);
  if (fread (s, 1, sz, f) != (size_t) sz) { fclose (f); free (s); return NULL; }
  s[sz] = 0;
  fclose (f);
  return s;
}

int
main (int argc, char *argv[])
{
  orc_int32 s1[N], d1_c[N], d1_e[N];
  orc_int64 s2[N], d2_c[N], d2_e[N];
  OrcProgram **programs;
  OrcProgram *p;
  OrcExecutor *ex;
  char *code, *log = NULL;
  int i, n, fail = 0, shown = 0;

  if (argc < 2) { fprintf (stderr, "usage: %s file.orc\n", argv[0]); return 2; }
  orc_init ();

  for (i = 0; i < N; i++) {
    s1[i] = i * 1000003 - 7;
    s2[i] = (orc_int64) i * ORC_UINT64_C (0x0000000123456789) - 5;
  }
  memset (d1_c, 0xa5, sizeof (d1_c)); memset (d1_e, 0xa5, sizeof (d1_e));
  memset (d2_c, 0xa5, sizeof (d2_c)); memset (d2_e, 0xa5, sizeof (d2_e));

  /* 1. emulation of the very same source text */
  code = read_file (argv[1]);
  if (!code) { fprintf (stderr, "cannot read %s\n", argv[1]); return 2; }
  n = orc_parse_full (code, &programs, &log);
  if (n < 1) { fprintf (stderr, "parse failed: %s\n", log ? log : ""); return 2; }
  p = programs[0];
  orc_program_compile (p);
  ex = orc_executor_new (p);
  orc_executor_set_n (ex, N);
  orc_executor_set_array (ex, ORC_VAR_D1, d1_e);
  orc_executor_set_array (ex, ORC_VAR_D2, d2_e);
  orc_executor_set_array (ex, ORC_VAR_S1, s1);
  orc_executor_set_array (ex, ORC_VAR_S2, s2);
  orc_executor_emulate (ex);
  orc_executor_free (ex);

  /* 2. the C code orcc wrote */
  demo_dec (d1_c, d2_c, s1, s2, N);

  for (i = 0; i < N; i++) {
    if (d1_c[i] != d1_e[i]) {
      if (shown++ < 3) printf ("  d1[%d]: C 0x%08x  emulation 0x%08x\n", i,
          (unsigned) d1_c[i], (unsigned) d1_e[i]);
      fail = 1;
    }
    if (d2_c[i] != d2_e[i]) {
      if (shown++ < 3) printf ("  d2[%d]: C 0x%016llx  emulation 0x%016llx\n", i,
          (unsigned long long) d2_c[i], (unsigned long long) d2_e[i]);
      fail = 1;
    }
  }
#ifdef DISABLE_ORC
  printf ("%s: Orc-free implementation vs emulation\n", fail ? "FAIL" : "PASS");
#else
  printf ("%s: backup function vs emulation\n", fail ? "FAIL" : "PASS");
#endif
  return fail;
}
