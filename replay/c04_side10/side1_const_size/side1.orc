.function demo_dec
.dest 4 d1 orc_int32
.dest 8 d2 orc_int64
.source 4 s1 orc_int32
.source 8 s2 orc_int64
.const 4 c1 -1

addl d1, s1, c1
addq d2, s2, c1
