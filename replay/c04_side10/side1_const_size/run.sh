#!/bin/sh
# Builds the demonstration against the orc build in /var/tmp/seed10/C04/_b and
# runs it.  Exit status 0: the generated C computes what emulation computes.
set -e
HERE=$(cd "$(dirname "$0")" && pwd)
TOP=/var/tmp/seed10/C04
B=$TOP/_b
W=$(mktemp -d "${TMPDIR:-/tmp}/c04side1.XXXXXX")
trap 'rm -rf "$W"' EXIT

LD_LIBRARY_PATH=$B/orc${LD_LIBRARY_PATH:+:$LD_LIBRARY_PATH}
export LD_LIBRARY_PATH

"$B/tools/orcc" --implementation -o "$W/demo_impl.c" "$HERE/side1.orc"

CFLAGS="-O1 -I$TOP -I$B -I$HERE"
LIBS="-L$B/orc -lorc-0.4 -lm"

cc $CFLAGS -DDISABLE_ORC -o "$W/demo_noorc"  "$HERE/main.c" "$W/demo_impl.c" $LIBS
cc $CFLAGS               -o "$W/demo_backup" "$HERE/main.c" "$W/demo_impl.c" $LIBS

rc=0
"$W/demo_noorc" "$HERE/side1.orc" || rc=1
ORC_CODE=backup "$W/demo_backup" "$HERE/side1.orc" || rc=1

if [ $rc -eq 0 ]; then echo PASS; else echo FAIL; fi
exit $rc
