#!/bin/sh
# Reproducers for defects of the UNCHANGED tree (independent of the seeded change).
R=/var/tmp/seed8/C05
B=$R/_b
D=$(cd "$(dirname "$0")" && pwd)
for f in compile_only compile_and_run; do
  cc -g -O0 -DORC_ENABLE_UNSTABLE_API -I"$R" -I"$B" -o "$D/$f" "$D/$f.c" \
      -L"$B/orc" -lorc-0.4 -Wl,-rpath,"$B/orc" -lm || exit 2
done
echo "== SF1: C backend, shift by a constant that does not fit an int: compile aborts"
"$D/compile_only" "$D/sf1_c_backend_abort.orc" c 0; echo "   exit status $?"
echo "== SF2: '.dest 1 d1 align 0': compile OK, generated code faults on a 1-byte aligned array"
"$D/compile_and_run" "$D/sf2_align0_crash.orc" sse; echo "   exit status $?"
echo "   (same program emulated:)"
ORC_CODE=emulate "$D/compile_and_run" "$D/sf2_align0_crash.orc" sse; echo "   exit status $?"
echo "== SF3: 'loadb t2, t1' (load opcode reading a temporary): compile OK, generated code faults"
"$D/compile_and_run" "$D/sf3_load_from_temp_crash.orc"; echo "   exit status $?"
echo "   (same program emulated:)"
ORC_CODE=emulate "$D/compile_and_run" "$D/sf3_load_from_temp_crash.orc"; echo "   exit status $?"
