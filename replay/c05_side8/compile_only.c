/* scratch: cc <file.orc> <target|-> <flags-hex|default> [run] */
#include <orc/orc.h>
#include <orc/orcparse.h>
#include <stdio.h>
#include <stdlib.h>
#include <string.h>

int main (int argc, char **argv)
{
  char *src; long len; FILE *f; OrcProgram **progs; int n, i;
  OrcTarget *t; unsigned flags;
  orc_init ();
  f = fopen (argv[1], "rb"); fseek (f, 0, SEEK_END); len = ftell (f); rewind (f);
  src = malloc (len + 1); fread (src, 1, len, f); src[len] = 0; fclose (f);
  n = orc_parse (src, &progs);
  t = strcmp (argv[2], "-") ? orc_target_get_by_name (argv[2]) : orc_target_get_default ();
  if (!t) { printf ("no target\n"); return 2; }
  flags = strcmp (argv[3], "default") ? strtoul (argv[3], NULL, 16) : orc_target_get_default_flags (t);
  for (i = 0; i < n; i++) {
    OrcCompileResult r = orc_program_compile_full (progs[i], t, flags);
    printf ("%s: target %s flags %x result 0x%x code %p exec %p size %d err '%s'\n",
        progs[i]->name, orc_target_get_name (t), flags, r, (void *) progs[i]->orccode,
        (void *) progs[i]->code_exec, progs[i]->orccode ? progs[i]->orccode->code_size : -1,
        orc_program_get_error (progs[i]));
    if (argc > 4 && !strcmp (argv[4], "asm")) printf ("%s\n", orc_program_get_asm_code (progs[i]));
  }
  return 0;
}
