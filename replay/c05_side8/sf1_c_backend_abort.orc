.function bigshift
.dest 8 d1
.source 8 s1
shlq d1, s1, 0x100000000L
