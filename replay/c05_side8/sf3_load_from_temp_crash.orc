.function ldtemp
.dest 1 d1
.source 1 s1
.temp 1 t1
.temp 1 t2
copyb t1, s1
loadb t2, t1
storeb d1, t2
