/* run1 <file.orc> [target]: parse, compile program 0 for default target, run on n=37 bytes with d1,s1 arrays */
#include <orc/orc.h>
#include <orc/orcparse.h>
#include <stdio.h>
#include <stdlib.h>
#include <string.h>
int main (int argc, char **argv)
{
  char *src; long len; FILE *f; OrcProgram **progs; int n, i;
  orc_init ();
  f = fopen (argv[1], "rb"); fseek (f, 0, SEEK_END); len = ftell (f); rewind (f);
  src = malloc (len + 1); fread (src, 1, len, f); src[len] = 0; fclose (f);
  n = orc_parse (src, &progs);
  for (i = 0; i < n; i++) {
    OrcProgram *p = progs[i];
    OrcCompileResult r = argc > 2 ? orc_program_compile_for_target (p, orc_target_get_by_name (argv[2])) : orc_program_compile (p);
    printf ("%s: result 0x%x err '%s'\n", p->name, r, orc_program_get_error (p));
    if (ORC_COMPILE_RESULT_IS_FATAL (r)) continue;
    {
      OrcExecutor *ex = orc_executor_new (p);
      static orc_uint8 d[4][1024 + 64], s[8][1024 + 64];
      int k;
      for (k = 0; k < 8; k++) memset (s[k], k + 1, sizeof (s[k]));
      orc_executor_set_n (ex, 37);
      for (k = 0; k < 4; k++) if (p->vars[ORC_VAR_D1 + k].size) orc_executor_set_array (ex, ORC_VAR_D1 + k, d[k] + 1 * p->vars[ORC_VAR_D1 + k].size);
      for (k = 0; k < 8; k++) if (p->vars[ORC_VAR_S1 + k].size) orc_executor_set_array (ex, ORC_VAR_S1 + k, s[k] + 1 * p->vars[ORC_VAR_S1 + k].size);
      for (k = 0; k < 8; k++) if (p->vars[ORC_VAR_P1 + k].size) orc_executor_set_param (ex, ORC_VAR_P1 + k, 3);
      orc_executor_run (ex);
      printf ("  ran ok, d1[0..3]= %d %d %d %d\n", d[0][1], d[0][2], d[0][3], d[0][4]);
      orc_executor_free (ex);
    }
  }
  return 0;
}
