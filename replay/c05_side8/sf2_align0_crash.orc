.function al0
.dest 1 d1 align 0
.source 1 s1
addb d1, s1, 3
