.function f
.source 2 s
.dest 2 d
.const 2 c zzz
.const 2 c1 5
.const 2 c2 5
addw d, s, c2
