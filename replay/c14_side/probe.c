#include <stdio.h>
#include <stdlib.h>
#include <string.h>
#include <orc/orc.h>
#include <orc/orcparse.h>

static char *slurp(const char *fn){ FILE*f=fopen(fn,"rb"); if(!f){perror(fn);exit(2);} fseek(f,0,SEEK_END); long n=ftell(f); rewind(f); char*b=malloc(n+1); if(fread(b,1,n,f)!=(size_t)n){} b[n]=0; fclose(f); return b; }

int main(int argc,char**argv){
  orc_init();
  char *code = slurp(argv[1]);
  OrcProgram **programs=NULL; int n=0; OrcParseError **errors=NULL; int ne=0;
  int r = orc_parse_code(code,&programs,&n,&errors,&ne);
  printf("ret=%d n_programs=%d n_errors=%d\n", r,n,ne);
  for(int i=0;i<ne;i++) printf("  E %s @ %d: %s\n", errors[i]->source, errors[i]->line_number, errors[i]->text);
  for(int i=0;i<n;i++){
    OrcCompileResult cr = orc_program_compile(programs[i]);
    printf("  P%d %s compile=%d err='%s'\n", i, programs[i]->name, cr, orc_program_get_error(programs[i]));
    OrcTarget *t = orc_target_get_by_name("c");
    if (argc>2) { orc_program_reset(programs[i]); cr = orc_program_compile_full(programs[i], t, 0); printf("     c compile=%d\n", cr);}
  }
  orc_parse_error_freev(errors);
  for(int i=0;i<n;i++) orc_program_free(programs[i]);
  free(programs);
  free(code);
  return 0;
}
