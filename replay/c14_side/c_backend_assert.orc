.function f
.dest 8 d
.source 8 s
shlq d, s, 0x100000000
