#!/bin/sh
# Side findings on the UNCHANGED tree (independent of the seeded change).
# Usage: sh run.sh      (builds probe.c against /var/tmp/seed7/C14/_b)
TOP=/repo; B=$TOP/_build
HERE=$(cd "$(dirname "$0")" && pwd)
cc -g -DORC_ENABLE_UNSTABLE_API -I$TOP -I$B $HERE/probe.c -o /var/tmp/c14-probe -L$B/orc -lorc-0.4 -Wl,-rpath,$B/orc || exit 2
sed 's/^  orc_init();$//' $HERE/probe.c > /var/tmp/c14-probe-noinit.c
cc -g -DORC_ENABLE_UNSTABLE_API -I$TOP -I$B /var/tmp/c14-probe-noinit.c -o /var/tmp/c14-probe-noinit -L$B/orc -lorc-0.4 -Wl,-rpath,$B/orc || exit 2
echo "== 1. CRLF input: error on line 4 is reported as line 7"
/var/tmp/c14-probe $HERE/crlf_line_numbers.orc
echo "== 2. C backend aborts (ORC_ASSERT) on a shift constant that does not fit in 32 bits"
/var/tmp/c14-probe $HERE/c_backend_assert.orc c; echo "exit status $?"
echo "== 3. orc_parse() as first liborc call (no orc_init) segfaults at the first opcode"
/var/tmp/c14-probe-noinit $HERE/const_quirks.orc; echo "exit status $?"
echo "== 4. over-limit temporaries / instructions / constants: no error record"
/var/tmp/c14-probe $HERE/silent_too_many_temps.orc
/var/tmp/c14-probe $HERE/silent_too_many_insns.orc | grep -v "written multiple"
/var/tmp/c14-probe $HERE/silent_too_many_constants.orc
echo "== 5. .const with an unparsable value is silently dropped; second .const with an equal value loses its name"
/var/tmp/c14-probe $HERE/const_quirks.orc
echo "== 6. operand names starting with inf/nan are taken for numbers"
/var/tmp/c14-probe $HERE/inf_nan_names.orc
