.function f
.source 2 s
.dest 2 d
.temp 2 info
copyw info, s
copyw d, info
