.function f
.source 2 s
.dest 2 d
bogus d, s
