.function f
.source 2 s
.dest 2 d
.temp 2 t
copyw t, s
addw t, t, 1
addw t, t, 2
addw t, t, 3
addw t, t, 4
addw t, t, 5
addw t, t, 6
addw t, t, 7
addw t, t, 8
addw t, t, 9
addw t, t, 10
addw t, t, 11
copyw d, t
