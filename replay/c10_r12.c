/* replay for C10/C12: push/pop of r12..r15 is encoded without REX.B (bytes 54/5c = push/pop %rsp).
 * Build: cc c10_r12.c -I/repo -I/repo/_build -L/repo/_build/orc -lorc-0.4 -o c10_r12
 * Run:   LD_LIBRARY_PATH=/repo/_build/orc ./c10_r12 > code.bin ; objdump -D -b binary -mi386:x86-64 code.bin | head -20
 * The listing (stderr) says `push %r12`; the bytes say `push %rsp`.  r12 is then used and never restored. */
#include <orc/orc.h>
#include <stdio.h>
#include <string.h>
int main (void)
{
  OrcProgram *p;
  int i;
  char nm[8];
  orc_init ();
  p = orc_program_new ();
  orc_program_add_destination (p, 1, "d1");
  for (i = 0; i < 8; i++) { sprintf (nm, "s%d", i + 1); orc_program_add_source (p, 1, nm); }
  orc_program_add_temporary (p, 1, "t1");
  orc_program_append_str (p, "addb", "t1", "s1", "s2");
  for (i = 2; i < 8; i++) { sprintf (nm, "s%d", i + 1); orc_program_append_str (p, "addb", "t1", "t1", nm); }
  orc_program_append_str (p, "copyb", "d1", "t1", NULL);
  orc_program_compile_full (p, orc_target_get_by_name ("sse"), orc_target_get_default_flags (orc_target_get_by_name ("sse")));
  fprintf (stderr, "%s", orc_program_get_asm_code (p) ? orc_program_get_asm_code (p) : "(no asm)\n");
  fwrite (p->orccode->code, 1, p->orccode->code_size, stdout);
  return 0;
}
