/* replay for C07: a 16-bit accumulator read back through a stack executor, the way every orcc-generated wrapper does
 * (OrcExecutor _ex on the stack, never cleared; *a1 = orc_executor_get_accumulator (ex, ORC_VAR_A1)).
 * Build: cc c07_accw_avx.c -I/repo -I/repo/_build -L/repo/_build/orc -lorc-0.4 -o /var/tmp/c07_accw_avx
 * Run:   LD_LIBRARY_PATH=/repo/_build/orc /var/tmp/c07_accw_avx          (needs an AVX2 machine for the avx row)
 * Before the fix avx_reduce_accumulator stored the reduced sum with a 16-bit pextrw, leaving the upper half of the int
 * slot ex->accumulators[k] as it was; sse, mmx, the C backend and the emulator all write the whole int (sum & 0xffff). */
#include <orc/orc.h>
#include <stdio.h>
#include <string.h>
static int run (const char *target)
{
  OrcProgram *p;
  OrcExecutor ex;
  OrcTarget *t = orc_target_get_by_name (target);
  orc_int16 s[37];
  int i, want = 0, got;
  for (i = 0; i < 37; i++) { s[i] = 1000 + i; want += s[i]; }
  want &= 0xffff;
  p = orc_program_new ();
  orc_program_add_source (p, 2, "s1");
  orc_program_add_accumulator (p, 2, "a1");
  orc_program_append_str (p, "accw", "a1", "s1", NULL);
  if (orc_program_compile_full (p, t, orc_target_get_default_flags (t)) != ORC_COMPILE_RESULT_OK) { printf ("%s: not compiled\n", target); return 0; }
  memset (&ex, 0x5a, sizeof (ex));          /* what a wrapper's stack slot may hold */
  ex.program = 0;
  ex.arrays[ORC_VAR_A2] = p->orccode;
  ex.n = 37;
  ex.arrays[ORC_VAR_S1] = s;
  p->orccode->exec (&ex);
  got = orc_executor_get_accumulator (&ex, ORC_VAR_A1);
  printf ("%s: accumulator read back as 0x%08x, sum modulo 2^16 is 0x%08x%s\n", target, got, want, got == want ? "" : "   <-- differs");
  orc_program_free (p);
  return got != want;
}
int main (void)
{
  int bad;
  orc_init ();
  bad = run ("sse") + run ("avx");
  return bad != 0;
}
