#include <stdio.h>
#include <stdlib.h>
#include <orc/orc.h>
#include <orc/orcparse.h>
int main (void)
{
  OrcProgram **p; char *log = NULL; int n;
  orc_init ();
  n = orc_parse_full (".function f\n.source 2 s1\n.dest 2 d1\nnosuchopcode d1, s1\n", &p, &log);
  printf ("programs=%d log=%s\n", n, log ? log : "(null)");
  if (!log || !*log) { puts ("FAIL: the unknown opcode was not reported"); return 1; }
  puts ("PASS"); return 0;
}
