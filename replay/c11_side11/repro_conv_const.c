/* Unchanged tree: three SSE conversion rules never copy src to dest, so they
 * are wrong when the source is not the register the destination was chained
 * to -- e.g. when the source is a constant or a parameter.
 *   convslq  d1, c1   wrong WITHOUT sse4.1 (sse_rule_convslq), right WITH it
 *   convssslw d1, c1  wrong under every flag subset (sse and mmx)
 *   convsuslw d1, c1  wrong (rule exists under sse4.1 only)
 */
#include <stdio.h>
#include <string.h>
#include <orc/orc.h>

static int
check (const char *opcode, int dsize, int ssize, unsigned int flags)
{
  OrcTarget *t = orc_target_get_by_name ("sse");
  OrcProgram *p = orc_program_new ();
  unsigned char jit[256], emu[256];
  OrcExecutor *e1, *e2;
  int bad;

  orc_program_add_destination (p, dsize, "d1");
  orc_program_add_constant (p, ssize, -5, "c1");
  orc_program_append_str (p, opcode, "d1", "c1", NULL);
  if (!ORC_COMPILE_RESULT_IS_SUCCESSFUL (orc_program_compile_full (p, t, flags))) {
    printf ("%-10s flags 0x%03x: does not compile\n", opcode, flags);
    orc_program_free (p);
    return 0;
  }
  memset (jit, 0xee, sizeof jit);
  memset (emu, 0xee, sizeof emu);
  e1 = orc_executor_new (p); e2 = orc_executor_new (p);
  orc_executor_set_n (e1, 19); orc_executor_set_n (e2, 19);
  orc_executor_set_array (e1, ORC_VAR_D1, jit);
  orc_executor_set_array (e2, ORC_VAR_D1, emu);
  orc_executor_run (e1);
  orc_executor_emulate (e2);
  bad = memcmp (jit, emu, sizeof jit) != 0;
  printf ("%-10s flags 0x%03x: %s\n", opcode, flags, bad ? "MISCOMPUTES" : "ok");
  orc_executor_free (e1); orc_executor_free (e2);
  orc_program_free (p);
  return bad;
}

int
main (void)
{
  unsigned int def, abi, bad = 0;
  orc_init ();
  def = orc_target_get_default_flags (orc_target_get_by_name ("sse"));
  abi = def & (ORC_TARGET_SSE_64BIT | ORC_TARGET_SSE_FRAME_POINTER);
  bad += check ("convslq", 8, 4, def);
  bad += check ("convslq", 8, 4, def & ~ORC_TARGET_SSE_SSE4_1);
  bad += check ("convslq", 8, 4, abi | ORC_TARGET_SSE_SSE2);
  bad += check ("convssslw", 2, 4, def);
  bad += check ("convssslw", 2, 4, abi | ORC_TARGET_SSE_SSE2);
  bad += check ("convsuslw", 2, 4, def);
  printf (bad ? "FAIL\n" : "PASS\n");
  return bad != 0;
}
