/* convssslw / convsuslw / convslq on sse and mmx: the rules emit packssdw/packusdw/punpckldq src,dest without copying the
 * source into dest first.  Right only when the allocator chained dest onto src (source dies here).  With a source that is
 * used again - or a constant / parameter - the low half of the result comes from a register nobody wrote.
 * exit 0 = native agrees with emulation for every program; 1 = differs. */
#include <stdio.h>
#include <string.h>
#include <stdlib.h>
#include <orc/orc.h>

static const char *progs[] = {
  ".function f\n.source 4 s1\n.dest 2 d1\n.dest 4 d2\n.temp 4 t1\ncopyl t1, s1\nconvssslw d1, t1\ncopyl d2, t1\n",
  ".function f\n.source 4 s1\n.dest 8 d1\n.dest 4 d2\n.temp 4 t1\ncopyl t1, s1\nconvslq d1, t1\ncopyl d2, t1\n",
  ".function f\n.source 4 s1\n.dest 2 d1\n.dest 4 d2\n.temp 4 t1\ncopyl t1, s1\nconvsuslw d1, t1\ncopyl d2, t1\n",
};

static int run (const char *text, const char *target, unsigned flags)
{
  OrcProgram **ps; int n, i, bad = 0;
  orc_int32 s[64]; unsigned char d1a[64*8], d1b[64*8]; orc_int32 d2a[64], d2b[64];
  OrcExecutor *ex;
  OrcTarget *t = orc_target_get_by_name (target);
  n = orc_parse (text, &ps);
  if (n != 1 || !t) return 2;
  if (!ORC_COMPILE_RESULT_IS_SUCCESSFUL (orc_program_compile_full (ps[0], t, flags))) { printf ("  (%s flags %#x: not compiled)\n", target, flags); return 0; }
  for (i = 0; i < 64; i++) s[i] = (i * 2654435761u) >> 3 ^ (i << 27);
  memset (d1a, 0x55, sizeof d1a); memset (d1b, 0x55, sizeof d1b);
  ex = orc_executor_new (ps[0]);
  orc_executor_set_n (ex, 37);
  orc_executor_set_array_str (ex, "s1", s);
  orc_executor_set_array_str (ex, "d1", d1a);
  orc_executor_set_array_str (ex, "d2", d2a);
  orc_executor_run (ex);
  orc_executor_set_array_str (ex, "d1", d1b);
  orc_executor_set_array_str (ex, "d2", d2b);
  orc_executor_emulate (ex);
  if (memcmp (d1a, d1b, sizeof d1a) || memcmp (d2a, d2b, 37 * 4)) bad = 1;
  orc_executor_free (ex);
  return bad;
}

int main (void)
{
  int bad = 0, i;
  orc_init ();
  for (i = 0; i < 3; i++) {
    const char *op = strstr (progs[i], "conv");
    int r;
    r = run (progs[i], "sse", orc_target_get_default_flags (orc_target_get_by_name ("sse")));
    printf ("%.9s sse default flags: %s\n", op, r ? "DIFFERS from emulation" : "ok"); bad |= r;
    r = run (progs[i], "sse", ORC_TARGET_SSE_SSE2 | (orc_target_get_default_flags (orc_target_get_by_name ("sse")) & ORC_TARGET_SSE_64BIT));
    printf ("%.9s sse sse2 only: %s\n", op, r ? "DIFFERS from emulation" : "ok"); bad |= r;
    r = run (progs[i], "mmx", orc_target_get_default_flags (orc_target_get_by_name ("mmx")));
    printf ("%.9s mmx: %s\n", op, r ? "DIFFERS from emulation" : "ok"); bad |= r;
  }
  puts (bad ? "FAIL" : "PASS");
  return bad ? 1 : 0;
}
