/* Replay: compile one opcode for a target under an explicit flag word and dump the JIT bytes */
#include <orc/orc.h>
#include <stdio.h>
#include <stdlib.h>
#include <string.h>
int main(int argc, char **argv) {
  /* usage: c11_flags <target> <flags-hex> <opcode> <dsize> <ssize> <out.bin> */
  OrcProgram *p; OrcCompileResult r; FILE *f;
  OrcTarget *t; OrcStaticOpcode *o;
  orc_init();
  t = orc_target_get_by_name(argv[1]);
  o = orc_opcode_find_by_name(argv[3]);
  p = orc_program_new();
  orc_program_add_destination(p, atoi(argv[4]), "d1");
  orc_program_add_source(p, atoi(argv[5]), "s1");
  if (o->src_size[1]) { orc_program_add_source(p, o->src_size[1], "s2"); orc_program_append_str(p, argv[3], "d1", "s1", "s2"); }
  else orc_program_append_str(p, argv[3], "d1", "s1", NULL);
  r = orc_program_compile_full(p, t, strtoul(argv[2], NULL, 16));
  printf("%s flags=%s %s: result=%d %s\n", argv[1], argv[2], argv[3], r, orc_program_get_error(p));
  if (!ORC_COMPILE_RESULT_IS_SUCCESSFUL(r)) return 2;
  f = fopen(argv[6], "wb"); fwrite(p->orccode->code, 1, p->orccode->code_size, f); fclose(f);
  return 0;
}
