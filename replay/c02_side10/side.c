/* Two things the UNCHANGED tree gets wrong (independent of the seeded change).
 * Prints FAIL lines and exits 1 when they reproduce. */
#include <stdio.h>
#include <stdlib.h>
#include <string.h>
#include <orc/orc.h>
#include <orc/orcparse.h>

static OrcProgram *
parse1 (const char *src)
{
  OrcProgram **progs;
  char *log = NULL;
  int n = orc_parse_full (src, &progs, &log);
  if (log && log[0]) printf ("parse log: %s\n", log);
  return n < 1 ? NULL : progs[0];
}

int
main (void)
{
  int bad = 0;

  orc_init ();

  /* 1: "x2 loadoffw d, s, 1": the emulator counts the offset in 16-bit lanes,
   * the JIT in whole 4-byte elements of the array */
  {
    OrcProgram *p = parse1 (".function f2\n.dest 4 d\n.source 4 s\n"
        "x2 loadoffw d, s, 1\n");
    OrcCompileResult r = orc_program_compile (p);
    orc_uint32 sbuf[64], dj[16], de[16];
    OrcExecutor *ex;
    int i;

    for (i = 0; i < 64; i++) sbuf[i] = 0x10000u * (2 * i + 1) + 2 * i;
    ex = orc_executor_new (p);
    orc_executor_set_n (ex, 8);
    orc_executor_set_array_str (ex, "s", sbuf + 8);
    orc_executor_set_array_str (ex, "d", de);
    orc_executor_emulate (ex);
    memcpy (dj, de, sizeof (dj));
    if (ORC_COMPILE_RESULT_IS_SUCCESSFUL (r)) {
      orc_executor_set_array_str (ex, "d", dj);
      orc_executor_run (ex);
    }
    for (i = 0; i < 8; i++) {
      if (de[i] != sbuf[8 + i + 1] || dj[i] != sbuf[8 + i + 1]) {
        printf ("FAIL x2 loadoffw off=1: i=%d s[i+1]=%08x emulated=%08x compiled=%08x\n",
            i, sbuf[8 + i + 1], de[i], dj[i]);
        bad = 1;
        break;
      }
    }
    orc_executor_free (ex);
  }

  /* 2: an operand spelled like a strtod() special ("nan", "inf", "infinity")
   * is taken for a number even when a variable of that name exists */
  {
    OrcProgram *p = parse1 (".function f1\n.dest 2 d\n.source 2 s\n"
        ".source 2 nan\naddw d, s, nan\n");
    if (p && p->n_insns == 1 &&
        p->vars[p->insns[0].src_args[1]].vartype == ORC_VAR_TYPE_CONST) {
      printf ("FAIL \"addw d, s, nan\" with \".source 2 nan\": operand became constant"
          " %s = 0x%llx, no diagnostic\n", p->vars[p->insns[0].src_args[1]].name,
          (unsigned long long) p->vars[p->insns[0].src_args[1]].value.i);
      bad = 1;
    }
  }

  printf (bad ? "FAIL\n" : "PASS\n");
  return bad;
}
