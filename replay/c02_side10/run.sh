#!/bin/sh
set -e
TOP=/var/tmp/seed10/C02
HERE=$(cd "$(dirname "$0")" && pwd)
mkdir -p "$HERE/_out"
${CC:-cc} -O1 -g -DORC_ENABLE_UNSTABLE_API -I"$TOP" -I"$TOP/_b" -o "$HERE/_out/side" "$HERE/side.c" \
  -L"$TOP/_b/orc" -lorc-0.4 -Wl,-rpath,"$TOP/_b/orc"
exec "$HERE/_out/side"
