/* Compile one Orc program for the AVX target and write
 *   out.s   - the assembly listing Orc returns
 *   out.bin - the machine code Orc emitted itself
 * run.sh assembles out.s and compares the two disassemblies.
 *
 * The program keeps many 64-bit constants live across a convsssql so that
 * the temporaries of the convsssql rule are allocated in ymm8..ymm15.
 */
#include <stdio.h>
#include <stdlib.h>
#include <string.h>

#include <orc/orc.h>
#include <orc/orcparse.h>

static const char source[] =
  ".function demo_convsssql\n"
  ".dest 4 d\n"
  ".source 8 s\n"
  ".temp 8 t\n"
  ".temp 8 u\n"
  ".const 8 c1 0x0000000100000003L\n"
  ".const 8 c2 0x0000000500000007L\n"
  ".const 8 c3 0x000000090000000bL\n"
  ".const 8 c4 0x0000000d0000000fL\n"
  ".const 8 c5 0x0000001100000013L\n"
  ".const 8 c6 0x0000001500000017L\n"
  "addq t, s, c1\n"
  "convsssql d, t\n"
  "addq u, t, c2\n"
  "addq u, u, c3\n"
  "addq u, u, c4\n"
  "addq u, u, c5\n"
  "addq u, u, c6\n"
  "convsssql d, u\n";

int
main (int argc, char *argv[])
{
  OrcProgram **programs = NULL;
  OrcProgram *p;
  OrcTarget *target;
  OrcCompileResult res;
  unsigned int flags;
  char *log = NULL;
  int n;
  FILE *f;

  orc_init ();

  n = orc_parse_full (source, &programs, &log);
  if (n < 1) {
    fprintf (stderr, "parse failed: %s\n", log ? log : "");
    return 2;
  }
  p = programs[0];

  target = orc_target_get_by_name ("avx");
  if (target == NULL) {
    fprintf (stderr, "no avx target\n");
    return 2;
  }
  flags = orc_target_get_default_flags (target);
  res = orc_program_compile_full (p, target, flags);
  if (!ORC_COMPILE_RESULT_IS_SUCCESSFUL (res)) {
    fprintf (stderr, "compile failed: %d %s\n", res,
        orc_program_get_error (p) ? orc_program_get_error (p) : "");
    return 2;
  }

  f = fopen ("out.s", "w");
  fprintf (f, "%s\n", orc_program_get_asm_code (p));
  fclose (f);

  f = fopen ("out.bin", "wb");
  fwrite (p->orccode->code, 1, p->orccode->code_size, f);
  fclose (f);

  return 0;
}
