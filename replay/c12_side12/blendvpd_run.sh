#!/bin/sh
# Builds demo.c against the orc library in /var/tmp/seed12/C12/_b, lets it
# write the assembly listing (out.s) and the JIT machine code (out.bin) of one
# AVX program, assembles the listing with GNU as and compares the two
# disassemblies instruction for instruction.
# exit 0 = listing and machine code are the same program, non-zero = not.

ROOT=${ORC_TOP:-/repo}
B=${ORC_BUILD:-$ROOT/_build}
HERE=$(cd "$(dirname "$0")" && pwd)
W=${TMPDIR:-/var/tmp}/c12_side12.$$
rm -rf "$W"
mkdir -p "$W" || exit 3
cd "$W" || exit 3

cc -O0 -g -DORC_ENABLE_UNSTABLE_API -I"$ROOT" -I"$B" -o demo "$HERE/blendvpd_demo.c" \
    -L"$B/orc" -lorc-0.4 -Wl,-rpath,"$B/orc" || { echo "FAIL: build"; exit 3; }

./demo || { echo "FAIL: demo did not produce a compiled program"; exit 3; }

as --64 -o out.o out.s || { echo "FAIL: listing does not assemble"; exit 1; }
objcopy -O binary -j .text out.o asm.bin || exit 3

# mnemonic + operands only; padding (nop forms) removed because Orc pads
# with single-byte nops and gas with long nops
dis () {
  objdump -D -b binary -m i386:x86-64 "$1" |
    sed -n 's/^ *[0-9a-f]*:\t[0-9a-f ]*\t//p' |
    sed -e 's/[ \t]*$//' -e 's/  */ /g' |
    grep -v -E '^(nop|nopw|nopl|xchg %ax,%ax|data16|cs nopw)( |$)'
}

dis asm.bin > asm.dis
dis out.bin > jit.dis

# branch destinations are absolute offsets in both files; padding has the
# same length in both, so they are comparable as they are
if diff -u asm.dis jit.dis > dis.diff; then
  echo "PASS: $(wc -l < jit.dis) instructions identical"
  exit 0
else
  echo "FAIL: assembled listing and JIT code differ:"
  cat dis.diff
  exit 1
fi
