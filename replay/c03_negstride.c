/* replay for C03/C07: 2-D program with a negative destination stride (found by three seeding sub-agents, confirmed here).
 * Build: cc c03_negstride.c -I/repo -I/repo/_build -L/repo/_build/orc -lorc-0.4 -o /var/tmp/c03_negstride
 * Run:   LD_LIBRARY_PATH=/repo/_build/orc /var/tmp/c03_negstride ; also with ORC_TARGET=sse / mmx
 * Before the fix orc_x86_add_strides loaded the int stride with a zero-extending 4-byte mov and added all 64 bits to the array pointer. */
#include <stdio.h>
#include <string.h>
#include <stdlib.h>
#include <signal.h>
#include <unistd.h>
#include <orc/orc.h>

#define W 16
#define H 4
#define STRIDE 64

static void on_segv (int sig)
{
  static const char msg[] =
      "FAIL: SIGSEGV inside the compiled function (negative stride)\n";
  (void) sig;
  if (write (1, msg, sizeof (msg) - 1) < 0) {}
  _exit (1);
}

int main (void)
{
  OrcProgram *p;
  OrcExecutor *ex;
  static unsigned char src[H * STRIDE], dst[H * STRIDE], ref[H * STRIDE];
  int i, j, use_emulation = getenv ("EMULATE") != NULL;

  orc_init ();
  p = orc_program_new ();
  orc_program_set_2d (p);
  orc_program_add_destination (p, 1, "d1");
  orc_program_add_source (p, 1, "s1");
  orc_program_append_str (p, "copyb", "d1", "s1", "");
  if (!ORC_COMPILE_RESULT_IS_SUCCESSFUL (orc_program_compile (p))) {
    printf ("not compiled, skipped\n");
    return 0;
  }

  for (i = 0; i < H * STRIDE; i++) src[i] = i;
  memset (dst, 0xA5, sizeof (dst));
  memset (ref, 0xA5, sizeof (ref));
  /* vertical flip: destination walks upwards */
  for (j = 0; j < H; j++)
    memcpy (ref + (H - 1 - j) * STRIDE, src + j * STRIDE, W);

  ex = orc_executor_new (p);
  orc_executor_set_n (ex, W);
  orc_executor_set_m (ex, H);
  orc_executor_set_array (ex, ORC_VAR_S1, src);
  orc_executor_set_stride (ex, ORC_VAR_S1, STRIDE);
  orc_executor_set_array (ex, ORC_VAR_D1, dst + (H - 1) * STRIDE);
  orc_executor_set_stride (ex, ORC_VAR_D1, -STRIDE);

  signal (SIGSEGV, on_segv);
  if (use_emulation)
    orc_executor_emulate (ex);
  else
    orc_executor_run (ex);

  if (memcmp (dst, ref, sizeof (dst)) != 0) {
    printf ("FAIL: destination differs from the flipped copy\n");
    return 1;
  }
  printf ("PASS\n");
  return 0;
}
