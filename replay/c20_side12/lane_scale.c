/* UNCHANGED tree: orc_executor_emulate() recognises loadoffX by its flags
 * (LOAD|SCALAR, two sources) and multiplies the second source by 2 / 4 under
 * x2 / x4.  An application opcode with the same shape (a load that takes a
 * scalar parameter which is NOT an element offset) gets its parameter
 * silently doubled when emulated under x2: the application's emulation
 * function sees 2*p instead of p. */
#include <stdio.h>
#include <orc/orc.h>

static int seen = -1;
static void
emu_ldaddb (OrcOpcodeExecutor *ex, int offset, int n)
{
  orc_int8 *d = ex->dest_ptrs[0];
  const orc_int8 *s = ex->src_ptrs[0];
  int p = ((orc_union64 *) ex->src_ptrs[1])->i & 0xff;
  int i;
  seen = p;
  for (i = 0; i < n; i++) d[i] = s[offset + i] + p;
}

static OrcStaticOpcode ops[] = {
  { "ldaddb", ORC_STATIC_OPCODE_LOAD | ORC_STATIC_OPCODE_SCALAR, { 1 }, { 1, 1 }, emu_ldaddb },
  { "" }
};

int main (void)
{
  static orc_int16 d[16], s[16];
  OrcProgram *p; OrcExecutor *ex; int i;
  orc_init ();
  orc_opcode_register_static (ops, "app");
  p = orc_program_new ();
  orc_program_add_destination (p, 2, "d1");
  orc_program_add_source (p, 2, "s1");
  orc_program_add_parameter (p, 1, "p1");
  orc_program_add_temporary (p, 2, "t1");
  orc_program_append_2 (p, "ldaddb", ORC_INSTRUCTION_FLAG_X2, ORC_VAR_T1, ORC_VAR_S1, ORC_VAR_P1, 0);
  orc_program_append_2 (p, "storew", 0, ORC_VAR_D1, ORC_VAR_T1, 0, 0);
  orc_program_compile_full (p, NULL, 0);   /* no target: emulation */
  for (i = 0; i < 16; i++) s[i] = 0x0101;
  ex = orc_executor_new (p);
  orc_executor_set_n (ex, 16);
  orc_executor_set_array (ex, ORC_VAR_D1, d);
  orc_executor_set_array (ex, ORC_VAR_S1, s);
  orc_executor_set_param (ex, ORC_VAR_P1, 3);
  orc_executor_emulate (ex);
  printf ("parameter passed 3, emulation function saw %d, d[0]=0x%04x (want 0x0404)\n", seen, d[0] & 0xffff);
  return seen == 3 ? 0 : 1;
}
