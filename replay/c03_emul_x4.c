/* Replay: emulation of an x4 instruction on 4-byte elements (16-byte variables) */
#include <orc/orc.h>
#include <stdio.h>
#include <stdlib.h>
int main(int argc, char **argv) {
  OrcProgram *p; OrcExecutor *ex; OrcCompileResult r;
  static orc_uint32 a[64*4], b[64*4], d[64*4];
  const char *pre = argc > 1 ? argv[1] : "x4";
  int sz = pre[1] == '4' ? 16 : 8;
  orc_init();
  p = orc_program_new();
  orc_program_add_destination(p, sz, "d1");
  orc_program_add_source(p, sz, "s1");
  orc_program_add_source(p, sz, "s2");
  orc_program_add_temporary(p, sz, "t1");
  orc_program_append_str_2(p, "addl", pre[1] == '4' ? ORC_INSTRUCTION_FLAG_X4 : ORC_INSTRUCTION_FLAG_X2, "t1", "s1", "s2", NULL);
  orc_program_append_str_2(p, "addl", pre[1] == '4' ? ORC_INSTRUCTION_FLAG_X4 : ORC_INSTRUCTION_FLAG_X2, "d1", "t1", "s2", NULL);
  r = orc_program_compile_for_target(p, NULL);   /* emulation */
  printf("compile result=%d err=%s\n", r, orc_program_get_error(p));
  ex = orc_executor_new(p);
  orc_executor_set_n(ex, 64);
  orc_executor_set_array(ex, ORC_VAR_D1, d); orc_executor_set_array(ex, ORC_VAR_S1, a); orc_executor_set_array(ex, ORC_VAR_S2, b);
  orc_executor_emulate(ex);
  printf("emulated\n");
  return 0;
}
