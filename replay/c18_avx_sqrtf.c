/* replay for C18/C12: two sqrtf in one AVX program (found by a seeding sub-agent, confirmed here).
 * Build: cc c18_avx_sqrtf.c -I/repo -I/repo/_build -L/repo/_build/orc -lorc-0.4 -lm -o /var/tmp/c18_avx_sqrtf
 * Run:   LD_LIBRARY_PATH=/repo/_build/orc /var/tmp/c18_avx_sqrtf   (AVX2 machine)
 * Before the fix the AVX rule was BINARY (sqrtf, sqrtps): the source went into VEX.vvvv, which vsqrtps requires to be 1111b -> SIGILL
 * unless the operand happened to be xmm0. */
/* Side finding 1: on the AVX target, sqrtf whose operand is not in xmm0/ymm0
 * is encoded with VEX.vvvv != 1111b, which is #UD -> SIGILL.
 * (avx rule table: BINARY (sqrtf, sqrtps) instead of UNARY; sqrtd is UNARY.) */
#include <stdio.h>
#include <orc/orc.h>
int main (void)
{
  static const char src[] = ".function two_sqrt\n.dest 4 d1 float\n.dest 4 d2 float\n"
    ".source 4 s1 float\n.source 4 s2 float\nsqrtf d1, s1\nsqrtf d2, s2\n";
  OrcProgram **pr; char *log = NULL; OrcExecutor *ex;
  float s1[16], s2[16], d1[16], d2[16]; int i;
  orc_init ();
  orc_parse_full (src, &pr, &log);
  printf ("compile result %d\n", orc_program_compile (pr[0]));
  for (i = 0; i < 16; i++) { s1[i] = 4; s2[i] = 9; }
  ex = orc_executor_new (pr[0]);
  orc_executor_set_n (ex, 16);
  orc_executor_set_array (ex, ORC_VAR_D1, d1); orc_executor_set_array (ex, ORC_VAR_D2, d2);
  orc_executor_set_array (ex, ORC_VAR_S1, s1); orc_executor_set_array (ex, ORC_VAR_S2, s2);
  fflush (stdout);
  orc_executor_run (ex);
  printf ("d1=%g d2=%g (expected 2 3)\n", d1[0], d2[0]);
  return !(d1[0] == 2 && d2[0] == 3);
}
