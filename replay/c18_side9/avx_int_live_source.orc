.function addusl_live
.dest 4 d1
.dest 4 d2
.source 4 a
.source 4 b
.temp 4 t
.temp 4 u
addl t, a, b
addusl u, t, b
copyl d1, u
copyl d2, t

.function subusl_live
.dest 4 d1
.dest 4 d2
.source 4 a
.source 4 b
.temp 4 t
.temp 4 u
addl t, a, b
subusl u, t, b
copyl d1, u
copyl d2, t

.function convssslw_live
.dest 2 d1
.dest 4 d2
.source 4 a
.source 4 b
.temp 4 t
addl t, a, b
convssslw d1, t
copyl d2, t

.function convsuslw_live
.dest 2 d1
.dest 4 d2
.source 4 a
.source 4 b
.temp 4 t
addl t, a, b
convsuslw d1, t
copyl d2, t
.function subusl_plain
.dest 4 d1
.source 4 a
.source 4 b
subusl d1, a, b

.function addusl_plain
.dest 4 d1
.source 4 a
.source 4 b
addusl d1, a, b
