/* UNCHANGED tree: native (FTZ) and emulation disagree on a finite product
 * whose exact value lies just below the smallest normal but rounds up to it.
 *   mulf: 0x00ffffff * 0.5  -> emulation 0x00800000 (FLT_MIN), AVX/SSE code 0
 *   muld: 0x001fffffffffffff * 0.5 -> emulation 0x0010000000000000, native 0
 * (x86 FTZ detects tininess before the denormal rounding; the C emulation
 * rounds first and only then flushes, so the rounded-up normal survives.)
 * build: cc -DORC_ENABLE_UNSTABLE_API -I<src> -I<build> ftz_boundary.c -L<build>/orc -lorc-0.4
 */
#include <stdio.h>
#include <stdint.h>
#include <string.h>
#include <orc/orc.h>

int main (void)
{
  int bad = 0;
  orc_init ();
  {
    OrcProgram *p = orc_program_new_dss (4, 4, 4);
    uint32_t a[9], b[9], dn[9], de[9]; int i;
    OrcExecutor *ex;
    orc_program_append_str (p, "mulf", "d1", "s1", "s2");
    orc_program_compile (p);
    for (i = 0; i < 9; i++) { a[i] = 0x00ffffff; b[i] = 0x3f000000; }
    ex = orc_executor_new (p);
    orc_executor_set_n (ex, 9);
    orc_executor_set_array (ex, ORC_VAR_S1, a);
    orc_executor_set_array (ex, ORC_VAR_S2, b);
    orc_executor_set_array (ex, ORC_VAR_D1, dn); orc_executor_run (ex);
    orc_executor_set_array (ex, ORC_VAR_D1, de); orc_executor_emulate (ex);
    printf ("mulf native=%08x emulated=%08x\n", dn[0], de[0]);
    bad |= memcmp (dn, de, sizeof dn) != 0;
    orc_executor_free (ex);
  }
  {
    OrcProgram *p = orc_program_new_dss (8, 8, 8);
    uint64_t a[5], b[5], dn[5], de[5]; int i;
    OrcExecutor *ex;
    orc_program_append_str (p, "muld", "d1", "s1", "s2");
    orc_program_compile (p);
    for (i = 0; i < 5; i++) { a[i] = 0x001fffffffffffffULL; b[i] = 0x3fe0000000000000ULL; }
    ex = orc_executor_new (p);
    orc_executor_set_n (ex, 5);
    orc_executor_set_array (ex, ORC_VAR_S1, a);
    orc_executor_set_array (ex, ORC_VAR_S2, b);
    orc_executor_set_array (ex, ORC_VAR_D1, dn); orc_executor_run (ex);
    orc_executor_set_array (ex, ORC_VAR_D1, de); orc_executor_emulate (ex);
    printf ("muld native=%016llx emulated=%016llx\n",
        (unsigned long long) dn[0], (unsigned long long) de[0]);
    bad |= memcmp (dn, de, sizeof dn) != 0;
    orc_executor_free (ex);
  }
  puts (bad ? "FAIL" : "PASS");
  return bad;
}
