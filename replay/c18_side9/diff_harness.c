#include <stdio.h>
#include <stdlib.h>
#include <string.h>
#include <stdint.h>
#include <math.h>
#include <orc/orc.h>
#include <orc/orcparse.h>
#define N 200
static uint64_t A[N+8] __attribute__((aligned(32))), B[N+8] __attribute__((aligned(32)));
static uint64_t D1n[N+8] __attribute__((aligned(32))), D2n[N+8] __attribute__((aligned(32))), D1e[N+8] __attribute__((aligned(32))), D2e[N+8] __attribute__((aligned(32)));
static unsigned lcg=1; static unsigned rnd(void){lcg=lcg*1103515245u+12345u;return lcg>>8;}
static const uint32_t sf[]={0,0x80000000,0x3f800000,0xbf800000,0x7f800000,0xff800000,0x00000001,0x80000001,0x4f000000,0xcf000000,0xcf000001,0x4effffff,0x3f000000,0x7f7fffff,0x00800000,0x00ffffff,0x3fc00000,0x40490fdb,0x7fc00000,0xffc00001};
static const uint64_t sd[]={0,0x8000000000000000ull,0x3ff0000000000000ull,0xbff0000000000000ull,0x7ff0000000000000ull,0xfff0000000000000ull,1,0x8000000000000001ull,0x41e0000000000000ull,0xc1e0000000000000ull,0xc1e0000000200000ull,0x41dfffffffc00000ull,0x3810000000000000ull,0x380fffffffffffffull,0x36a0000000000000ull,0x47f0000000000000ull,0x7fefffffffffffffull,0x0010000000000000ull,0x3fb999999999999aull,0x7ff8000000000000ull,0x7ff0000000000001ull, 0x3690000000000000ull,0x47efffffffffffffull};
int main(int argc,char**argv){ OrcProgram **p; int n,i,k,j; orc_init();
 FILE*f=fopen(argv[1],"r"); static char buf[1<<20]; buf[fread(buf,1,(1<<20)-1,f)]=0; char *log=NULL;
 n=orc_parse_full(buf,&p,&log); if(log&&*log)printf("log: %s\n",log);
 int totalbad=0;
 for(i=0;i<n;i++){ OrcCompileResult r=orc_program_compile(p[i]); if(!ORC_COMPILE_RESULT_IS_SUCCESSFUL(r)){printf("%s: no native (%d)\n",p[i]->name,r);continue;}
  int bad=0; int ssz=p[i]->vars[ORC_VAR_S1].size; int d1=p[i]->vars[ORC_VAR_D1].size, d2=p[i]->vars[ORC_VAR_D2].size;
  for(k=0;k<60&&bad<4;k++){ int nn=1+rnd()%N;
   for(j=0;j<N;j++){ if(ssz==8||p[i]->vars[ORC_VAR_S2].size==8){A[j]=(rnd()&1)?sd[rnd()%(sizeof sd/8)]:(((uint64_t)rnd()<<40)^((uint64_t)rnd()<<16)^rnd()); B[j]=(rnd()&1)?sd[rnd()%(sizeof sd/8)]:(((uint64_t)rnd()<<40)^((uint64_t)rnd()<<16)^rnd());}
     else { uint32_t *a=(uint32_t*)A,*b=(uint32_t*)B; a[j]=(rnd()&1)?sf[rnd()%(sizeof sf/4)]:((rnd()<<8)^rnd()); b[j]=(rnd()&1)?sf[rnd()%(sizeof sf/4)]:((rnd()<<8)^rnd()); } }
   memset(D1n,0x55,sizeof D1n);memset(D2n,0x55,sizeof D2n);memset(D1e,0x55,sizeof D1e);memset(D2e,0x55,sizeof D2e);
   OrcExecutor*ex=orc_executor_new(p[i]); orc_executor_set_n(ex,nn);
   orc_executor_set_array(ex,ORC_VAR_S1,A); if(p[i]->vars[ORC_VAR_S2].size)orc_executor_set_array(ex,ORC_VAR_S2,B);
   if(p[i]->vars[ORC_VAR_P1].size==4)orc_executor_set_param_float(ex,ORC_VAR_P1,1.0f); if(p[i]->vars[ORC_VAR_P1].size==8)orc_executor_set_param_double(ex,ORC_VAR_P1,1.0);
   orc_executor_set_array(ex,ORC_VAR_D1,D1n); if(d2)orc_executor_set_array(ex,ORC_VAR_D2,D2n); orc_executor_run(ex);
   orc_executor_set_array(ex,ORC_VAR_D1,D1e); if(d2)orc_executor_set_array(ex,ORC_VAR_D2,D2e); orc_executor_emulate(ex); orc_executor_free(ex);
   for(j=0;j<nn&&bad<4;j++){ uint64_t x,y; 
     if(d1==8){x=D1n[j];y=D1e[j]; if(x!=y){ double dx,dy; memcpy(&dx,&x,8);memcpy(&dy,&y,8); if(isnan(dx)&&isnan(dy))continue; if(dx==dy&&dx==0)continue; printf("%s n=%d [%d] d1 native=%016llx emu=%016llx\n",p[i]->name,nn,j,(unsigned long long)x,(unsigned long long)y);bad++;}}
     else if(d1==4){x=((uint32_t*)D1n)[j];y=((uint32_t*)D1e)[j]; if(x!=y){ float fx,fy; uint32_t a=x,b=y; memcpy(&fx,&a,4);memcpy(&fy,&b,4); if(isnan(fx)&&isnan(fy))continue; if(getenv("FLT")&&fx==fy&&fx==0)continue; printf("%s n=%d [%d] d1 native=%08x emu=%08x (in %08x/%016llx)\n",p[i]->name,nn,j,(unsigned)x,(unsigned)y,((uint32_t*)A)[j],(unsigned long long)A[j]);bad++;}}
     else if(d1==2){x=((uint16_t*)D1n)[j];y=((uint16_t*)D1e)[j]; if(x!=y){printf("%s n=%d [%d] d1 native=%04x emu=%04x\n",p[i]->name,nn,j,(unsigned)x,(unsigned)y);bad++;}}
   }
  }
  printf("%-28s %s\n",p[i]->name,bad?"MISMATCH":"ok"); totalbad+=bad;
 }
 return totalbad!=0; }
