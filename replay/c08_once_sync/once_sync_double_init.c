/*
 * SIDE FINDING (unchanged tree): the pre-C11 implementation of
 * orc_once_enter() in orc/orconce.h (the __sync_val_compare_and_swap
 * branch, selected whenever the *including* translation unit is compiled
 * with -std=gnu99 / -std=c99 / gnu89, as a lot of orcc-generated code is)
 * lets two threads both run the initialiser of one OrcOnce.
 *
 *   T1: cas(0 -> 3) succeeds, old value 0        (T1 is "the initialiser")
 *   T2: cas fails, old value 3
 *   T2: orc_once_mutex_lock()                    (gets it: T1 has not yet)
 *   T2: re-reads 3 -> falls through, returns FALSE with the mutex held
 *       -> T2 runs the initialiser, orc_once_leave() stores 1, unlocks
 *   T1: orc_once_mutex_lock()
 *   T1: its local "inited" is 0, so the re-check is skipped
 *       -> returns FALSE -> T1 runs the initialiser a second time and
 *          replaces once->value (the first OrcCode is leaked, and callers
 *          that already fetched it keep using a different object)
 *
 * The window is between the cas and the mutex acquisition of T1.  It is
 * forced here by interposing orc_once_mutex_lock() (an exported function
 * that the inline orc_once_enter() calls from this translation unit) and
 * parking T1 in front of it - a legal schedule.
 *
 * Build (note -std=gnu99):
 *   cc -std=gnu99 -O1 -o once_sync once_sync_double_init.c \
 *      -I/var/tmp/seed8/C08 -L/var/tmp/seed8/C08/_b/orc \
 *      -Wl,-rpath,/var/tmp/seed8/C08/_b/orc -lorc-0.4 -lpthread -ldl
 * With -std=gnu11 the C11 branch is used instead and the program prints PASS.
 */
#define _GNU_SOURCE
#include <dlfcn.h>
#include <pthread.h>
#include <semaphore.h>
#include <stdio.h>
#include <stdlib.h>

#include <orc/orc.h>

static void (*real_once_lock) (void);
static __thread int park_me;
static sem_t parked, go_on;

void
orc_once_mutex_lock (void)
{
  if (!real_once_lock)
    real_once_lock = (void (*)(void)) dlsym (RTLD_NEXT, "orc_once_mutex_lock");
  if (park_me) {
    park_me = 0;
    sem_post (&parked);
    sem_wait (&go_on);
  }
  real_once_lock ();
}

static int n_inits;             /* only touched with the once mutex held */

/* shaped like an orcc --lazy-init wrapper */
static OrcCode *
wrapper (void)
{
  static OrcOnce once = ORC_ONCE_INIT;
  OrcCode *c;

  if (!orc_once_enter (&once, (void **) &c)) {
    OrcProgram *p;

    n_inits++;
    p = orc_program_new_ds (1, 1);
    orc_program_append_ds_str (p, "copyb", "d1", "s1");
    orc_program_compile (p);
    c = orc_program_take_code (p);
    orc_program_free (p);
    orc_once_leave (&once, c);
  }
  return c;
}

static void *
first (void *arg)
{
  park_me = 1;
  return wrapper ();
}

static void *
second (void *arg)
{
  return wrapper ();
}

int
main (void)
{
  pthread_t t1, t2;
  void *c1, *c2;

  orc_init ();
  sem_init (&parked, 0, 0);
  sem_init (&go_on, 0, 0);

#if defined(__STDC_VERSION__) && __STDC_VERSION__ >= 201112L
  printf ("note: built as C11, the C11-atomics branch of orconce.h is used\n");
#else
  printf ("note: built pre-C11, the __sync branch of orconce.h is used\n");
#endif

  pthread_create (&t1, NULL, first, NULL);
  sem_wait (&parked);           /* T1 did its cas, stands before the mutex */
  pthread_create (&t2, NULL, second, NULL);
  pthread_join (t2, &c2);
  sem_post (&go_on);
  pthread_join (t1, &c1);

  printf ("initialiser ran %d time(s); T1 got %p, T2 got %p, now %p\n",
      n_inits, c1, c2, (void *) wrapper ());
  if (n_inits != 1) {
    printf ("FAIL\n");
    return 1;
  }
  printf ("PASS\n");
  return 0;
}
