/* candidate replay: ldresnearl whose source pointer lands in rbp (9th gp register): orc_x86_emit_modrm_memindex2 with
 * offset 0 emits mod=0, base=rbp(5) which the CPU reads as disp32-without-base.
 * Build: cc c03_memindex_rbp.c -I/repo -I/repo/_build -L/repo/_build/orc -L/repo/_build/orc-test -lorc-0.4 -o t
 * The program adds 7 byte sources (to consume rax,rdx,rsi,r8..r11 + rbx) and resamples the 8th source. */
#include <orc/orc.h>
#include <stdio.h>
#include <string.h>
#include <stdlib.h>

static const char *prog =
  ".function t\n"
  ".dest 4 d1\n"
  ".source 1 s1\n.source 1 s2\n.source 1 s3\n.source 1 s4\n.source 1 s5\n.source 1 s6\n.source 1 s7\n"
  ".source 4 s8\n"
  ".param 4 p1\n.param 4 p2\n"
  ".temp 1 t1\n.temp 2 t2\n.temp 4 t3\n.temp 4 t4\n"
  "addb t1, s1, s2\naddb t1, t1, s3\naddb t1, t1, s4\naddb t1, t1, s5\naddb t1, t1, s6\naddb t1, t1, s7\n"
  "convubw t2, t1\nconvuwl t3, t2\n"
  "ldresnearl t4, s8, p1, p2\n"
  "addl d1, t3, t4\n";

int main (int argc, char **argv)
{
  OrcProgram **progs; OrcProgram *p; OrcExecutor *ex; OrcCompileResult r;
  const char *tn = argc > 1 ? argv[1] : "sse";
  int n = 40, i, k, bad = 0;
  static orc_uint8 s[8][64]; static orc_uint32 s8[256]; static orc_uint32 d_jit[64], d_emu[64];
  orc_init ();
  k = orc_parse (prog, &progs);
  if (k < 1) { printf ("parse failed\n"); return 2; }
  p = progs[0];
  r = orc_program_compile_full (p, orc_target_get_by_name (tn), orc_target_get_default_flags (orc_target_get_by_name (tn)));
  printf ("compile: %d (%s)\n", r, ORC_COMPILE_RESULT_IS_SUCCESSFUL (r) ? "jit" : "no jit");
  if (getenv ("DUMP")) { fputs (orc_program_get_asm_code (p), stderr); }
  for (k = 0; k < 8; k++) for (i = 0; i < 64; i++) s[k][i] = (orc_uint8)(k * 7 + i);
  for (i = 0; i < 256; i++) s8[i] = 1000 + i;
  for (k = 0; k < 2; k++) {
    ex = orc_executor_new (p);
    orc_executor_set_n (ex, n);
    orc_executor_set_array_str (ex, "d1", k ? d_emu : d_jit);
    for (i = 0; i < 7; i++) { char nm[4]; sprintf (nm, "s%d", i + 1); orc_executor_set_array_str (ex, nm, s[i]); }
    orc_executor_set_array_str (ex, "s8", s8);
    orc_executor_set_param_str (ex, "p1", 0);
    orc_executor_set_param_str (ex, "p2", 65536 * 2);
    if (k) orc_executor_emulate (ex); else orc_executor_run (ex);
    orc_executor_free (ex);
  }
  for (i = 0; i < n; i++) if (d_jit[i] != d_emu[i]) { if (bad < 5) printf ("  [%d] jit %u emu %u\n", i, d_jit[i], d_emu[i]); bad++; }
  printf (bad ? "FAIL: %d elements differ\n" : "PASS\n", bad);
  return bad != 0;
}
