/* replay for C05: a program with no instructions and no variables, compiled for every registered target.
 * Build: cc c05_empty.c -I/repo -I/repo/_build -L/repo/_build/orc -lorc-0.4 -o /var/tmp/c05_empty
 * Run:   LD_LIBRARY_PATH=/repo/_build/orc /var/tmp/c05_empty
 * Before the fix orc_x86_compile called orc_x86_assemble_copy() when no array variable exists; that function reads
 * program->insns[0].opcode->name, a NULL dereference for an empty program (SIGSEGV on sse/mmx/avx and the default compile). */
#include <orc/orc.h>
#include <stdio.h>
int main (void)
{
  const char *names[] = { NULL, "sse", "mmx", "avx", "c", "neon", "arm", "mips", "altivec", "c64x-c", 0 };
  int k;
  orc_init ();
  for (k = 0; k == 0 || names[k]; k++) {
    OrcProgram *p = orc_program_new ();
    OrcTarget *t = names[k] ? orc_target_get_by_name (names[k]) : NULL;
    int r;
    if (names[k] && !t) continue;
    r = names[k] ? orc_program_compile_full (p, t, orc_target_get_default_flags (t)) : orc_program_compile (p);
    printf ("%-8s result 0x%x\n", names[k] ? names[k] : "default", r);
    orc_program_free (p);
  }
  return 0;
}
