#!/usr/bin/env python3
"""File a confirmed seeded change under /verif/seeded/<name>/ and run the checks against it.

usage: tools/file_seed.py <PID> <worktree> <name> "<needs-to-manifest>" [--all]
Requires tools/confirm_seed.sh to have been run in that worktree (its logs are read).
The patch is applied to /repo's working tree, the check(s) run, and the tree restored straight away.
"""
import json, os, re, shutil, subprocess, sys
pid, wt, name, needs = sys.argv[1:5]
allchecks = "--all" in sys.argv
S = os.path.join(wt, "_seed")
D = os.path.join("/verif/seeded", name)
os.makedirs(D, exist_ok=True)
shutil.copy(os.path.join(S, "patch.diff"), os.path.join(D, "patch.diff"))
if os.path.exists(os.path.join(S, "notes.md")):
    shutil.copy(os.path.join(S, "notes.md"), os.path.join(D, "notes.md"))
dd = os.path.join(D, "demo")
shutil.rmtree(dd, ignore_errors=True)
os.makedirs(dd)
for root, dirs, files in os.walk(os.path.join(S, "demo")):
    for fn in files:
        p = os.path.join(root, fn)
        rel = os.path.relpath(p, os.path.join(S, "demo"))
        # sources and scripts only: skip binaries / objects
        with open(p, "rb") as fh:
            head = fh.read(4)
        if head[:4] == b"\x7fELF" or os.path.getsize(p) > 200000:
            continue
        os.makedirs(os.path.dirname(os.path.join(dd, rel)), exist_ok=True)
        txt = open(p, "rb").read()
        # make the demo relocatable: ORC_SRC = source tree with the build in $ORC_SRC/_b
        txt = txt.replace(wt.encode(), b"${ORC_SRC:-" + wt.encode() + b"}") if fn.endswith(".sh") else txt
        open(os.path.join(dd, rel), "wb").write(txt)
        shutil.copymode(p, os.path.join(dd, rel))
def log(n):
    p = os.path.join(S, n)
    return open(p, errors="replace").read() if os.path.exists(p) else ""
suite = log("suite.with.log")
m = re.search(r"^Ok:\s+(\d+)", suite, re.M)
fails = re.search(r"^Fail:\s+(\d+)", suite, re.M)
# run checks against /repo with the patch applied
# run the checks against a private worktree of /repo HEAD with the patch applied (never touches /repo's working tree)
import tempfile
WT = tempfile.mkdtemp(prefix="orcfile.", dir="/var/tmp")
subprocess.check_call(["git", "-C", "/repo", "worktree", "add", "-q", "--detach", WT + "/r", "HEAD"])
subprocess.check_call(["git", "-C", WT + "/r", "apply", os.path.join(D, "patch.diff")])
os.environ["ORC_REPO"] = WT + "/r"
EVD = WT + "/ev"
results = {}
try:
    if allchecks:
        out = subprocess.run(["/verif/bin/runall"], capture_output=True, text=True, env=dict(os.environ, VERIF_EVIDENCE_DIR=EVD)).stdout
        for ln in out.splitlines():
            mm = re.match(r"^(C\d\d) rc=(\d+)", ln)
            if mm:
                results[mm.group(1)] = int(mm.group(2))
        viol = [l for l in out.splitlines() if l.startswith("VIOLATION") or l.startswith("ANALYSIS")]
    else:
        r = subprocess.run(["/verif/bin/check", pid], capture_output=True, text=True, env=dict(os.environ, VERIF_EVIDENCE_DIR=EVD))
        results[pid] = r.returncode
        out = r.stdout + r.stderr
        viol = [l for l in out.splitlines() if l.startswith("VIOLATION") or l.startswith("ANALYSIS")]
finally:
    subprocess.call(["git", "-C", "/repo", "worktree", "remove", "--force", WT + "/r"])
    shutil.rmtree(WT, ignore_errors=True)
open(os.path.join(D, "check_output.txt"), "w").write(out)
meta = {
    "property": pid,
    "origin": "written by a fresh sub-agent that saw only the text of %s and its own scratch worktree" % pid,
    "files_changed": sorted(set(re.findall(r"^\+\+\+ b/(\S+)", open(os.path.join(D, "patch.diff")).read(), re.M))),
    "needs_to_manifest": needs,
    "confirmed_by_me": {
        "how": "tools/confirm_seed.sh: patch applies to clean HEAD of the scratch worktree; ninja build; demo/run.sh without the patch; demo/run.sh with the patch; meson test with the patch",
        **json.load(open(os.path.join(S, "confirm.json"))),
        "suite_fail_with_change": int(fails.group(1)) if fails else None,
    },
    "checks_run_against_it": results,
    "caught_by": sorted(k for k, v in results.items() if v == 1),
    "first_reports": viol[:6],
}
json.dump(meta, open(os.path.join(D, "meta.json"), "w"), indent=1)
print(json.dumps({k: meta[k] for k in ("property", "checks_run_against_it", "caught_by")}))
for v in viol[:4]:
    print("  ", v[:200])
