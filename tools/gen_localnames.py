#!/usr/bin/env python3
"""Freeze the reference names of parameters and locals of every function of /repo's CURRENT tree into
tables/localnames.json (see lib/facts.py: normalise_locals).  Run deliberately, on a tree whose checks pass; never at
check time."""
import json, os, subprocess, sys, tempfile, shutil
VERIF = os.path.dirname(os.path.dirname(os.path.abspath(__file__)))
sys.path.insert(0, os.path.join(VERIF, "lib"))
os.environ["ORC_NO_NORMALISE"] = "1"
import driver as D, facts as F
D.build_orcsa()
scratch = tempfile.mkdtemp(prefix="orcln.", dir="/var/tmp")
try:
    bdir = os.path.join(scratch, "b")
    subprocess.check_call(["meson", "setup", bdir, F.REPO], stdout=subprocess.DEVNULL)
    ctx = D.Ctx("LN", "quick", scratch, bdir, os.path.join(scratch, "facts"))
    ctx.db()
    tab = {}
    for fn in sorted(os.listdir(ctx.factdir)):
        d = json.load(open(os.path.join(ctx.factdir, fn)))
        for fd in d["functions"]:
            rel = F.relpath(fd.get("file", ""))
            if not (rel.startswith("orc/") or rel.startswith("tools/")) or not fd.get("body"):
                continue
            F.separate_shadows(fd)
            params, locs = F.local_decls(fd)
            tab["%s::%s" % (rel, fd["name"])] = {"params": params, "locals": [[t, n] for t, n in locs]}
    json.dump(tab, open(os.path.join(VERIF, "tables", "localnames.json"), "w"), indent=0, sort_keys=True)
    print("localnames.json: %d functions" % len(tab))
finally:
    shutil.rmtree(scratch, ignore_errors=True)
