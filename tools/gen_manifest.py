#!/usr/bin/env python3
"""Regenerates /verif/MANIFEST.json from the table below (one place to edit)."""
import json
import os

VERIF = os.path.dirname(os.path.dirname(os.path.abspath(__file__)))

# pid -> (technique, level text, level note, design ref)
CLAIMED = {
    "C14": (
        "custom clang-AST/CFG checkers: capacity dominance (R-CAP), path-sensitive nullness with dispatch-table narrowing (R-NULL), sentinel-before-index (R-SENT), terminator contract, who-may-call, loop-divergence",
        "Decides, on every CFG path of the current orcparse.c / orcprogram.c / orcutils.c sources, the structural necessary conditions of parser totality: token and instruction appends are dominated by a capacity test, parser->program is non-NULL wherever it is dereferenced (interprocedural, through the directive table), the -1 sentinel of orc_program_add_constant_str is tested before indexing, the error array handed to the NULL-scanning consumer is terminated, every error record carries the parser's line number, and no loop is definitely divergent. It does not prove termination or value-level contents of error records.",
        "Trusted: clang 14 front end + CFG; orc_malloc aborts on OOM (checked structurally); nullness tracks one access path per query. Declined clauses: termination as a theorem, CR/LF line accounting, OOM behaviour.",
        "DESIGN.md §4 C14"),
    "C05": (
        "capacity-dominance dataflow (R-CAP) over every library function, code-buffer guard rule, typestate of orc_compiler_compile_program over its CFG with call-kill must-facts, loop-form classifier with definite-divergence and skippable-equality-exit rules (finite value-set evaluation from table initialisers)",
        "Decides for every function of the library (all eight backends, 1.6k functions) that appends to the API-driven fixed tables (program/compiler instructions, variables, constants, tokens, rule sets, targets) are dominated by a capacity test, that the x86 encoders bound the 64 KiB code buffer, that the compile driver stores the JIT pointer only after the chunk test and a fresh error test, installs a fallback before any error exit and never returns 0 from the error exit, and that no loop is definitely divergent or exits only through an equality that feasible operand values skip. Abort-freedom and general termination are not decided.",
        "Trusted: clang 14 AST/CFG; arming table tables/c05_rcap.json (which tables are filled by API input, confirmed by replays); may-value sets for the equality-exit rule. Declined: ORC_ASSERT reachability, quantitative time bounds, labels/fixups whose count is fixed by backend skeletons.",
        "DESIGN.md §4 C05"),
    "C12": (
        "table cross-check against GNU as as ISA oracle (mnemonic+operand forms built from the table's own rows, bytes decoded into prefix/escape/opcode/ext, legacy and VEX), enum/table alignment, switch exhaustiveness over OrcX86InsnType, register-name tables",
        "Decides that every row of orc_x86_opcodes[] that has an emission site encodes exactly what a standard assembler reads from the row's mnemonic in the operand forms (mm / xmm / VEX / GP) it is emitted with, that OrcX86OpcodeIdx and the table are aligned row by row, that all instruction types are handled by every text and byte emitter switch with immediates on both sides, and that register-name tables are in encoding order. Per-program identity (operand selection, relaxation, fixups, alignment filler) is not decided.",
        "Trusted: binutils `as` of the image as reader of AT&T syntax; the field semantics of OrcX86Opcode as implemented by output_opcode. Three rep-movs rows excluded as dead code (reason in rules/c12.py). The assembler only ever sees strings built from the table; no Orc code is run.",
        "DESIGN.md §4 C12"),
    "C13": (
        "sibling cross-check of encoder and decoder CFGs (per-tag field sequences on all paths), composition of class mappings through the constructors' stores, enum/table numbering",
        "Decides that orc_bytecode_from_program and orc_bytecode_parse_function agree on the field layout of every tag and of instruction operands, that parameter and variable classes map back to themselves through the constructors the decoder calls, that ORC_BC_<op> numbering equals 32 + table index with all opcodes below the 255 escape, and that the integer codecs mirror each other. Behavioural equality of the reconstructed program is not decided.",
        "Trusted: clang AST/CFG. Declined: names/alignments that the format does not carry, 64-bit constants passed through int APIs, asserting boundary values.",
        "DESIGN.md §4 C13"),
    "C19": (
        "control-dependence of feature-flag stores on cpuid bit tests (reaching cpuid leaf per register, path-aware expansion of boolean locals) against an architectural reference table; must-facts at returns of is_executable/get_default; dominance order of registrations; cross-artefact check code vs doc/running.xml",
        "Decides that each detected feature flag is set only under the cpuid bit that implies it, that AVX flags also require XSAVE/OSXSAVE and the XCR0 ymm check, that a backend reports itself executable only under its base ISA flags and every other target object is created non-executable, that mmx/sse/avx are registered in increasing order with only executable targets replacing the default, that default flags carry only detected feature bits, and that the environment override is the documented variable, is freed, and cannot return a non-executable target. Behaviour per concrete CPU is not executed.",
        "Trusted: cpuid bit positions from the Intel SDM / AMD APM (table in rules/c19.py); this sandbox's build configuration (HAVE_AMD64).",
        "DESIGN.md §4 C19"),
    "C06": (
        "acquire/release typestate over the CFG with failed-acquisition edges pruned (R-PAIR), first-test-is-the-right-sentinel rule (R-SENT), must-pass-through for the init probe with constant tracking of boolean locals, per-path call counting in the executor dispatch",
        "Decides that the dual-map allocator releases file name, descriptor and first mapping on every failure exit, that every OS/allocator result is first compared with its own failure sentinel, that the acquisition chain gives up only after all methods, that a failed init probe always forces backup+emulate, and that executor dispatch calls exactly one implementation once on every path. Equality of fallback results with emulation is not decided.",
        "Trusted: clang CFG; POSIX failure sentinels (mkstemp -1, ftruncate <0, mmap MAP_FAILED). OOM exits of realloc are out of scope.",
        "DESIGN.md §4 C06"),
    "C16": (
        "ownership analysis: owning-field sets computed from all stores of fresh allocations/transfers vs destructor release sets (R-OWN); acquire/release typestate on compile-driver exits and allocating-helper callers (R-PAIR); path search for overwrite-without-release in setters; move/null discipline",
        "Decides that every heap-owning field of OrcProgram, OrcCode, OrcBytecode, OrcParseError and the parser object is released by its destructor/scope, that every exit of orc_compiler_compile_program frees the compiler and the same scratch set, that strings from _orc_getenv/strsplit are freed by their callers, that setters release the old value, that take_code/asm_code moves do not leave two owners, and that resets null what they free. Use-after-free across API histories is not decided.",
        "Trusted: allocator/releaser tables in lib/ownership.py; process-lifetime registries are not instances.",
        "DESIGN.md §4 C16"),
    "C08": (
        "must-hold lock-state dataflow with requires-lock caller summaries (R-LOCK), lock pairing as exit-state typestate including the once_enter/leave protocol, publication-order dominance with memory-order constants of the C11 atomics, effect analysis of the compile/run call-graph slice (indirect calls resolved through function-pointer slots) against process-wide state, double-checked-flag atomicity",
        "Decides that the code-memory allocator's shared state is only touched with the global mutex held, that both mutexes are released on every path (with the asymmetric once protocol), that the once protocol publishes value before a release store and reads it only after a non-zero acquire load, that no function reachable from the compile/run entry points writes process-wide state outside a lock or a once-flag first run from orc_init, that registries are written only on the init path or by the registration API, and that no plain variable is read outside and written inside a mutex. Absence of all data races and correctness of concurrent results are not decided.",
        "Trusted: clang CFG; the C11-atomics branch of orconce.h is the one this build compiles; fresh unpublished objects need no lock.",
        "DESIGN.md §4 C08"),
    "C09": (
        "symbolic evaluation of the straight-line field assignments of split/merge against tiling identities (linear expression rewriting, no solver), must-facts at merge/split/hand-out sites, same-offset and bounded-copy structural rules",
        "Decides three necessary conditions of allocator consistency: split and merge conserve offsets, sizes and list links and free the merged chunk after its last use; a chunk is handed out only when unused and large enough, marked used, split only when larger and by the aligned size, with code and exec derived from the same chunk offset of the chunk's own region; the copy into the chunk has exactly the allocated length and rounding never shrinks it. Non-overlap and reuse over arbitrary histories, coalescing completeness and region growth are not decided.",
        "Trusted: clang AST; linear integer arithmetic without overflow below the 64 KiB region size.",
        "DESIGN.md §4 C09"),
    "C11": (
        "guarded-emission analysis (R-GUARD): rule registrations with rule-set flags, emission call sites resolved to table rows/register class/operand form through helper calls with accumulated target_flags guards, ISA level per instruction form from GNU as under restricted -march sets",
        "Decides sentence 1 for all three x86 backends: every instruction an emitter can produce (about 2000 distinct rule/site/row/class obligations) needs an ISA level implied by the required flags of every rule set the rule is registered in plus the target_flags tests dominating the site; non-rule emitters are held to the weakest rule-set requirement of their backend. Sentence 2 (same results for every flag subset) is not decided.",
        "Trusted: binutils' extension tables as ISA reference; flags independent above the target's base level (own-flag semantics), hardware implication trusted only at or below it; MMXEXT implies only the SSE integer extensions on mm registers. Sites whose opcode argument is not constant-resolvable are listed as information.",
        "DESIGN.md §4 C11"),
    "C10": (
        "sibling comparison of prologue pushes and epilogue pops (register, predicate, order, loop direction), ABI reference tables vs save_regs/valid_regs stores, abstract interpretation of the MXCSR emission sequences over {ORIG, MOD} slot values, path search with boolean-constant tracking for set=>restore and emms-before-epilogue, row-based checks for vzeroupper/ret and stack adjustment",
        "Decides that epilogue pops mirror prologue pushes in both the 64-bit and the 32-bit variant, that the SysV AMD64 / i386 callee-saved sets are preserved and ESP, the executor and the scratch register are never allocatable, that restore_mxcsr reloads the slot in which set_mxcsr kept the caller's value (mask 0x8040), that set is always followed by restore before the epilogue, emms is emitted on every path, vzeroupper precedes ret for AVX, and the vector save area is released by the amount it was reserved. Spills under register pressure and the direction flag are not decided.",
        "Trusted: SysV/i386 callee-saved sets; the emission helpers interpreted in D3 (stmxcsr/ldmxcsr/mov/or) are the only ones the MXCSR sequences use (anything else is exit 2).",
        "DESIGN.md §4 C10"),
    "C02": (
        "non-interference check over all emulate_* functions (occurrences of offset/n/i restricted to the loop header and to canonical or documented subscript forms), table/function agreement on element sizes and operand slots, dominance of accumulator zeroing, prefix handling in the dispatcher",
        "Decides sentence 2 of the property for the reference emulator: the result for element i cannot depend on its position, on n or on an x2/x4 prefix other than through the documented source indices of the up-sampling/offset/resampling loads; plus the table-to-emulator agreement (row name, element sizes, operand slots, declaration) for all 197 opcodes and the zeroing of accumulators. What each opcode computes from its operands (wrap-around, saturation, rounding, byte order) is not decided.",
        "Trusted: clang AST; documented index forms frozen from doc/opcode_table.xml (shift constants not checked).",
        "DESIGN.md §4 C02"),
    "C03": (
        "index-form discipline over the emulator and over the C generator's format literals; per-case access-width check of the x86 move helpers and load/store rules against operand widths taken from objdump's size annotation (path enumeration inside each `case N`); who-may-store and closed executor-slot set over emission call sites",
        "Decides that the emulator and every C program Orc can generate subscript operand arrays only with canonical or documented index forms under `i < n`, never store through (const) source pointers, that each size case of the x86 move helpers and load/store rules touches exactly the entitled number of bytes (loadupdb N/2, loadupib N/2+1 and 1 for a single element), that array stores are emitted only by store rules through the destination pointer, and that generated code writes only a frozen set of executor scratch slots. Region counters, strides, row advance and rep-movs counts are not decided.",
        "Trusted: binutils operand-size annotation; SLOT_TABLE and GEN_FORMS tables in rules/c03.py (confirmed by reading; documented forms from doc/opcode_table.xml).",
        "DESIGN.md §4 C03"),
    "C04": (
        "exhaustiveness of C-rule registration vs the opcode table; staleness check comparing the statement templates read from this run's AST of orcprogram-c.c/opcodes.h (format literals with literal arguments substituted) with the statements of the checked-in emulator",
        "Decides sentence 2 of the property (the checked-in emulator is what the C generator produces) for the 186 straight-line C rules, and that every opcode of the sys table has a C rule. Rules with branches are covered by C03-D1b only as far as their subscripts go. Value equivalence of compiled C and emulation is not decided.",
        "Trusted: clang AST; name placeholders as produced by c_get_name_int/float.",
        "DESIGN.md §4 C04"),
    "C07": (
        "sibling agreement of the emitter functions of tools/orcc.c (ordered variable classes, per-class extras, n/m conditions from must-facts), name-table/enum agreement across three copies, constant evaluation of the 64-bit high-half slot distance; thorough tier: generated-source analysis — orcc built from the tree is run on a corpus in all modes and every output is type-checked with clang -fsyntax-only",
        "Decides that prototype, .backup call emitters and executor fill-in of orcc describe the same C interface, that the variable name tables match the ORC_VAR_* enumeration without duplicates in all copies, and that writer and readers of the high half of 64-bit parameters use the same slot. Thorough: 400+ generated implementation/header pairs (test.orc, orcfunctions.orc, examples, seven synthetic feature files) x {inline, lazy-init, no-backup, compat} x {JIT, DISABLE_ORC} type-check. Run-time results in the four modes and orc_memcpy/orc_memset behaviour are not decided.",
        "Trusted: clang type checker; the corpus covers the feature classes listed in rules/c07.py (the clause is decided for those inputs only). The thorough tier executes the generator (as the build does), never the generated functions.",
        "DESIGN.md §4 C07"),
    "C15": (
        "table-driven mapping check: directive table rows -> handler -> API constructor with argument roles resolved through the callee's parameter names and token provenance of each argument; must-facts (strcmp keyword tests) for sub-keywords and x2/x4 prefixes",
        "Decides that every directive of the .orc syntax reaches exactly the API constructor it denotes with the size/name/value tokens in the parameters of those names, that .n/.flags sub-keywords and the x2/x4 prefixes select their setters/flags, and that flag word and operands reach orc_program_append_str_n unchanged and in order. Literal parsing and formatting independence are not decided.",
        "Trusted: reference mapping REFERENCE in rules/c15.py.",
        "DESIGN.md §4 C15"),
    "C18": (
        "constant check of the MXCSR mask, flag/implementation agreement over the opcode table (float member use in the emulator vs FLOAT flags), must-facts at the set_mxcsr call, macro-provenance check (ORC_DENORMAL) of float operand reads and results per frozen family table",
        "Decides three structural conditions of the flush-to-zero contract: mask 0x8040; every float-computing opcode carries the FLOAT flag that alone triggers set_mxcsr; the emulator (and via C04 the C templates) reads float operands through ORC_DENORMAL and flushes arithmetic results. IEEE results, NaN propagation, conversion saturation and bit-for-bit agreement are not decided.",
        "Trusted: family table in rules/c18.py (confirmed by reading).",
        "DESIGN.md §4 C18"),
    "C17": (
        "effect analysis over the compile call-graph slice (deny-listed nondeterminism sources must be dominated by the documented randomize test; process-wide variables written by the slice may be read only by the allocator), confinement of allocator outputs to placement fields, reader set of the debug level, emission-layer write set vs the reset set between the two passes of orc_x86_compile, pointer-derived immediates, stores into the program",
        "Decides that nothing on the compile path (1.4k functions, all back ends) draws on rand/time/pid/environment outside the documented randomize mode, that compile history can reach the result only through the code-memory placement fields, that the debug level is read only by the logging module, that the x86 emission state is reset between the sizing pass and the real pass, that no emitted immediate is computed from an address, and that the compile driver only reads the program. Byte-for-byte equality of two compilations is not executed.",
        "Trusted: call graph with indirect calls resolved through function-pointer slots (object-insensitive); allow-table PASS_CARRY with reasons in rules/c17.py.",
        "DESIGN.md §4 C17"),
    "C20": (
        "structural checks on the registry code: definition/use of the rule-slot index against the opcode-major filter (must-facts), sizing expression of rules[], sentinel-before-index, loop direction and skip condition of the rule search, who-looks-up-\"sys\", registration order via call-graph reachability, record fields holding OrcOpcodeSet pointers",
        "Decides that rule lookup indexes a rule set only with the index computed in the opcode's own set and after the major comparison, that rule arrays are sized by that set, that an unknown name is rejected, that later rule sets win when their flags are satisfied, that emulation dispatches through the instruction's own opcode and no compile/run-path code assumes the sys set, that built-in names win lookup because sys is registered first, and that nothing persistent points into the reallocated set array. Results of programs mixing built-in and extension opcodes are not decided.",
        "Trusted: clang AST/CFG; call graph.",
        "DESIGN.md §4 C20"),
}

# Additions made after the sub-agent seeding rounds (DESIGN.md 8.5): (technique +=, level text +=, level note +=)
ADDENDA = {
    "C03": ("; bound derivation for one-byte displacements of the ModRM emitters",
            " Also decides that a memory operand's displacement is emitted as a single (sign-extended) byte only where it is known to lie in [-128, 127], and that the displacement-free (mod=0) form is never emitted with an rbp/r13 base.", ""),
    "C04": ("; type-level widening rule over the generator's parameter-assembly templates instantiated into a scratch translation unit",
            " Also decides that the generated C and the emulator reassemble a 64-bit parameter from its two executor slots with a zero-extended low half.", ""),
    "C07": ("; type-level widening rule over the parameter-assembly templates of orcprogram-c.c / orcc.c instantiated into a scratch translation unit",
            " Also decides that every emitted statement that reassembles a 64-bit parameter zero-extends the low half before OR-ing the shifted high half.", ""),
    "C08": ("; must-hold analysis of the initialiser calls of orc_init and ordering of its once flag",
            " Also decides that orc_init runs every initialiser with the global mutex held (or inside a once region) and publishes its flag only after they finish.",
            " Thorough tier: orcc built from the tree generates the wrappers of testsuite/test.orc and orc/orcfunctions.orc (518 functions) and each is analysed as C code: once pairing on every path, no mutable static object, executor on the stack."),
    "C10": ("; side-of-event comparison for every branch/label pair emitted by orc_x86_compile; REX coverage of opcode-embedded register numbers",
            " Also decides that no branch emitted by orc_x86_compile jumps across save_registers / set_mxcsr / restore_mxcsr / restore_registers, and that push/pop carry bit 3 of the register in a REX prefix (so r12..r15 are the registers actually saved).",
            " Only the SysV AMD64 arm of the ABI table is decided (the i386 arm is not in this build's AST)."),
    "C12": ("; REX coverage and REX-role agreement between the opcode and ModRM byte emitters (with register-provenance feasibility filter); bound derivation for one-byte displacements",
            " Also decides that register numbers embedded in the opcode byte get their bit 3 from a REX prefix, that for every instruction type the operand placed in ModRM.rm / ModRM.reg is the one handed to REX.B / REX.R wherever a register >= 8 can reach it, that a displacement is emitted as one byte only within [-128, 127], and that the displacement-free (mod=0) form is emitted only for bases other than rbp/r13.", ""),
    "C13": ("; type-level widening rule on the integer decoders",
            " Also decides that the integer decoders widen every byte before shifting it into place (no sign extension, no lost bits).", ""),
    "C14": ("; free-then-overwrite path rule over all parser handlers",
            " Also decides that no handler returns with a parser-state field it has freed still in place.", ""),
    "C16": ("; symbolic split/merge identities of the chunk list (shared with C09)",
            " Also decides that the code-chunk list links stay consistent across split/merge, without which orc_code_chunk_free releases a chunk another OrcCode owns.", ""),
    "C17": ("; symbolic split/merge identities of the chunk list (shared with C09)",
            " Also decides the premise under which allocator history is harmless: the chunk list stays a tiling across split/merge.", ""),
    "C20": ("; finite evaluation of the flag-filter guards over all 3-bit masks (semantic equivalence with required & ~flags == 0)",
            "", " The flag filter and the slot index are recognised semantically (any equivalent guard / name lookup or pointer difference), not by source text."),
}

# Additions after the second seeding round (DESIGN.md 8.5, round 2)
ADDENDA2 = {
    "C02": ("; type-level widening rule on the emulator's parameter reassembly",
            " Also decides that orc_executor_emulate and its helpers combine the two slots of a 64-bit parameter as zero-extended low | high << 32."),
    "C03": ("; operand-size rule for accesses to the array-pointer slots of OrcExecutor",
            " Also decides that array pointers kept in OrcExecutor.arrays[] are loaded, stored and advanced at pointer width."),
    "C04": ("; compile-time witness (enum of a constant comparison in a scratch unit) for the spelling of constant operands",
            " Also decides that the text c_get_name_int writes for a constant operand evaluates, in int arithmetic, to that constant."),
    "C05": ("; bound rule for lengths returned by (v)snprintf with a positive-control fixture; non-NULL rule for program->code_exec",
            " Also decides that a length returned by (v)snprintf is never used as copy length, subscript or pointer advance without being bounded by the buffer size, and that the compile driver never leaves a possibly-NULL pointer in program->code_exec."),
    "C06": ("; non-NULL rule for every value stored into program->code_exec",
            " Also decides that the fallback the compile driver installs is always a definite function pointer (backup function only where known non-NULL, else the emulator)."),
    "C07": ("; must-pass-through on the wrapper emitter's CFG for the executor's n and m stores",
            " Also decides that a generated wrapper stores n, and for 2-D programs m, into its executor on every path to the call."),
    "C08": ("; scan of the block-scope static declarations the wrapper emitters of orcc write",
            " Also decides that generated wrappers keep no mutable function-static object besides the once control (the executor is per call)."),
    "C09": ("; counted-loop shape of the region scan and cursor shape of the chunk walk in the free-chunk search",
            " Also decides a necessary condition of reuse: the free-chunk search visits regions 0..n-1 and every chunk of each."),
    "C10": ("; decision-tree evaluation of the push/pop guards through predicate helpers",
            " Also decides that every used callee-saved register other than rbp is pushed and popped whatever else the guard tests."),
    "C13": ("; reaching-definition and guard-equivalence check on the constructors the decoder calls",
            " Also decides that orc_program_add_{source,destination}_full store size and alignment as given (alignment 0 selecting the element size)."),
    "C14": ("; finite evaluation of the guards of every constant advance of the text cursor over a byte alphabet",
            " Also decides that OrcParser.p is advanced by a constant only over bytes known to be non-NUL."),
    "C15": ("; type-level rule on the constant-reuse comparison",
            " Also decides that constants are merged only by a comparison made at 64 bits on both sides."),
    "C16": ("; acquire/release typestate for every block allocated into a local variable (allocating functions inferred by fixpoint)",
            " Also decides, for all library functions, that a block allocated into a local is freed, returned or handed over on every path to an exit."),
    "C18": ("; agreement between the names of the floating-point emit macros and the mnemonics of the table rows they select",
            " Also decides that each of the floating-point emit macros of the x86 back ends selects the table row of the instruction it is named after."),
    "C19": ("; guard classification and finite evaluation for every statement that clears a detected feature bit",
            " Also decides that a detected feature bit is cleared only under the user's switch or under a cpuid-level test admitting only levels below the feature's leaf."),
    "C20": ("; definition/dominance rule on the returns of orc_rule_set_new",
            " Also decides that every registration takes a fresh last slot, so registration order is search order."),
}

# Additions after the third seeding round
ADDENDA3 = {
    "C03": ("; LIFO / same-slot rule for registers a rule parks", " Also decides that fixed registers a rule parks (push or executor slot) come back from the same place into the same register."),
    "C04": ("; sibling agreement of the emulator and generated-C literals of index-dependent rules; thorough tier: regenerate the emulator and compare byte for byte",
            " Also decides that the emulator and generated-C spellings of the 8 index-dependent rules differ only by offset + i -> i. Thorough: orc/orcemulateopcodes.{c,h} equal the output of generate-emulation built from the tree."),
    "C06": ("; guarded-source rule for the emulator's code object", " Also decides that emulation takes the code object from program->orccode when a program is attached and from the A2 slot only for code-only executors."),
    "C07": ("; field-fidelity rule on the constructors a wrapper rebuilds the program through (shared with C13)", " Also decides that size and alignment of arrays survive the rebuild of the program inside generated wrappers."),
    "C09": ("; finite evaluation of the extent of every additional write into the code chunk", " Also decides that any further write into the chunk after the copy stays within the aligned chunk size for every code size."),
    "C11": ("; premise check: rule lookup is stateless and selects rule sets by the subset test (C20-D2 re-run)", " Also decides the premise of sentence 1: a rule set is eligible only when all its required flags are present, and the lookup does not remember answers given under other flags."),
    "C13": ("; finite evaluation of the guard that selects the short constant tag; thorough tier: regenerate orcbytecodes.h and compare",
            " Also decides that the 32-bit constant tag is chosen only for constants the decoder reproduces. Thorough: orc/orcbytecodes.h equals the output of generate-bytecode built from the tree."),
    "C14": ("; linear lower-bound rule for buffers that grow on demand", " Also decides that the error-log buffer grows by at least the length about to be written."),
    "C15": ("; format/argument rule for the synthetic names of inline literals", " Also decides that the name under which an inline literal is registered contains the operand size and the literal token itself."),
    "C20": ("; capacity rule for the copy of the opcode-set name", " Also decides that a set name as long as the prefix array allows is stored completely, so the set is found under that name."),
}

# Additions after the fourth seeding round
ADDENDA4 = {
    "C03": ("; must-pass-through for the n1 <= n clamp of the three-region split", " Also decides that the three-region split compares the alignment prologue count with ex->n and branches, on every emitting path."),
    "C04": ("; role agreement of the generated loop-bound declarations", " Also decides that generated C takes n and m from constant_n / constant_m or from the executor slots emulation reads."),
    "C06": ("; error-number sentinels (functions returning errno values)", " The sentinel rule also covers functions that return an error number (posix_fallocate etc.): non-zero must be treated as failure."),
    "C07": ("; the integer codec rules of the bytecode format (shared with C13)", " Also decides that the integer codecs of the bytecode a wrapper carries mirror each other (escape threshold, byte order)."),
    "C09": ("; must-hold lock analysis of the chunk lists (shared with C08)", " Also decides that the chunk lists are only touched with the global mutex held."),
    "C12": ("; bound derivation for the selection of one-byte-immediate rows", " Also decides that a one-byte-immediate table row is selected for a run-time immediate only where it is known to lie in [-128, 127]."),
    "C13": ("; fresh-slot rule for the constant constructors the decoder calls", " Also decides that orc_program_add_constant / _int64 always append a new slot, so slot numbers survive the round trip."),
    "C15": ("; slot-coverage rule for the parser's operand helpers", " Also decides that the parser's operand helpers look at every destination and source slot of an opcode."),
    "C17": ("; scan for emission-pointer advances without stores (positive control fixture)", " Also decides that no emitter advances codeptr without writing the bytes it steps over (the compile buffer is not cleared)."),
    "C20": ("; exact-comparison rule for the by-name lookup of opcode sets", " Also decides that an opcode set is found only under its whole name."),
}

# Additions after the fifth seeding round
ADDENDA5 = {
    "C02": ("; interval analysis (abstract interpretation over declared operand types, usual arithmetic conversions in comparisons) of saturation against the reference opcode table", " Also decides, per opcode, that the emulator saturates exactly where and to the bounds the reference table says (clamp/sign), and nowhere else; other value semantics stay undecided."),
    "C03": ("; explicit-state exploration of the x86 emitter's control flow (finite boundary-value domain) for def-before-use of generated-code scratch slots", " Also decides that every emitted read of a region counter / row counter is preceded by an emitted store on every feasible path through the emitter."),
    "C04": ("; compile-only witnesses (clang-folded sizeof / sign constants) for the emitted type prelude under three dialect settings", " Also decides that the integer typedefs the generated C starts with have their nominal width and signedness in every preprocessor branch, whatever the signedness of plain char."),
    "C05": ("; interval bound of offsets into constant-size heap blocks (positive control fixture)", " Also decides that slots carved out of a constant-size malloc block lie inside it."),
    "C06": ("; must-fact rule for stores clearing the compile-error latch; who-may-read rule for the executor's attach-time code snapshots", " Also decides that the compile-error flag is only cleared where it was known clear before the tolerated operation, and that stale attach-time copies of a program's code are read only by code-only executors."),
    "C07": ("; acquire-guard rule of the once protocol (shared with C08)", " Also decides that lazy initialisation hands a wrapper its code object only after an acquire load saw it published."),
    "C09": ("; freshness analysis (reaching definitions, move-out of longer-lived storage) of regions entered in the region table", " Also decides that every region appended to the region table is a newly allocated object."),
    "C10": ("; coverage rule between allocator hand-outs and used_regs[] marking", " Also decides that every register the allocator hands out ends up recorded in used_regs[], which governs the prologue's saves."),
    "C12": ("; agreement of VEX.pp with the legacy prefix classes; finite evaluation of the VEX form selector against the three-byte form's R/X/B operands", " Also decides that both VEX encoders put the architectural pp value for every prefix class, and that the two-byte VEX form is never selected for an operand that needs VEX.R/X/B."),
    "C15": ("; path-wise cursor accounting in the parser's token loops", " Also decides that no token of a directive line is stepped over unread."),
    "C16": ("; who-may-read rule for the executor's attach-time code snapshots (shared with C06)", " Also decides that a program-attached executor never dispatches through a stale copy of the program's code."),
    "C18": ("; reaching-definition rule for the scratch-constant provider", " Also decides that orc_compiler_get_temp_constant only returns registers obtained from the scratch allocator in that call."),
    "C20": ("; escape analysis for pointers into the reallocated opcode-set table; literal-name rule for lookups restricted to the built-in set", " Also decides that no pointer into the opcode-set table is kept across a possible registration, and that lookups restricted to the built-in set concern built-in names only."),
}

# Additions after the sixth seeding round
ADDENDA6 = {
    "C02": ("; finite evaluation of the parameter-temporary reuse decision (memo-key completeness)", " Also decides that the compiler shares a loaded parameter between instructions only under facts that tell uses of different operand size, replication or parameter apart."),
    "C03": ("; type-level rule for the staging of parameters in the emulator; symbolic evaluation of the emitted region-split code (linear terms, structured shift/mask symbols, emitted branches as paths)", " Also decides that 4-byte parameters reach the emulator's 64-bit staging sign-extended, and that on every path of the emitted split code the three region counters add up to ex->n."),
    "C04": ("; memo-key completeness of the parameter-temporary reuse (shared with C02)", " Also decides the parameter-reuse condition the generated C depends on."),
    "C05": ("; precondition rule for constant-index reads of counted instruction arrays (one level of callers, predicate helpers expanded); non-NULL rule for entries of the code-region table", " Also decides that insns[K] is read only where n_insns > K is known, and that no possibly-NULL region is entered into the region table."),
    "C06": ("; must-pass-through rule for the executor a generated wrapper fills in (shared with C07)", " Also decides that a wrapper hands emulation an executor carrying n and, for 2-D programs, m."),
    "C07": ("; store-width rule for generated stores into the accumulator slots; zeroing rule of the emulator's accumulators (shared with C02)", " Also decides that every generated store into ex->accumulators[k] writes the whole int slot, and that emulation zeroes the accumulators also for code-only executors."),
    "C09": ("; non-NULL rule for entries of the code-region table", " Also decides that only non-NULL regions are entered into the region table."),
    "C10": ("; symbolic evaluation of the emitted region-split code (shared with C03)", " Also decides that the generated loops process exactly ex->n elements (region counters tile n)."),
    "C12": ("; must-call pairing of listing line and byte emission per instruction; role agreement of VEX.R/X/B with the ModRM operands for every producible instruction shape (finite CFG evaluation of both emitters)", " Also decides that no instruction is printed without being encoded, and that the three-byte VEX prefix extends exactly the registers the ModRM byte carries in reg and r/m."),
    "C14": ("; definite assignment through out-parameters (callee summaries with return-value correlation); snprintf-length rule (shared with C05)", " Also decides that values obtained through out-parameters are defined when read, and that listing writers bound the length (v)snprintf reports."),
    "C15": ("; whole-line rule for copies out of the text cursor", " Also decides that the parser's private copy of a line takes the whole line."),
    "C16": ("; out-parameter allocators (vasprintf) in the local-allocation rule", " The local-allocation rule also covers blocks allocated through vasprintf/asprintf."),
    "C17": ("; who-may-read rule for attach-time code snapshots (shared with C06/C16)", " Also decides that running after a reset and recompile uses the program's current code."),
    "C18": ("; sibling agreement of single-instruction float rules between the SSE and AVX back ends", " Also decides that SSE and AVX implement each single-instruction float opcode with the same opcode-table row."),
    "C19": ("; flag-word agreement between tested bits and the getter's word", " Also decides that is_executable tests its feature bits in the word in which the cpuid handlers set them."),
    "C20": ("; decision-block analysis of the back ends' instruction loops", " Also decides that only the compiler's per-instruction marks can make a back end pass over an instruction without calling its rule."),
}

# Additions after the seventh seeding round
ADDENDA7 = {
    "C02": ("; def-before-use of generated-code counters (shared with C03)", " Also decides that native loops never run on executor contents nobody stored (n/position independence for code called through wrappers), and that x2/x4 instructions are emulated with lane count and chunk offset scaled alike."),
    "C03": ("; sibling agreement of displacement expressions inside load/store rules; sign-extension rule for 2-D strides", " Also decides that all accesses a load/store rule emits through its pointer register use the same displacement formula, and that strides are sign-extended before a pointer-sized add."),
    "C04": ("; parameter staging rule (shared with C03)", " Also decides that the emulator stages int parameters sign-extended, as the generated C declares them."),
    "C05": ("; finite evaluation of the assembler's one-byte range predicates; capacity rule for the mips word emitter; must-pass-through rules for dropping the old code object and for classifying code-less failures as fatal", " Also decides that every [-128,127] range predicate of the x86 assembler is exact, that the mips emitter checks the code buffer, that no return of the compile driver leaves an earlier code object installed, and that a failure before any code object exists is reported as fatal."),
    "C06": ("; sibling agreement of accumulator subscripts", " Also decides that every run-time subscript of ex->accumulators[] is a variable number minus ORC_VAR_A1."),
    "C07": ("; def-before-use of generated-code counters (shared with C03)", " Also decides that code called through a wrapper's uncleared stack executor reads no counter it has not stored."),
    "C08": ("; who-may-write rule for the shared code object on the run/emulation path", " Also decides that running or emulating a program stores only into the executor, never into the shared OrcCode/OrcProgram."),
    "C09": ("; freshness rule for the descriptor backing a region", " Also decides that every region maps a backing object created for it alone."),
    "C10": ("; store-width rule for accumulator slots (shared with C07)", " Also decides that no generated accumulator store is wider than its slot."),
    "C11": ("; own-flag (set) semantics and no-such-form verdicts in the ISA-level rule; delegation and lane-count rules", " The ISA rule now requires each instruction's own feature flag (not merely a higher one) and rejects forms the assembler knows for no register class; also decides that a rule delegates only to a rule of the same opcode and that scalar lane loops cover 1 << insn_shift lanes."),
    "C13": ("; mirror rule for composite (string) codecs", " Also decides that strings are read back through the mirror primitives of those that wrote them."),
    "C14": ("; finite walk of the line-terminator step; must-check rules for constructor results (sentinels passed on as indices, refusals turned into error records)", " Also decides that exactly one line terminator is consumed per line, that possibly negative constructor results are tested before they are used or passed on as variable indices, and that refusals of the construction API become error records."),
    "C15": ("; exact-comparison rule for the by-name lookup of variables", " Also decides that operands are resolved by an exact comparison of the whole name."),
    "C16": ("; parameter-ownership summaries for blocks passed straight to a callee", " The local-allocation rule also covers a fresh block passed directly to a callee that only reads or copies it."),
    "C17": ("; def-before-use and tiling of generated-code counters (shared with C03/C10)", " Also decides that a run does not depend on counters left in the executor by an earlier run."),
    "C18": ("; operand-arity rule for rule functions; widening rule through local definitions", " Also decides that a rule function reads only operands its opcode has, and that 8-byte parameters reach the emulator with both halves intact also when they are assembled from locals."),
    "C19": ("; exact-comparison rule for the by-name lookup of targets", " Also decides that a target is found only under its whole name."),
}

NOT_YET = "check under construction in this round; not claimed until its rules are exact on the current tree"
NOT_APPLICABLE = {
    "C01": "value equivalence of JIT code and emulation over all inputs/register allocations: no structural necessary condition beyond what C03/C10/C11 decide; needs execution or translation validation (other technique families)",
}

ADDENDA8 = {
    "C02": ("; discriminator rule for the constant pool", " Also decides that a constant-pool lookup compares a key field only for entries of that kind."),
    "C03": ("; token-cursor rules for the .n/.m directives (shared with C15); array-operand rule for load/store opcodes (shared with C05); aligned-flag rule for program-chosen displacements", " Also decides that the iteration space is taken from each token once, that the array operand of a load or store opcode must be an array, and that an access whose displacement contains a program-chosen value is never emitted as aligned."),
    "C04": ("; must-pass-through rule for fresh duplicates of re-defined temporaries", " Also decides that every further definition of a temporary goes through orc_compiler_dup_temporary, the premise for emitting invariant loads once."),
    "C05": ("; finite evaluation of the operand-class checks of orc_compiler_check_sizes; upper-bound rule for per-element code generation; positive-divisor rule; fixup tables armed in the capacity rule", " Also decides that scalar and array operand positions are checked before a back end sees them, that code is generated once per declared element only under a constant bound, that no division by a variable's size/alignment can trap, and that every back end bounds its fixup table."),
    "C06": ("; distinctness rule for rule-scratch registers; executable-target rule for installing code; zero-check rule for general-register allocations; lock pairing on the allocator's failure exits (shared with C08)", " Also decides that a scratch register is excluded once handed out, that generated code becomes the entry point only for a target executable here, that a failed general-register allocation is reported unless the field has a memory fallback, and that the allocator's failure exits release the mutex."),
    "C07": ("; per-flavour template rule for 16-bit accumulator write-back; float-mode trigger (shared with C18); lane-limiting rule for accumulating x86 rules", " Also decides that every flavour of generated C truncates a 2-byte accumulator, that FTZ|DAZ is switched on for programs that only consume floats too, and that accw/accl reduce their source to the iteration's lanes for every partial loop_shift."),
    "C08": ("; double-checked-locking rule on both branches of orconce.h (as built and -std=gnu99); descriptor records and buffer-writer calls in the who-may-write rule", " Also decides that orc_once_enter re-reads the state under the mutex in the C11 and in the pre-C11 branch, and that target/rule-set descriptors and static buffers are not written on the compile path."),
    "C09": ("; release-on-every-owning-path rule for the code object's destructor", " Also decides that orc_code_free releases the chunk whenever it is set."),
    "C10": ("; register-bank classification evaluated over every register (shared with C12); disp8 range rules (shared)", " Also decides that no SSE/AVX instruction is emitted in its MMX form and that a store displacement is emitted as one byte only inside [-128, 127]."),
    "C11": ("; constant-pool discriminator rule (shared with C02)", " Also decides that results do not depend on which constants the selected rules put into the pool."),
    "C12": ("; register-bank / prefix classification; stateless name helpers; listing operand widths derived from the listing emitter itself (general-register width vs REX.W, VEX operand classes assembled with GNU as); distinct local labels", " Also decides that the prefix follows the register bank for every register, that name helpers return constant storage, that 64-bit reg->r/m operands are listed with 64-bit names, that every VEX register-form shape an emit site builds is listed as an instruction GNU as accepts, and that no local label number is defined twice."),
    "C13": ("; who-may-write rule for the variable table", " Also decides that only the constructors fill OrcProgram.vars[].size and nothing clears it (dense slots are what the bytecode relies on)."),
    "C14": ("; operand-class rule (shared with C05); end-pointer rule for every token-to-number conversion; completeness of the duplicate-name scan", " Also decides that what the parser accepts can be compiled without aborting, that a directive argument that is not a number is reported, and that the duplicate-name scan covers every variable slot."),
    "C15": ("; abstract interpretation of the line tokenizer over character classes; read-only rule for program checkers; valid-index rule for per-variable setters; consume-once rule for token values; formatted line copies", " Also decides spacing and comment independence of the tokenizer (token starts, blanks before separators, token text, termination, no read past the line), that checking a parsed program leaves it as built, that attribute setters act on index 0, and that no value token is interpreted twice."),
    "C16": ("; descriptor/mapping pairing of the dual-map allocator (shared with C06); destructor completeness and allocator locking (shared with C09/C08)", " Also decides that a failed region attempt leaks no descriptor or mapping, that orc_code_free releases what the object owns, and that the chunk list is touched only under the mutex."),
    "C17": ("; whole-register definition before insert-into-lane loads", " Also decides that a load rule never leaves lanes of its destination as the caller left them."),
    "C18": ("; unconditional-mode rule for the MXCSR prologue; must-definition of destination and scratch registers in three-operand (AVX) rules", " Also decides that no emitted branch skips the ldmxcsr, and that an AVX rule reads no destination or scratch register before writing it."),
    "C19": ("; must-pass-through of the compile entry points; maximum-leaf guard for CPUID queries", " Also decides that every compile request reaches the compiler with its target, and that a basic CPUID leaf is read only where the maximum leaf is known to reach it."),
    "C20": ("; all-operand-slots rule for compiler passes; agreement of stored and looked-up set keys; fresh rule lookup at every compile", " Also decides that every pass walks all source/destination slots, that an opcode set is found under the prefix it was registered with, that the text parser consults every set, and that no lookup result is remembered across compiles."),
}

# Additions after the tenth seeding round
ADDENDA9 = {
    "C02": ("; element-offset scaling of staged scalars under x2/x4", " Also decides that the emulator scales the element offset of loadoffX with the x2/x4 prefix like every other per-chunk quantity."),
    "C03": ("; who-may-read rule for attach-time entry points (shared with C06/C16/C17); width rule for row offsets", " Also decides that a run enters the program's current code, and that row offsets (stride times row index) are computed in 64 bits in the emulator and in generated C."),
    "C04": ("; width rule for constants loaded into 8-byte operands; size-keyed sharing of literal slots (shared with C13/C15)", " Also decides that the C back end extends a 4-byte constant the way emulation does, and that a literal's slot is shared only between uses of the same size."),
    "C05": ("; counter-on-refusal rule for table constructors (shared with C14)", " Also decides that a constructor that refuses a slot leaves its counters as they were."),
    "C06": ("; completeness of liveness scans over the variable table; rule-of-own-set (shared with C20)", " Also decides that every scan of vars[] that decides which registers are free covers all compiler variables, and that an opcode is given only a rule registered for its own opcode set."),
    "C07": ("; completeness of liveness scans over the variable table (shared with C06)", " Also decides that scratch-register selection sees every live variable."),
    "C08": ("; freshness rule for per-compile state", " Also decides that every buffer the compiler writes during a compile belongs to that compile (no static or cached storage behind OrcCompiler pointers)."),
    "C09": ("; field-completeness rule for region constructors", " Also decides that every success exit of a region constructor has stored each field the lookup and free paths read."),
    "C12": ("; re-entrancy rule for the listing writer", " Also decides that the listing writer formats into storage of its own call."),
    "C13": ("; size-keyed sharing of literal slots (shared with C04/C15)", " Also decides that two literals share a slot only if they have the same size, the premise of a slot-for-slot round trip."),
    "C14": ("; range rule for token-to-int conversions; digit-after-prefix rule; counter-on-refusal (shared with C05)", " Also decides that a number outside the range of int is reported, that a bare 0x is not a number, and that refused constructions leave no trace in the counters."),
    "C15": ("; name-retention rule for shared constant slots; declared-name-first rule for operand resolution", " Also decides that a named constant can always be found under its name, and that an operand is looked up among the declared names before it is tried as a literal."),
    "C17": ("; no-stale-restore rule for the MXCSR epilogue (shared with C10)", " Also decides that no path restores a control word it did not save in the same call."),
    "C18": ("; mirror rule for 64-bit constant codecs (shared with C13)", " Also decides that 8-byte constants are read back from bytecode with both halves zero-extended before they are combined."),
    "C19": ("; must-pass-through of the --target request in orcc's generated initialisation code", " Also decides that every compile call orcc generates under --target names that target."),
    "C20": ("; rule-of-own-set in the rule lookup", " Also decides that the rule lookup compares the opcode set as well as the index inside it."),
}

# Additions after the eleventh seeding round
ADDENDA10 = {
    "C03": ("; finite evaluation of the x86 memory-writing helpers for every width a caller asks for; width rule for index products in generated C", " Also decides that a read-modify-write of an executor field has the width the caller asked for, and that the generated C forms index times increment in 64 bits."),
    "C04": ("; width rule for index products in generated C (shared with C03)", " Also decides that the generated C computes the position of the resampling loads in 64 bits, as emulation does."),
    "C05": ("; control-dependence rule for assertion failures on constant values; label-cursor reset between emission passes; step-count rules for rotation and shift searches", " Also decides that no assertion on the compile path is controlled by a program constant's value, that a back end that emits twice resets its label cursor, and that loops searching rotations or powers of two count their steps."),
    "C06": ("; case distinction of the 2-D row step for pointers kept in memory", " Also decides that the row step of 2-D programs tells pointers kept in the executor from pointers kept in a register (the inner loop advances them in different places)."),
    "C07": ("; finite evaluation of the x86 constant loaders for 8-byte constants whose low half is a special-cased 32-bit pattern; must-precede rule for clearing declared alignment before the head region", " Also decides that an 8-byte constant is never loaded through a 32-bit special case without its upper half, and that the head region of the x86 loops clears the declared alignment of the arrays it moves."),
    "C11": ("; must-definition of destination and scratch registers in two-operand (SSE/MMX) rules, with the shift-out idiom modelled (shared with C17); provenance rule for the compiler's flag word", " Also decides that an SSE/MMX rule reads no register nobody wrote, and that compiler->target_flags is the request's flag word."),
    "C12": ("; line-termination rule for directly written listing fragments", " Also decides that no directly written listing fragment can swallow the first instruction of the deferred instruction text."),
    "C13": ("; name-blindness of the constructors the bytecode reader calls with placeholder names", " Also decides that re-creating several variables under one placeholder name cannot lose any."),
    "C14": ("; errno-cleared rule for judged conversions; step-count rules for search loops (shared with C05); store-before-read rule for out-parameters of the entry points", " Also decides that a number's range test does not depend on what was parsed before, that no declared size or offset can make the compile spin, and that no entry point reads the caller's object behind an out-parameter before storing into it."),
    "C15": ("; exact-spelling rule for shared literal slots; signed-int rule for constants narrower than 8 bytes; errno-cleared rule (shared with C14)", " Also decides that only the parser's own literal spelling shares a slot by value, and that a narrow constant from text is the int the API makes of it."),
    "C16": ("; ownership rule for variable names in the compiler's shallow copy", " Also decides that the compiler frees only the names of its own temporaries."),
    "C17": ("; must-definition of destination and scratch registers in two-operand (SSE/MMX) rules", " Also decides that no SSE/MMX rule computes with what a register held before the rule ran."),
    "C18": ("; full-width rule for the last write of an AVX constant", " Also decides that an AVX constant loader never ends on a VEX.128 write (upper lanes zero)."),
    "C19": ("; bit-set semantics of the XCR0 test itself", " Also decides that check_xcr0_ymm is true only when both the SSE and the YMM state bit are set."),
    "C20": ("; must-pass-through of the emulator entry point on the emulation-requested exit", " Also decides that under ORC_CODE=emulate the entry point is the emulator (which calls the application's emulateN), not a backup function."),
}

# Additions after the twelfth (partial) seeding round
ADDENDA11 = {
    "C03": ("; width rule for position locals of the resampling loads", " Also decides that the 16.16 position of ldreslinX is kept in a 64-bit local, in generated C and in the emulator's template."),
    "C05": ("; growth-covers-need rule for demand-grown buffers (shared with C14)", " Also decides that a buffer grown for a record is grown by at least that record."),
    "C08": ("; no-touch-after-release rule for code chunks", " Also decides that a thread does not touch a chunk's memory after returning the chunk to the shared pool."),
    "C09": ("; no-touch-after-release rule for code chunks (shared with C08); every release of a code object judged for what it owns", " Also decides that released code memory is not written by its former owner."),
    "C10": ("; must-pass-through of emms inside the MMX target's hook", " Also decides that the MMX target's clear_emms hook emits emms on every path, in 64-bit code too."),
    "C12": ("; operand-order rule for the register encoded in imm8[7:4]", " Also decides that a four-operand VEX instruction is listed with its is4 operand first, as AT&T syntax has it."),
    "C13": ("; statelessness of the opcode-set lookup both codec directions use", " Also decides that orc_opcode_set_get walks the current array at every call."),
    "C14": ("; growth-covers-need rule for the error log; store-before-read rule for out-parameters", " Also decides that one long error record cannot be written past the log buffer."),
    "C16": ("; every release of the code object judged for what it owns", " Also decides that no early `free (code)` skips the release of insns / vars."),
    "C20": ("; identity rule for the emulator's lane scaling of staged scalars; every compile request compiles (shared with C19)", " Also decides that an application opcode's scalar reaches its emulateN unaltered, and that compiling an already compiled program compiles it again (a rule set registered in between takes effect)."),
}

# Additions after the thirteenth (partial) seeding round
ADDENDA12 = {
    "C07": ("; accumulator walks cover all four slots (shared with C17); printed attribute setters carry their own attribute", " Also decides that every back-end walk that picks out accumulators covers ORC_VAR_A1..A4, and that orcc prints each orc_program_set_<attr> call with p-><attr>."),
    "C11": ("; no write to the register of a live source in two-operand rules (shared with C17)", " Also decides that an SSE/MMX rule leaves its source registers as they were unless the destination shares them."),
    "C15": ("; exactness of the parser's opcode lookup", " Also decides that the opcode a line's literals are sized by is found by its whole name."),
    "C17": ("; accumulator walks cover all four slots; no write to the register of a live source (scratch aliases followed, undo idioms modelled)", " Also decides that every accumulator is zeroed before the loops, and that no rule modifies a source register that a later instruction may read."),
    "C18": ("; result flush in the C generator's templates", " Also decides that the C back end's templates of the result-flushing float opcodes store through ORC_DENORMAL."),
}

ADDENDA13 = {
    "C02": ("; shift-count masks and divisor guards of the emulator", " Also decides that an emulated shift masks its count with at least width-1 or not at all, and that an emulated integer division is guarded by a zero test of the divisor itself."),
    "C04": ("; divisor guards of the C templates", " Also decides that an integer division in a C template is guarded by a zero test of the divisor itself (same operand, same mask)."),
    "C07": ("; divisor guards of the C templates (shared with C04)", " Also decides that the backup / Orc-free C of an integer division cannot divide by zero where emulation returns the reference constant."),
    "C14": ("; capacity of the compiler's own tables against rewritten programs (shared with C05)", " Also decides that the compiler's appenders check their fixed tables before storing (a parsed program grows while it is rewritten)."),
    "C18": ("; finite evaluation of the SIMD constant synthesiser's register-only shortcuts", " Also decides that every shift-built constant of the SSE/MMX constant loaders is the value it is selected for (so a float constant is the same number in native code as in emulation)."),
    "C19": ("; call order of orc_init (ORC_CODE list filled before any back end's CPU detection)", " Also decides that orc_init fills the ORC_CODE flag list before any call that can reach a reader of it."),
    "C20": ("; per-lane invocation of rules by the C back end", " Also decides that the C back end invokes an opcode's rule once per lane of an x2/x4 instruction at every emission site."),
    "C09": ("; the write and execute views of a region are one pointer or shared mappings of one descriptor", " Also decides that every way of obtaining code memory makes region->write_ptr and region->exec_ptr views of the same pages."),
    "C10": ("; sign of the row stride added to executor pointers (shared with C03)", " Also decides that the int stride is widened with its sign before it is added to the 8-byte array pointers between rows."),
    "C12": ("; finite evaluation of the register-name helpers over every register of their bank", " Also decides that the listing's register-name helpers name every register of the xmm, mm and ymm banks (both VEX lengths) by its own name."),
    "C13": ("; built-in names win the opcode lookup (shared with C20)", " Also decides that a name the sys table has resolves to the sys entry, the only kind of opcode the byte encoding can index."),
    "C16": ("; setters read their argument before releasing the string they replace", " Also decides that the string setters of OrcProgram duplicate their argument before freeing the old value (the getters hand out the stored pointer)."),
}


def main():
    props = [json.loads(l) for l in open(os.path.join(VERIF, "properties.jsonl"))]
    checks = []
    na = []
    for p in props:
        pid = p["id"]
        if pid in CLAIMED:
            tech, text, note, ref = CLAIMED[pid]
            if pid in ADDENDA:
                a = ADDENDA[pid]
                tech, text, note = tech + a[0], text + a[1], note + a[2]
            if pid in ADDENDA2:
                a = ADDENDA2[pid]
                tech, text = tech + a[0], text + a[1]
            if pid in ADDENDA3:
                a = ADDENDA3[pid]
                tech, text = tech + a[0], text + a[1]
            if pid in ADDENDA4:
                a = ADDENDA4[pid]
                tech, text = tech + a[0], text + a[1]
            if pid in ADDENDA5:
                a = ADDENDA5[pid]
                tech, text = tech + a[0], text + a[1]
            if pid in ADDENDA6:
                a = ADDENDA6[pid]
                tech, text = tech + a[0], text + a[1]
            if pid in ADDENDA7:
                a = ADDENDA7[pid]
                tech, text = tech + a[0], text + a[1]
            if pid in ADDENDA8:
                a = ADDENDA8[pid]
                tech, text = tech + a[0], text + a[1]
            if pid in ADDENDA9:
                a = ADDENDA9[pid]
                tech, text = tech + a[0], text + a[1]
            if pid in ADDENDA10:
                a = ADDENDA10[pid]
                tech, text = tech + a[0], text + a[1]
            if pid in ADDENDA11:
                a = ADDENDA11[pid]
                tech, text = tech + a[0], text + a[1]
            if pid in ADDENDA12:
                a = ADDENDA12[pid]
                tech, text = tech + a[0], text + a[1]
            if pid in ADDENDA13:
                a = ADDENDA13[pid]
                tech, text = tech + a[0], text + a[1]
            checks.append({
                "property_id": pid,
                "quick_cmd": "bin/check %s --tier quick" % pid,
                "thorough_cmd": "bin/check %s --tier thorough" % pid,
                "evidence_file": "evidence/%s.json" % pid,
                "replay_cmd_template": "bin/check %s --explain {path}" % pid,
                "engine": "orcsa+rules",
                "level_claimed": {"category": "other", "text": text, "design_ref": ref},
                "level_note": note,
                "technique": "static analysis: " + tech,
            })
        elif pid in NOT_APPLICABLE:
            na.append({"property_id": pid, "reason": NOT_APPLICABLE[pid]})
        else:
            na.append({"property_id": pid, "reason": NOT_YET})
    m = {
        "version": 1,
        "setup_cmd": "bin/setup",
        "hooks": {
            "guard": "ORC_VERIF",
            "enable": "none needed: checks analyse the sources of /repo's working tree (meson setup in a scratch dir gives config.h + compile_commands.json); nothing is instrumented",
            "baseline_off_cmd": "meson test -C /repo/_build",
            "source_commits": [],
            "add_only": True,
        },
        "engines": [
            {"name": "orcsa+rules", "path": "tools/orcsa.cc, lib/*.py, rules/*.py",
             "serves_properties": sorted(CLAIMED),
             "kind_free_text": "libTooling fact extractor (AST + clang::CFG + evaluated initialisers) over the meson compile database of the current tree; python rule engines per property; exit 0/1/2 (2 = analysis broken)"},
        ],
        "checks": checks,
        "not_applicable": na,
        "notes": "Static analysis only. Every verdict is computed from /repo's current sources. known_findings.txt lists genuine defects (fixed: lines suppress nothing).",
    }
    with open(os.path.join(VERIF, "MANIFEST.json"), "w") as f:
        json.dump(m, f, indent=1)
    print("MANIFEST.json: %d checks, %d not_applicable" % (len(checks), len(na)))


if __name__ == "__main__":
    main()
