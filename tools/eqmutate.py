#!/usr/bin/env python3
"""Behaviour-preserving ("equivalence") mutants: the checks must stay SILENT on them.

usage: tools/eqmutate.py <mode> <worktree> [file ...]
  mode rename   : every parameter and local variable x of every function in the given files becomes x_q
  mode nulltest : `if (!p)` <-> `if (p == NULL)` style flips where the operand is a pointer
The worktree (a scratch checkout of /repo HEAD, outside /repo and /verif) is modified in place; the caller builds it,
runs the suite and then runs the checks with ORC_REPO=<worktree>.  Any report other than PASS is a false alarm of the
machinery (or an exit-2 brittleness) and has to be fixed in the rule.

The transformation is textual but scoped by facts from the extractor: function extents (first/last line) and the
set of names declared as parameters or block-scope variables in that function.  Identifiers preceded by `.` or `->`
(member names) are left alone.  Names that also occur inside a macro body used by the function are skipped (a macro
may refer to a local by name)."""
import json
import os
import re
import subprocess
import sys
import tempfile

VERIF = os.path.dirname(os.path.dirname(os.path.abspath(__file__)))
sys.path.insert(0, os.path.join(VERIF, "lib"))


def facts_for(worktree):
    os.environ["ORC_REPO"] = worktree
    import importlib
    import facts as F
    importlib.reload(F)
    import driver as D
    importlib.reload(D)
    D.build_orcsa()
    scratch = tempfile.mkdtemp(prefix="orceqm.", dir="/var/tmp")
    bdir = os.path.join(scratch, "b")
    p = subprocess.run(["meson", "setup", bdir, worktree], stdout=subprocess.PIPE, stderr=subprocess.STDOUT, text=True)
    if p.returncode != 0:
        sys.exit("meson setup failed: " + p.stdout[-2000:])
    ctx = D.Ctx("EQ", "quick", scratch, bdir, os.path.join(scratch, "facts"))
    return ctx.db(), scratch


def macro_words(db):
    words = set()
    for t in db.tus.values():
        for name, body in t.macros.items():
            txt = body if isinstance(body, str) else json.dumps(body)
            words.update(re.findall(r"[A-Za-z_][A-Za-z0-9_]*", txt))
    return words


KEEP = {"main", "argc", "argv"}


def rename(db, worktree, files):
    mw = macro_words(db)
    total = 0
    for rel in files:
        path = os.path.join(worktree, rel)
        lines = open(path).read().split("\n")
        funcs = [f for f in db.all_functions() if f.relfile == rel]
        for f in sorted(funcs, key=lambda g: -g.line):
            end = f.d.get("le") if hasattr(f, "d") else None
            if end is None:
                continue
            names = {p["name"] for p in f.params if p.get("name")}
            for n in f.walk():
                if n.k == "VarDecl" and n.name and not n.get("static") and n.get("dk") != "global":
                    names.add(n.name)
            names = {n for n in names if n not in KEEP and n not in mw and not n.endswith("_q")}
            if not names:
                continue
            # the declarator of the function may start a few lines above f.line (return type on its own line)
            lo = f.line - 1
            hi = end
            pat = re.compile(r"(?<![\w.>])(%s)\b" % "|".join(sorted(map(re.escape, names), key=len, reverse=True)))
            # `->name` / `.name` are members; allow `> name` comparisons by requiring no '-' before '>'
            in_comment = False
            for i in range(lo, min(hi, len(lines))):
                # split the line into code / literal / comment segments; only code is rewritten
                line = lines[i]
                out, j, code = [], 0, []
                def flush():
                    seg = "".join(code)
                    code.clear()
                    if not seg:
                        return
                    def sub(m, seg=seg):
                        st = m.start()
                        if st >= 2 and seg[st - 2:st] == "->":
                            return m.group(0)
                        return m.group(1) + "_q"
                    seg2 = pat.sub(sub, seg)
                    seg2 = re.sub(r"(?<!-)>(%s)\b" % "|".join(map(re.escape, names)), lambda m: ">" + m.group(1) + "_q", seg2)
                    out.append(seg2)
                while j < len(line):
                    if in_comment:
                        e = line.find("*/", j)
                        if e < 0:
                            out.append(line[j:])
                            j = len(line)
                        else:
                            out.append(line[j:e + 2])
                            j = e + 2
                            in_comment = False
                        continue
                    ch = line[j]
                    if line.startswith("/*", j):
                        flush()
                        in_comment = True
                        out.append("/*")
                        j += 2
                    elif line.startswith("//", j):
                        flush()
                        out.append(line[j:])
                        j = len(line)
                    elif ch in "\"'":
                        flush()
                        k = j + 1
                        while k < len(line) and line[k] != ch:
                            k += 2 if line[k] == "\\" else 1
                        out.append(line[j:k + 1])
                        j = k + 1
                    else:
                        code.append(ch)
                        j += 1
                flush()
                new = "".join(out)
                if new != lines[i]:
                    total += 1
                    lines[i] = new
        open(path, "w").write("\n".join(lines))
    return total


def nulltest(db, worktree, files):
    total = 0
    for rel in files:
        path = os.path.join(worktree, rel)
        s = open(path).read()
        # if (!ident)  ->  if (ident == NULL)   only for identifiers the facts know as pointer-typed locals/params
        ptrs = set()
        for f in db.all_functions():
            if f.relfile != rel:
                continue
            for p in f.params:
                if "*" in p.get("ty", ""):
                    ptrs.add(p["name"])
            for n in f.walk():
                if n.k == "VarDecl" and "*" in (n.get("ty") or ""):
                    ptrs.add(n.name)
        if not ptrs:
            continue
        pat = re.compile(r"if \(!(%s)\)" % "|".join(map(re.escape, sorted(ptrs))))
        s2, k = pat.subn(lambda m: "if (%s == NULL)" % m.group(1), s)
        pat2 = re.compile(r"if \((%s) == NULL\)" % "|".join(map(re.escape, sorted(ptrs))))
        # the ones that were already `== NULL` become `!p`
        orig_eq = [m.start() for m in pat2.finditer(s)]
        if orig_eq:
            out = []
            last = 0
            for m in pat2.finditer(s):
                out.append(s[last:m.start()])
                out.append("if (!%s)" % m.group(1))
                last = m.end()
            out.append(s[last:])
            s_eq = "".join(out)
            s2, k2 = pat.subn(lambda m: "if (%s == NULL)" % m.group(1), s_eq) if False else (s2, 0)
        total += k
        open(path, "w").write(s2)
    return total


PATH = r"[A-Za-z_]\w*(?:(?:->|\.)\w+|\[\w+\])*"
TERM = r"(?:" + PATH + r"|\d+)"
FLIP = {"<": ">", ">": "<", "<=": ">=", ">=": "<="}


def condforms(db, worktree, files):
    """rewrite simple conditions into an equivalent spelling:
         if (!P) -> if (P == 0)      if (P) -> if (P != 0)      if (P == NULL) -> if (!P)      if (P != NULL) -> if (P)
         if (A < B) -> if (B > A)    (also <=, >, >=; while-conditions likewise)"""
    total = 0
    for rel in files:
        path = os.path.join(worktree, rel)
        s = open(path).read()
        orig = s
        kw = r"(?P<kw>\b(?:if|while) \()"
        # order matters: handle the NULL forms first and mark results so they are not rewritten back
        s = re.sub(kw + r"(?P<p>" + PATH + r") == NULL\)", lambda m: m.group("kw") + "!\x01" + m.group("p") + ")", s)
        s = re.sub(kw + r"(?P<p>" + PATH + r") != NULL\)", lambda m: m.group("kw") + "\x01" + m.group("p") + ")", s)
        s = re.sub(kw + r"!(?P<p>" + PATH + r")\)", lambda m: m.group("kw") + m.group("p") + " == 0)", s)
        s = re.sub(kw + r"(?P<p>" + PATH + r")\)", lambda m: m.group("kw") + m.group("p") + " != 0)", s)
        s = re.sub(kw + r"(?P<a>" + TERM + r") (?P<op><=|>=|<|>) (?P<b>" + TERM + r")\)",
                   lambda m: "%s%s %s %s)" % (m.group("kw"), m.group("b"), FLIP[m.group("op")], m.group("a")), s)
        s = s.replace("\x01", "")
        if s != orig:
            total += sum(1 for a, b in zip(orig.split("\n"), s.split("\n")) if a != b)
            open(path, "w").write(s)
    return total


def incforms(db, worktree, files):
    """for-loop increments and simple statements: i++ -> i += 1, i-- -> i -= 1 (statement / for-increment position only)."""
    total = 0
    for rel in files:
        path = os.path.join(worktree, rel)
        s = open(path).read()
        orig = s
        s = re.sub(r"; (\w+)\+\+\)", r"; \1 += 1)", s)
        s = re.sub(r"; (\w+)--\)", r"; \1 -= 1)", s)
        s = re.sub(r"(?m)^(\s+)(" + PATH + r")\+\+;$", r"\1\2 += 1;", s)
        s = re.sub(r"(?m)^(\s+)(" + PATH + r")--;$", r"\1\2 -= 1;", s)
        if s != orig:
            total += sum(1 for a, b in zip(orig.split("\n"), s.split("\n")) if a != b)
            open(path, "w").write(s)
    return total


def declsplit(db, worktree, files):
    """`T x = e;` at the top of a function body becomes `T x;` ... `x = e;` placed after the declaration block."""
    total = 0
    for rel in files:
        path = os.path.join(worktree, rel)
        lines = open(path).read().split("\n")
        funcs = sorted([f for f in db.all_functions() if f.relfile == rel], key=lambda g: -g.line)
        for f in funcs:
            end = f.d.get("le")
            if end is None:
                continue
            # find the opening brace line of the body
            i = f.line - 1
            while i < end and not lines[i].rstrip().endswith("{") and lines[i].strip() != "{":
                i += 1
            i += 1
            decl = re.compile(r"^(\s+)((?:const |unsigned |struct )?[A-Za-z_]\w*(?: \*+| ))(\w+) = ([^;{]+);$")
            anydecl = re.compile(r"^\s+(?:const |unsigned |static |struct )?[A-Za-z_]\w*(?: \*+| )[\w\[\], *]+(?: = [^;{]+)?;$")
            j = i
            moved = []
            while j < end and (anydecl.match(lines[j]) or lines[j].strip() == ""):
                m = decl.match(lines[j])
                if m and "static" not in lines[j] and "const" not in m.group(2) and "[" not in m.group(3):
                    ind, ty, name, init = m.groups()
                    # initialisers may refer to earlier locals only; keep order
                    lines[j] = "%s%s%s;" % (ind, ty, name)
                    moved.append("%s%s = %s;" % (ind, name, init))
                j += 1
            if moved:
                # insert after the declaration block (before the first statement)
                k = j
                while k > i and lines[k - 1].strip() == "":
                    k -= 1
                lines[k:k] = moved
                total += len(moved)
        open(path, "w").write("\n".join(lines))
    return total


def _mask(s):
    """same-length copy of s with string/char literals and comments blanked (so brace matching is not confused)."""
    out = list(s)
    i, n = 0, len(s)
    while i < n:
        if s.startswith("/*", i):
            e = s.find("*/", i + 2)
            e = n if e < 0 else e + 2
            for k in range(i, e):
                if out[k] != "\n":
                    out[k] = " "
            i = e
        elif s.startswith("//", i):
            e = s.find("\n", i)
            e = n if e < 0 else e
            for k in range(i, e):
                out[k] = " "
            i = e
        elif s[i] in "\"'":
            q = s[i]
            k = i + 1
            while k < n and s[k] != q:
                k += 2 if s[k] == "\\" else 1
            for j in range(i + 1, min(k, n)):
                if out[j] != "\n":
                    out[j] = " "
            i = k + 1
        else:
            i += 1
    return "".join(out)


def _match(m, i, open_, close_):
    d = 0
    while i < len(m):
        if m[i] == open_:
            d += 1
        elif m[i] == close_:
            d -= 1
            if d == 0:
                return i
        i += 1
    return -1


def ifswap(db, worktree, files):
    """if (c) { A } else { B }   ->   if (!(c)) { B } else { A }      (both branches must be braced blocks)"""
    total = 0
    for rel in files:
        path = os.path.join(worktree, rel)
        s = open(path).read()
        m = _mask(s)
        starts = [x.start() for x in re.finditer(r"\bif \(", m)]
        for st in reversed(starts):
            m = _mask(s)
            po = m.index("(", st)
            pc = _match(m, po, "(", ")")
            if pc < 0:
                continue
            j = pc + 1
            while j < len(m) and m[j] in " \t\n":
                j += 1
            if j >= len(m) or m[j] != "{":
                continue
            tc = _match(m, j, "{", "}")
            if tc < 0:
                continue
            k = tc + 1
            while k < len(m) and m[k] in " \t\n":
                k += 1
            if not m.startswith("else", k):
                continue
            e = k + 4
            while e < len(m) and m[e] in " \t\n":
                e += 1
            if e >= len(m) or m[e] != "{":
                continue        # else if ...
            ec = _match(m, e, "{", "}")
            if ec < 0:
                continue
            # an `else if` chain ABOVE us: if this `if` is itself preceded by `else`, swapping is still fine
            cond, A, B = s[po + 1:pc], s[j:tc + 1], s[e:ec + 1]
            if "#" in s[st:ec]:
                continue        # preprocessor lines inside: leave alone
            s = s[:po + 1] + "!(" + cond + ")" + s[pc:j] + B + s[tc + 1:e] + A + s[ec + 1:]
            total += 1
        open(path, "w").write(s)
    return total


def main():
    mode, worktree = sys.argv[1], os.path.abspath(sys.argv[2])
    files = sys.argv[3:]
    db, scratch = facts_for(worktree)
    try:
        if not files:
            files = sorted({f.relfile for f in db.all_functions() if f.relfile.startswith("orc/") and f.relfile.endswith(".c")} | {"tools/orcc.c"})
        n = {"rename": rename, "nulltest": nulltest, "condforms": condforms, "incforms": incforms, "declsplit": declsplit, "ifswap": ifswap}[mode](db, worktree, files)
        print("%s: %d lines changed in %d files" % (mode, n, len(files)))
    finally:
        import shutil
        shutil.rmtree(scratch, ignore_errors=True)


if __name__ == "__main__":
    main()
