#!/bin/sh
# Confirm a sub-agent's seeded change in its own scratch worktree, then file it under /verif/seeded/<ID>/.
# usage: tools/confirm_seed.sh <ID> [<worktree>]     (worktree default /var/tmp/seed/<ID>)
# Steps: patch applies to a clean checkout, tree builds, suite passes WITH the change, demo fails WITH and passes WITHOUT.
ID=$1; W=${2:-/var/tmp/seed/$ID}; S=$W/_seed
set -u
[ -f "$S/patch.diff" ] || { echo "no patch.diff"; exit 2; }
cd "$W" || exit 2
git checkout -q -- . ; git apply --check "$S/patch.diff" || { echo "patch does not apply to clean HEAD"; exit 2; }
# without
ninja -C _b >/dev/null 2>&1 || { echo "clean build failed"; exit 2; }
sh "$S/demo/run.sh" > "$S/demo.without.log" 2>&1; r0=$?
# with
git apply "$S/patch.diff"
ninja -C _b > "$S/build.with.log" 2>&1 || { echo "build with change failed"; exit 2; }
sh "$S/demo/run.sh" > "$S/demo.with.log" 2>&1; r1=$?
meson test -C _b > "$S/suite.with.log" 2>&1; rs=$?
ok=$(grep -E '^Ok:' "$S/suite.with.log" | awk '{print $2}')
printf '{"demo_rc_without_change": %s, "demo_rc_with_change": %s, "suite_rc_with_change": %s, "suite_ok_with_change": %s}\n' "$r0" "$r1" "$rs" "${ok:-0}" > "$S/confirm.json"
echo "ID=$ID demo_without_rc=$r0 demo_with_rc=$r1 suite_rc=$rs suite_ok=$ok"
