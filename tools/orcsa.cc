// orcsa — generic fact extractor over the type-checked clang AST + CFG.
//
// Knows nothing about Orc's properties: it serialises, for ONE translation
// unit, everything the python rule engines need:
//   * every function body of the main file as a compact expression/statement
//     tree (resolved callees, evaluated integer constants, member/record names,
//     declared array bounds, macro provenance, string literals),
//   * the clang::CFG of each body (all sub-expressions added, in evaluation
//     order) as lists of tree-node ids with labelled successor edges,
//   * file-scope and function-static variable initialisers flattened to
//     constants / strings / function names,
//   * all enumerators, record layouts (field offsets, array bounds) and
//     object-like macro bodies defined outside system headers.
//
// usage: orcsa -p <builddir> <source> -o <out.json>    (one TU per process)
#include "clang/AST/ASTConsumer.h"
#include "clang/AST/ASTContext.h"
#include "clang/AST/Expr.h"
#include "clang/AST/RecordLayout.h"
#include "clang/AST/RecursiveASTVisitor.h"
#include "clang/Analysis/CFG.h"
#include "clang/Frontend/CompilerInstance.h"
#include "clang/Frontend/FrontendAction.h"
#include "clang/Lex/Lexer.h"
#include "clang/Lex/MacroInfo.h"
#include "clang/Lex/PPCallbacks.h"
#include "clang/Lex/Preprocessor.h"
#include "clang/Tooling/CommonOptionsParser.h"
#include "clang/Tooling/Tooling.h"
#include "llvm/Support/CommandLine.h"
#include "llvm/Support/JSON.h"
#include "llvm/Support/raw_ostream.h"
#include <map>
#include <set>
#include <string>
#include <vector>

using namespace clang;
using namespace clang::tooling;
namespace json = llvm::json;

static llvm::cl::OptionCategory Cat("orcsa options");
static llvm::cl::opt<std::string> OutPath("o", llvm::cl::desc("output json"),
                                          llvm::cl::Required,
                                          llvm::cl::cat(Cat));

namespace {

struct MacroDef {
  std::string name, body;
  bool functionLike;
  std::string file;
  unsigned line;
};

struct Shared {
  std::vector<MacroDef> macros;
};

class PPCB : public PPCallbacks {
public:
  PPCB(Preprocessor &PP, Shared &S) : PP(PP), S(S) {}
  void MacroDefined(const Token &Tok, const MacroDirective *MD) override {
    SourceManager &SM = PP.getSourceManager();
    SourceLocation L = MD->getLocation();
    if (L.isInvalid() || SM.isInSystemHeader(L) || SM.isWrittenInBuiltinFile(L) ||
        SM.isWrittenInCommandLineFile(L))
      return;
    const MacroInfo *MI = MD->getMacroInfo();
    if (!MI)
      return;
    MacroDef D;
    D.name = Tok.getIdentifierInfo()->getName().str();
    D.functionLike = MI->isFunctionLike();
    std::string body;
    if (D.functionLike) {
      body += "(";
      bool first = true;
      for (const IdentifierInfo *P : MI->params()) {
        if (!first)
          body += ",";
        first = false;
        body += P->getName().str();
      }
      body += ") ";
    }
    for (const Token &T : MI->tokens()) {
      if (T.hasLeadingSpace() && !body.empty())
        body += " ";
      body += PP.getSpelling(T);
    }
    D.body = body;
    PresumedLoc PL = SM.getPresumedLoc(L);
    D.file = PL.isValid() ? PL.getFilename() : "";
    D.line = PL.isValid() ? PL.getLine() : 0;
    S.macros.push_back(D);
  }

private:
  Preprocessor &PP;
  Shared &S;
};

class Emitter {
public:
  Emitter(ASTContext &Ctx, json::OStream &J) : Ctx(Ctx), SM(Ctx.getSourceManager()), J(J) {}

  ASTContext &Ctx;
  SourceManager &SM;
  json::OStream &J;
  unsigned nextId = 0;
  std::map<const Stmt *, unsigned> ids;

  bool inMain(SourceLocation L) {
    if (L.isInvalid())
      return false;
    return SM.isInMainFile(SM.getExpansionLoc(L));
  }
  bool inRepo(SourceLocation L) {
    if (L.isInvalid())
      return false;
    SourceLocation E = SM.getExpansionLoc(L);
    return !SM.isInSystemHeader(E) && !SM.isWrittenInBuiltinFile(E);
  }
  unsigned lineOf(SourceLocation L) {
    if (L.isInvalid())
      return 0;
    return SM.getExpansionLineNumber(L);
  }
  std::string fileOf(SourceLocation L) {
    if (L.isInvalid())
      return "";
    PresumedLoc PL = SM.getPresumedLoc(SM.getExpansionLoc(L));
    return PL.isValid() ? std::string(PL.getFilename()) : std::string();
  }

  std::vector<std::string> macroStack(SourceLocation L) {
    std::vector<std::string> out;
    int guard = 0;
    while (L.isValid() && L.isMacroID() && guard++ < 32) {
      StringRef N = Lexer::getImmediateMacroName(L, SM, Ctx.getLangOpts());
      if (!N.empty() && (out.empty() || out.back() != N.str()))
        out.push_back(N.str());
      L = SM.getImmediateMacroCallerLoc(L);
    }
    return out;
  }

  static std::string recName(const RecordDecl *RD) {
    if (!RD)
      return "";
    if (RD->getIdentifier())
      return RD->getName().str();
    if (const TypedefNameDecl *T = RD->getTypedefNameForAnonDecl())
      return T->getName().str();
    return "<anon>";
  }

  std::string typeStr(QualType T) { return T.getAsString(Ctx.getPrintingPolicy()); }

  static const Expr *strip(const Expr *E) {
    while (E) {
      if (auto *P = dyn_cast<ParenExpr>(E))
        E = P->getSubExpr();
      else if (auto *I = dyn_cast<ImplicitCastExpr>(E))
        E = I->getSubExpr();
      else if (auto *C = dyn_cast<ConstantExpr>(E))
        E = C->getSubExpr();
      else
        break;
    }
    return E;
  }

  void declKind(const ValueDecl *D) {
    if (isa<FunctionDecl>(D))
      J.attribute("dk", "func");
    else if (isa<EnumConstantDecl>(D))
      J.attribute("dk", "enum");
    else if (isa<ParmVarDecl>(D))
      J.attribute("dk", "param");
    else if (auto *V = dyn_cast<VarDecl>(D)) {
      if (V->isStaticLocal())
        J.attribute("dk", "static_local");
      else if (V->isLocalVarDecl())
        J.attribute("dk", "local");
      else
        J.attribute("dk", "global");
    } else
      J.attribute("dk", "other");
  }

  void emitStmt(const Stmt *S) {
    if (!S) {
      J.value(nullptr);
      return;
    }
    // transparent wrappers: share the id of the wrapped node
    if (auto *E = dyn_cast<Expr>(S)) {
      const Expr *In = nullptr;
      if (auto *P = dyn_cast<ParenExpr>(E))
        In = P->getSubExpr();
      else if (auto *I = dyn_cast<ImplicitCastExpr>(E))
        In = I->getSubExpr();
      else if (auto *C = dyn_cast<ConstantExpr>(E))
        In = C->getSubExpr();
      if (In) {
        emitStmt(In);
        auto it = ids.find(In);
        if (it != ids.end())
          ids[S] = it->second;
        return;
      }
    }
    unsigned id = nextId++;
    ids[S] = id;
    J.object([&] {
      J.attribute("id", (int64_t)id);
      J.attribute("k", S->getStmtClassName());
      J.attribute("l", (int64_t)lineOf(S->getBeginLoc()));
      auto ms = macroStack(S->getBeginLoc());
      if (!ms.empty()) {
        J.attributeArray("mac", [&] {
          for (auto &m : ms)
            J.value(m);
        });
      }
      if (auto *E = dyn_cast<Expr>(S)) {
        J.attribute("ty", typeStr(E->getType()));
        if (!E->isValueDependent() && E->getType()->isIntegralOrEnumerationType() &&
            !isa<InitListExpr>(E)) {
          Expr::EvalResult R;
          if (E->EvaluateAsInt(R, Ctx, Expr::SE_NoSideEffects)) {
            llvm::APSInt V = R.Val.getInt();
            if (V.isSigned() || V.getActiveBits() <= 63)
              J.attribute("v", (int64_t)V.getExtValue());
            else
              J.attribute("vu", std::to_string(V.getZExtValue()));
          }
        }
      }
      if (auto *DRE = dyn_cast<DeclRefExpr>(S)) {
        J.attribute("name", DRE->getDecl()->getNameAsString());
        declKind(DRE->getDecl());
        if (auto *VD = dyn_cast<VarDecl>(DRE->getDecl()))
          if (auto *CAT = Ctx.getAsConstantArrayType(VD->getType()))
            J.attribute("alen", (int64_t)CAT->getSize().getZExtValue());
      } else if (auto *ME = dyn_cast<MemberExpr>(S)) {
        J.attribute("name", ME->getMemberDecl()->getNameAsString());
        J.attribute("arrow", ME->isArrow());
        if (auto *FD = dyn_cast<FieldDecl>(ME->getMemberDecl())) {
          J.attribute("rec", recName(FD->getParent()));
          if (auto *CAT = Ctx.getAsConstantArrayType(FD->getType()))
            J.attribute("alen", (int64_t)CAT->getSize().getZExtValue());
        }
      } else if (auto *CE = dyn_cast<CallExpr>(S)) {
        if (const FunctionDecl *FD = CE->getDirectCallee()) {
          J.attribute("name", FD->getNameAsString());
          if (FD->isNoReturn())
            J.attribute("noreturn", true);
        }
      } else if (auto *BO = dyn_cast<BinaryOperator>(S)) {
        J.attribute("op", BO->getOpcodeStr());
      } else if (auto *UO = dyn_cast<UnaryOperator>(S)) {
        J.attribute("op", UnaryOperator::getOpcodeStr(UO->getOpcode()));
        J.attribute("postfix", UO->isPostfix());
      } else if (auto *SL = dyn_cast<StringLiteral>(S)) {
        if (SL->getCharByteWidth() == 1)
          J.attribute("str", SL->getString());
      } else if (auto *FL = dyn_cast<FloatingLiteral>(S)) {
        J.attribute("fv", FL->getValueAsApproximateDouble());
      } else if (auto *CL = dyn_cast<CharacterLiteral>(S)) {
        J.attribute("v", (int64_t)CL->getValue());
      } else if (auto *CS = dyn_cast<CStyleCastExpr>(S)) {
        J.attribute("toty", typeStr(CS->getTypeAsWritten()));
      } else if (auto *UE = dyn_cast<UnaryExprOrTypeTraitExpr>(S)) {
        J.attribute("trait", (int64_t)UE->getKind());
        if (UE->isArgumentType())
          J.attribute("argty", typeStr(UE->getArgumentType()));
      } else if (auto *LS = dyn_cast<LabelStmt>(S)) {
        J.attribute("name", LS->getDecl()->getNameAsString());
      } else if (auto *GS = dyn_cast<GotoStmt>(S)) {
        J.attribute("name", GS->getLabel()->getNameAsString());
      } else if (auto *OE = dyn_cast<OffsetOfExpr>(S)) {
        J.attribute("argty", typeStr(OE->getTypeSourceInfo()->getType()));
        std::string path;
        for (unsigned i = 0; i < OE->getNumComponents(); ++i) {
          const OffsetOfNode &ON = OE->getComponent(i);
          if (ON.getKind() == OffsetOfNode::Field) {
            if (!path.empty())
              path += ".";
            path += ON.getField()->getName().str();
          } else if (ON.getKind() == OffsetOfNode::Array) {
            path += "[]";
          } else {
            path += "?";
          }
        }
        J.attribute("opath", path);
      } else if (auto *AS = dyn_cast<GCCAsmStmt>(S)) {
        J.attribute("str", AS->getAsmString()->getString());
      } else if (auto *AE = dyn_cast<AtomicExpr>(S)) {
        const char *k = "other";
        switch (AE->getOp()) {
        case AtomicExpr::AO__c11_atomic_load:
        case AtomicExpr::AO__atomic_load_n:
        case AtomicExpr::AO__atomic_load:
          k = "load";
          break;
        case AtomicExpr::AO__c11_atomic_store:
        case AtomicExpr::AO__atomic_store_n:
        case AtomicExpr::AO__atomic_store:
          k = "store";
          break;
        case AtomicExpr::AO__c11_atomic_init:
          k = "init";
          break;
        default:
          break;
        }
        J.attribute("aop", k);
        Expr::EvalResult R;
        if (AE->getOrder() && AE->getOrder()->EvaluateAsInt(R, Ctx))
          J.attribute("order", (int64_t)R.Val.getInt().getExtValue());
        J.attribute("ptr", (int64_t)0);
      }
      if (auto *ASE = dyn_cast<ArraySubscriptExpr>(S)) {
        const Expr *B = strip(ASE->getBase());
        if (B)
          if (auto *CAT = Ctx.getAsConstantArrayType(B->getType()))
            J.attribute("alen", (int64_t)CAT->getSize().getZExtValue());
      }
      if (auto *CS = dyn_cast<CaseStmt>(S)) {
        Expr::EvalResult R;
        if (CS->getLHS() && CS->getLHS()->EvaluateAsInt(R, Ctx))
          J.attribute("lo", (int64_t)R.Val.getInt().getExtValue());
        if (CS->getRHS() && CS->getRHS()->EvaluateAsInt(R, Ctx))
          J.attribute("hi", (int64_t)R.Val.getInt().getExtValue());
      }
      // children
      if (auto *DS = dyn_cast<DeclStmt>(S)) {
        J.attributeArray("c", [&] {
          for (const Decl *D : DS->decls()) {
            if (auto *VD = dyn_cast<VarDecl>(D)) {
              J.object([&] {
                J.attribute("id", (int64_t)nextId++);
                J.attribute("k", "VarDecl");
                J.attribute("l", (int64_t)lineOf(VD->getLocation()));
                J.attribute("name", VD->getNameAsString());
                J.attribute("ty", typeStr(VD->getType()));
                if (VD->isStaticLocal())
                  J.attribute("static", true);
                if (auto *CAT = Ctx.getAsConstantArrayType(VD->getType()))
                  J.attribute("alen", (int64_t)CAT->getSize().getZExtValue());
                J.attributeArray("c", [&] {
                  if (VD->hasInit() && !VD->isStaticLocal())
                    emitStmt(VD->getInit());
                });
              });
            }
          }
        });
      } else if (auto *CS2 = dyn_cast<CaseStmt>(S)) {
        J.attributeArray("c", [&] { emitStmt(CS2->getSubStmt()); });
      } else if (auto *IS = dyn_cast<IfStmt>(S)) {
        J.attributeArray("c", [&] {
          emitStmt(IS->getCond());
          emitStmt(IS->getThen());
          emitStmt(IS->getElse());
        });
      } else if (auto *FS = dyn_cast<ForStmt>(S)) {
        J.attributeArray("c", [&] {
          emitStmt(FS->getInit());
          emitStmt(FS->getCond());
          emitStmt(FS->getInc());
          emitStmt(FS->getBody());
        });
      } else if (auto *WS = dyn_cast<WhileStmt>(S)) {
        J.attributeArray("c", [&] {
          emitStmt(WS->getCond());
          emitStmt(WS->getBody());
        });
      } else if (auto *DoS = dyn_cast<DoStmt>(S)) {
        J.attributeArray("c", [&] {
          emitStmt(DoS->getBody());
          emitStmt(DoS->getCond());
        });
      } else if (auto *SS = dyn_cast<SwitchStmt>(S)) {
        J.attributeArray("c", [&] {
          emitStmt(SS->getCond());
          emitStmt(SS->getBody());
        });
      } else if (auto *CE2 = dyn_cast<CallExpr>(S)) {
        J.attributeArray("c", [&] {
          emitStmt(CE2->getCallee());
          for (const Expr *A : CE2->arguments())
            emitStmt(A);
        });
      } else if (auto *ILE = dyn_cast<InitListExpr>(S)) {
        const InitListExpr *Sem = ILE->isSemanticForm() ? ILE : ILE->getSemanticForm();
        if (!Sem)
          Sem = ILE;
        J.attributeArray("c", [&] {
          for (const Expr *I : Sem->inits())
            emitStmt(I);
        });
      } else {
        J.attributeArray("c", [&] {
          for (const Stmt *C : S->children())
            emitStmt(C);
        });
      }
    });
  }

  // ---- constant initialisers ------------------------------------------
  void emitInit(const Expr *E, QualType T) {
    if (!E) {
      J.value(nullptr);
      return;
    }
    const Expr *S = strip(E);
    if (auto *ILE = dyn_cast<InitListExpr>(S)) {
      const InitListExpr *Sem = ILE->isSemanticForm() ? ILE : ILE->getSemanticForm();
      if (!Sem)
        Sem = ILE;
      QualType LT = Sem->getType();
      if (const RecordType *RT = LT->getAs<RecordType>()) {
        const RecordDecl *RD = RT->getDecl();
        J.object([&] {
          J.attribute("rec", recName(RD));
          J.attribute("l", (int64_t)lineOf(ILE->getBeginLoc()));
          J.attributeObject("f", [&] {
            unsigned i = 0;
            if (RD->isUnion()) {
              if (const FieldDecl *FD = Sem->getInitializedFieldInUnion()) {
                J.attributeBegin(FD->getName());
                if (Sem->getNumInits() > 0)
                  emitInit(Sem->getInit(0), FD->getType());
                else
                  J.value(nullptr);
                J.attributeEnd();
              }
            } else {
              for (const FieldDecl *FD : RD->fields()) {
                if (FD->isUnnamedBitfield())
                  continue;
                if (i >= Sem->getNumInits())
                  break;
                J.attributeBegin(FD->getName());
                emitInit(Sem->getInit(i), FD->getType());
                J.attributeEnd();
                ++i;
              }
            }
          });
        });
        return;
      }
      J.object([&] {
        J.attribute("l", (int64_t)lineOf(ILE->getBeginLoc()));
        if (auto *CAT = Ctx.getAsConstantArrayType(LT))
          J.attribute("alen", (int64_t)CAT->getSize().getZExtValue());
        if (Sem->hasArrayFiller())
          J.attribute("filler", true);
        QualType ET;
        if (const ArrayType *AT = Ctx.getAsArrayType(LT))
          ET = AT->getElementType();
        J.attributeArray("list", [&] {
          for (const Expr *I : Sem->inits())
            emitInit(I, ET);
        });
      });
      return;
    }
    if (isa<ImplicitValueInitExpr>(S)) {
      J.object([&] { J.attribute("zero", true); });
      return;
    }
    if (auto *SL = dyn_cast<StringLiteral>(S)) {
      J.object([&] {
        if (SL->getCharByteWidth() == 1)
          J.attribute("s", SL->getString());
        else
          J.attribute("x", "wide-string");
      });
      return;
    }
    if (!S->isValueDependent() && S->getType()->isIntegralOrEnumerationType()) {
      Expr::EvalResult R;
      if (S->EvaluateAsInt(R, Ctx, Expr::SE_NoSideEffects)) {
        J.object([&] {
          llvm::APSInt V = R.Val.getInt();
          if (V.isSigned() || V.getActiveBits() <= 63)
            J.attribute("i", (int64_t)V.getExtValue());
          else
            J.attribute("iu", std::to_string(V.getZExtValue()));
          // keep enumerator / macro spelling when the initialiser is a bare name
          if (auto *DRE = dyn_cast<DeclRefExpr>(S))
            J.attribute("n", DRE->getDecl()->getNameAsString());
          auto ms = macroStack(S->getBeginLoc());
          if (!ms.empty())
            J.attribute("m", ms.front());
        });
        return;
      }
    }
    // pointer-ish: function name, &global, global array, NULL
    {
      const Expr *P = S;
      // peel casts
      while (true) {
        if (auto *C = dyn_cast<CastExpr>(P))
          P = strip(C->getSubExpr());
        else
          break;
      }
      if (auto *UO = dyn_cast<UnaryOperator>(P))
        if (UO->getOpcode() == UO_AddrOf)
          P = strip(UO->getSubExpr());
      if (auto *DRE = dyn_cast<DeclRefExpr>(P)) {
        J.object([&] {
          if (isa<FunctionDecl>(DRE->getDecl()))
            J.attribute("fn", DRE->getDecl()->getNameAsString());
          else
            J.attribute("ref", DRE->getDecl()->getNameAsString());
        });
        return;
      }
      Expr::EvalResult R;
      if (P->getType()->isIntegralOrEnumerationType() && P->EvaluateAsInt(R, Ctx)) {
        J.object([&] { J.attribute("i", (int64_t)R.Val.getInt().getExtValue()); });
        return;
      }
      if (auto *FL = dyn_cast<FloatingLiteral>(P)) {
        J.object([&] { J.attribute("d", FL->getValueAsApproximateDouble()); });
        return;
      }
    }
    J.object([&] {
      J.attribute("x", S->getStmtClassName());
      J.attribute("l", (int64_t)lineOf(S->getBeginLoc()));
    });
  }

  void emitGlobal(const VarDecl *VD, const std::string &owner) {
    J.object([&] {
      J.attribute("name", VD->getNameAsString());
      if (!owner.empty())
        J.attribute("in", owner);
      J.attribute("ty", typeStr(VD->getType()));
      J.attribute("file", fileOf(VD->getLocation()));
      J.attribute("l", (int64_t)lineOf(VD->getLocation()));
      J.attribute("static", VD->getStorageClass() == SC_Static);
      J.attribute("extern", VD->getStorageClass() == SC_Extern && !VD->hasInit());
      J.attribute("const", VD->getType().isConstQualified() ||
                               (Ctx.getAsArrayType(VD->getType()) &&
                                Ctx.getBaseElementType(VD->getType()).isConstQualified()));
      J.attribute("atomic", VD->getType()->isAtomicType());
      J.attribute("volatile", VD->getType().isVolatileQualified());
      if (auto *CAT = Ctx.getAsConstantArrayType(VD->getType()))
        J.attribute("alen", (int64_t)CAT->getSize().getZExtValue());
      J.attribute("def", VD->isThisDeclarationADefinition() != VarDecl::DeclarationOnly);
      if (VD->hasInit()) {
        J.attributeBegin("init");
        emitInit(VD->getInit(), VD->getType());
        J.attributeEnd();
      }
    });
  }

  // ---- CFG -------------------------------------------------------------
  void emitCFG(const FunctionDecl *FD) {
    CFG::BuildOptions BO;
    BO.setAllAlwaysAdd();
    BO.AddImplicitDtors = false;
    BO.AddEHEdges = false;
    std::unique_ptr<CFG> G = CFG::buildCFG(FD, FD->getBody(), &Ctx, BO);
    if (!G) {
      J.attribute("cfg", nullptr);
      return;
    }
    J.attributeObject("cfg", [&] {
      J.attribute("entry", (int64_t)G->getEntry().getBlockID());
      J.attribute("exit", (int64_t)G->getExit().getBlockID());
      J.attributeArray("blocks", [&] {
        for (const CFGBlock *B : *G) {
          J.object([&] {
            J.attribute("id", (int64_t)B->getBlockID());
            if (B->hasNoReturnElement())
              J.attribute("noreturn", true);
            if (const Stmt *L = B->getLabel()) {
              J.attributeObject("lab", [&] {
                if (auto *CS = dyn_cast<CaseStmt>(L)) {
                  J.attribute("k", "case");
                  Expr::EvalResult R;
                  if (CS->getLHS() && CS->getLHS()->EvaluateAsInt(R, Ctx))
                    J.attribute("lo", (int64_t)R.Val.getInt().getExtValue());
                  if (CS->getRHS() && CS->getRHS()->EvaluateAsInt(R, Ctx))
                    J.attribute("hi", (int64_t)R.Val.getInt().getExtValue());
                } else if (isa<DefaultStmt>(L)) {
                  J.attribute("k", "default");
                } else if (auto *LS = dyn_cast<LabelStmt>(L)) {
                  J.attribute("k", "label");
                  J.attribute("name", LS->getDecl()->getNameAsString());
                }
                auto it = ids.find(L);
                if (it != ids.end())
                  J.attribute("n", (int64_t)it->second);
              });
            }
            J.attributeArray("el", [&] {
              for (const CFGElement &E : *B) {
                if (auto CS = E.getAs<CFGStmt>()) {
                  auto it = ids.find(CS->getStmt());
                  if (it != ids.end())
                    J.value((int64_t)it->second);
                }
              }
            });
            if (const Stmt *T = B->getTerminatorStmt()) {
              auto it = ids.find(T);
              if (it != ids.end())
                J.attribute("t", (int64_t)it->second);
              J.attribute("tk", T->getStmtClassName());
              if (const Stmt *C = B->getTerminatorCondition()) {
                auto ic = ids.find(C);
                if (ic != ids.end())
                  J.attribute("tc", (int64_t)ic->second);
              }
            }
            J.attributeArray("s", [&] {
              for (auto SI = B->succ_begin(); SI != B->succ_end(); ++SI) {
                if (const CFGBlock *SB = SI->getReachableBlock())
                  J.value((int64_t)SB->getBlockID());
                else if (const CFGBlock *UB = SI->getPossiblyUnreachableBlock())
                  J.value(-(int64_t)UB->getBlockID() - 1); // statically dead edge
                else
                  J.value(nullptr);
              }
            });
          });
        }
      });
    });
  }

  void emitFunction(const FunctionDecl *FD) {
    J.object([&] {
      J.attribute("name", FD->getNameAsString());
      J.attribute("file", fileOf(FD->getLocation()));
      J.attribute("l", (int64_t)lineOf(FD->getBeginLoc()));
      J.attribute("le", (int64_t)lineOf(FD->getEndLoc()));
      J.attribute("static", FD->getStorageClass() == SC_Static);
      J.attribute("inline", FD->isInlineSpecified());
      J.attribute("ret", typeStr(FD->getReturnType()));
      J.attributeArray("params", [&] {
        for (const ParmVarDecl *P : FD->parameters()) {
          J.object([&] {
            J.attribute("name", P->getNameAsString());
            J.attribute("ty", typeStr(P->getType()));
          });
        }
      });
      ids.clear();
      J.attributeBegin("body");
      emitStmt(FD->getBody());
      J.attributeEnd();
      emitCFG(FD);
    });
  }
};

class StaticLocalFinder : public RecursiveASTVisitor<StaticLocalFinder> {
public:
  std::vector<const VarDecl *> found;
  bool VisitVarDecl(VarDecl *VD) {
    if (VD->isStaticLocal())
      found.push_back(VD);
    return true;
  }
};

class Consumer : public ASTConsumer {
public:
  Consumer(Shared &S, bool allFiles) : S(S), allFiles(allFiles) {}
  void HandleTranslationUnit(ASTContext &Ctx) override {
    std::error_code EC;
    llvm::raw_fd_ostream OS(OutPath, EC);
    if (EC) {
      llvm::errs() << "cannot open " << OutPath << "\n";
      exit(3);
    }
    json::OStream J(OS, 0);
    Emitter Em(Ctx, J);
    SourceManager &SM = Ctx.getSourceManager();
    TranslationUnitDecl *TU = Ctx.getTranslationUnitDecl();
    J.object([&] {
      const FileEntry *FE = SM.getFileEntryForID(SM.getMainFileID());
      J.attribute("main", FE ? FE->getName() : "");
      // enumerators (all, headers included)
      J.attributeObject("enums", [&] {
        std::set<std::string> seen;
        for (Decl *D : TU->decls()) {
          const EnumDecl *ED = dyn_cast<EnumDecl>(D);
          if (!ED)
            if (auto *TD = dyn_cast<TypedefDecl>(D))
              if (auto *ET = TD->getUnderlyingType()->getAs<EnumType>())
                ED = ET->getDecl();
          if (!ED || !Em.inRepo(ED->getLocation()))
            continue;
          for (const EnumConstantDecl *EC : ED->enumerators()) {
            if (!seen.insert(EC->getNameAsString()).second)
              continue;
            J.attribute(EC->getName(), (int64_t)EC->getInitVal().getExtValue());
          }
        }
      });
      J.attributeArray("enumdecls", [&] {
        std::set<const EnumDecl *> seen;
        for (Decl *D : TU->decls()) {
          const EnumDecl *ED = dyn_cast<EnumDecl>(D);
          if (!ED)
            if (auto *TD = dyn_cast<TypedefDecl>(D))
              if (auto *ET = TD->getUnderlyingType()->getAs<EnumType>())
                ED = ET->getDecl();
          if (!ED || !Em.inRepo(ED->getLocation()) || !ED->isCompleteDefinition())
            continue;
          if (!seen.insert(ED).second)
            continue;
          J.object([&] {
            std::string n = ED->getIdentifier() ? ED->getName().str() : "";
            if (n.empty())
              if (const TypedefNameDecl *T = ED->getTypedefNameForAnonDecl())
                n = T->getName().str();
            J.attribute("name", n);
            J.attribute("file", Em.fileOf(ED->getLocation()));
            J.attributeArray("items", [&] {
              for (const EnumConstantDecl *EC : ED->enumerators()) {
                J.array([&] {
                  J.value(EC->getName());
                  J.value((int64_t)EC->getInitVal().getExtValue());
                });
              }
            });
          });
        }
      });
      // records
      J.attributeObject("records", [&] {
        std::set<std::string> seen;
        std::vector<const RecordDecl *> work;
        for (Decl *D : TU->decls()) {
          if (auto *RD = dyn_cast<RecordDecl>(D))
            work.push_back(RD);
          else if (auto *TD = dyn_cast<TypedefDecl>(D))
            if (auto *RT = TD->getUnderlyingType()->getAs<RecordType>())
              work.push_back(RT->getDecl());
        }
        for (const RecordDecl *RD0 : work) {
          const RecordDecl *RD = RD0->getDefinition();
          if (!RD || !Em.inRepo(RD->getLocation()) || RD->isInvalidDecl())
            continue;
          std::string n = Emitter::recName(RD);
          if (n == "<anon>" || !seen.insert(n).second)
            continue;
          const ASTRecordLayout &L = Ctx.getASTRecordLayout(RD);
          J.attributeObject(n, [&] {
            J.attribute("size", (int64_t)L.getSize().getQuantity());
            J.attribute("union", RD->isUnion());
            J.attribute("file", Em.fileOf(RD->getLocation()));
            J.attributeArray("fields", [&] {
              unsigned i = 0;
              for (const FieldDecl *FD : RD->fields()) {
                J.object([&] {
                  J.attribute("name", FD->getNameAsString());
                  J.attribute("ty", Em.typeStr(FD->getType()));
                  J.attribute("off", (int64_t)(L.getFieldOffset(i) / 8));
                  if (!FD->getType()->isIncompleteType())
                    J.attribute("size", (int64_t)Ctx.getTypeSizeInChars(FD->getType()).getQuantity());
                  if (auto *CAT = Ctx.getAsConstantArrayType(FD->getType()))
                    J.attribute("alen", (int64_t)CAT->getSize().getZExtValue());
                  J.attribute("atomic", FD->getType()->isAtomicType());
                  J.attribute("volatile", FD->getType().isVolatileQualified());
                });
                ++i;
              }
            });
          });
        }
      });
      // macros
      J.attributeArray("macros", [&] {
        for (auto &M : S.macros) {
          J.object([&] {
            J.attribute("name", M.name);
            J.attribute("body", M.body);
            J.attribute("fn", M.functionLike);
            J.attribute("file", M.file);
            J.attribute("l", (int64_t)M.line);
          });
        }
      });
      // function declarations seen (prototypes incl. headers of the repo)
      J.attributeArray("protos", [&] {
        for (Decl *D : TU->decls()) {
          auto *FD = dyn_cast<FunctionDecl>(D);
          if (!FD || !Em.inRepo(FD->getLocation()))
            continue;
          J.object([&] {
            J.attribute("name", FD->getNameAsString());
            J.attribute("file", Em.fileOf(FD->getLocation()));
            J.attribute("l", (int64_t)Em.lineOf(FD->getLocation()));
            J.attribute("def", FD->doesThisDeclarationHaveABody());
            J.attribute("static", FD->getStorageClass() == SC_Static);
            J.attribute("ret", Em.typeStr(FD->getReturnType()));
            J.attributeArray("params", [&] {
              for (const ParmVarDecl *P : FD->parameters()) {
                J.object([&] {
                  J.attribute("name", P->getNameAsString());
                  J.attribute("ty", Em.typeStr(P->getType()));
                });
              }
            });
          });
        }
      });
      // globals (main file + extern decls in repo headers) and static locals
      J.attributeArray("globals", [&] {
        for (Decl *D : TU->decls()) {
          if (auto *VD = dyn_cast<VarDecl>(D)) {
            if (!Em.inRepo(VD->getLocation()))
              continue;
            if (!allFiles && !Em.inMain(VD->getLocation()) && VD->hasInit() &&
                false)
              continue;
            Em.emitGlobal(VD, "");
          } else if (auto *FD = dyn_cast<FunctionDecl>(D)) {
            if (!FD->doesThisDeclarationHaveABody() || !Em.inRepo(FD->getLocation()))
              continue;
            if (!allFiles && !Em.inMain(FD->getLocation()))
              continue;
            StaticLocalFinder F;
            F.TraverseStmt(FD->getBody());
            for (const VarDecl *VD : F.found)
              Em.emitGlobal(VD, FD->getNameAsString());
          }
        }
      });
      // functions
      J.attributeArray("functions", [&] {
        for (Decl *D : TU->decls()) {
          auto *FD = dyn_cast<FunctionDecl>(D);
          if (!FD || !FD->doesThisDeclarationHaveABody())
            continue;
          if (!Em.inRepo(FD->getLocation()))
            continue;
          if (!allFiles && !Em.inMain(FD->getLocation()))
            continue;
          Em.emitFunction(FD);
        }
      });
    });
    OS << "\n";
  }

private:
  Shared &S;
  bool allFiles;
};

class Action : public ASTFrontendAction {
public:
  std::unique_ptr<ASTConsumer> CreateASTConsumer(CompilerInstance &CI, StringRef) override {
    CI.getPreprocessor().addPPCallbacks(std::make_unique<PPCB>(CI.getPreprocessor(), S));
    // functions defined in repo headers (static inline helpers) are emitted too
    return std::make_unique<Consumer>(S, /*allFiles=*/true);
  }

private:
  Shared S;
};

} // namespace

int main(int argc, const char **argv) {
  auto Exp = CommonOptionsParser::create(argc, argv, Cat);
  if (!Exp) {
    llvm::errs() << llvm::toString(Exp.takeError());
    return 2;
  }
  ClangTool Tool(Exp->getCompilations(), Exp->getSourcePathList());
  // analyse the same program the build compiles, but never with NDEBUG-style
  // surprises from the driver: drop dependency-file and ccache noise.
  Tool.appendArgumentsAdjuster(getClangStripDependencyFileAdjuster());
  Tool.appendArgumentsAdjuster(getClangStripOutputAdjuster());
  Tool.appendArgumentsAdjuster(
      getInsertArgumentAdjuster("-Wno-everything", ArgumentInsertPosition::END));
  Tool.appendArgumentsAdjuster(
      getInsertArgumentAdjuster("-resource-dir=/usr/lib/llvm-14/lib/clang/14.0.6",
                                ArgumentInsertPosition::END));
  return Tool.run(newFrontendActionFactory<Action>().get());
}
