#!/usr/bin/env python3
"""Rewrite DESIGN.md section 8.7 (rule inventory) from evidence/*.json of the last run on the current tree."""
import glob, json, os, re
V = os.path.dirname(os.path.dirname(os.path.abspath(__file__)))
rows = []
for p in sorted(glob.glob(os.path.join(V, "evidence", "C??.json"))):
    e = json.load(open(p))
    pr = e["coverage"].get("per_rule", {})
    rows.append("| %s | %s |" % (e["property_id"], "; ".join("%s (%d)" % (k, v["held"]) for k, v in sorted(pr.items()))))
d = open(os.path.join(V, "DESIGN.md")).read()
head = "### 8.7 Rule inventory as built (from the evidence of the last run on the current tree)\n"
i = d.index(head)
tail = d[i + len(head):]
m = re.search(r"\n(?=##+ )", tail)
rest = tail[m.start():] if m else "\n"
new = head + "\n| property | sub-rules (obligations held) |\n|---|---|\n" + "\n".join(rows) + "\n" + rest
open(os.path.join(V, "DESIGN.md"), "w").write(d[:i] + new)
print("inventory: %d properties, %d sub-rules" % (len(rows), sum(r.count("(") for r in rows)))
