#!/usr/bin/env python3
"""usage: tools/seed_note.py <name> <note>  — append a history note to seeded/<name>/meta.json"""
import json, sys
p = "/verif/seeded/%s/meta.json" % sys.argv[1]
m = json.load(open(p))
m.setdefault("history", []).append(sys.stdin.read().strip() if sys.argv[2] == "-" else sys.argv[2])
json.dump(m, open(p, "w"), indent=1)
