#!/bin/sh
# usage: tools/file_round_seed.sh <round-dir> PID name "needs"
# confirm a sub-agent's seed (builds and runs its demo both ways in its own scratch worktree <round-dir>/PID), then file it under
# /verif/seeded/<name>/ and run every check against it.  (What /var/tmp/fileN.sh did in rounds 8-13.)
RD=$1; PID=$2; NAME=$3; NEEDS=$4
cd "$(dirname "$0")/.."
sh tools/confirm_seed.sh "$PID" "$RD/$PID" || exit 1
python3 tools/file_seed.py "$PID" "$RD/$PID" "$NAME" "$NEEDS" --all 2>&1 | tail -25
