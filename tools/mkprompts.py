#!/usr/bin/env python3
"""usage: tools/mkprompts.py <round-dir> <template> [PID ...]
Writes <round-dir>/<PID>.prompt.txt for every claimed property: the template with @ID@, @PROPERTY@ and @AVOID@ filled in.
@AVOID@ lists the functions (and files) changed by every seed filed so far for that property (from the hunk headers)."""
import glob, json, os, re, sys
V = os.path.dirname(os.path.dirname(os.path.abspath(__file__)))
rd, tmpl = sys.argv[1], open(sys.argv[2]).read()
only = set(sys.argv[3:])
rn = os.path.basename(rd.rstrip("/"))
props = {}
for l in open(os.path.join(V, "properties.jsonl")):
    d = json.loads(l)
    props[d["id"]] = "%s\n%s" % (d.get("title", ""), d.get("statement") or d.get("description") or "")
for pid in sorted(props):
    if pid == "C01" or (only and pid not in only):
        continue
    sites = []
    for sd in sorted(glob.glob(os.path.join(V, "seeded", pid + "*"))):
        diff = open(os.path.join(sd, "patch.diff"), errors="replace").read()
        cur = None
        for ln in diff.splitlines():
            m = re.match(r"^\+\+\+ b/(\S+)", ln)
            if m:
                cur = m.group(1)
            m = re.match(r"^@@ [^@]*@@\s*(.*)$", ln)
            if m and cur:
                fn = re.search(r"([A-Za-z_][A-Za-z0-9_]*)\s*\(", m.group(1))
                s = "%s (%s)" % (fn.group(1), cur) if fn else cur
                if s not in sites:
                    sites.append(s)
    txt = tmpl.replace("@ID@", pid).replace("@PROPERTY@", props[pid]).replace("@AVOID@", "; ".join(sites) or "(none)")
    txt = txt.replace("/var/tmp/seed5/", "/var/tmp/%s/" % rn)
    open(os.path.join(rd, pid + ".prompt.txt"), "w").write(txt)
    print(pid, len(sites), "sites to avoid")
