#!/usr/bin/env python3
"""usage: mkmutant.py <name> <file> <old> <new> [<file> <old> <new> ...]
Applies exact-text replacements in the scratch worktree /var/tmp/mut (reset to
/repo HEAD first) and stores the diff as /verif/mutants/<name>.patch."""
import os, subprocess, sys
MUT = "/var/tmp/mut"
name = sys.argv[1]
if not os.path.isdir(MUT):          # scratch worktree of /repo, outside /repo and /verif; remove with `git -C /repo worktree remove --force /var/tmp/mut`
    subprocess.check_call(["git", "-C", "/repo", "worktree", "add", "-q", "--detach", MUT, "HEAD"])
subprocess.check_call(["git", "-C", MUT, "checkout", "-q", "--detach", subprocess.check_output(["git", "-C", "/repo", "rev-parse", "HEAD"], text=True).strip()])
subprocess.check_call(["git", "-C", MUT, "checkout", "-q", "--", "."])
args = sys.argv[2:]
for i in range(0, len(args), 3):
    f, old, new = args[i:i+3]
    p = MUT + "/" + f
    s = open(p).read()
    if s.count(old) != 1:
        sys.exit("%s: pattern occurs %d times: %r" % (f, s.count(old), old[:60]))
    open(p, "w").write(s.replace(old, new))
d = subprocess.check_output(["git", "-C", MUT, "diff"], text=True)
open("/verif/mutants/%s.patch" % name, "w").write(d)
subprocess.check_call(["git", "-C", MUT, "checkout", "-q", "--", "."])
print("wrote mutants/%s.patch (%d lines)" % (name, d.count("\n")))
