"""C13 — bytecode round trip: encoder/decoder agreement (R-TABLE).

  D1 tag layouts: fields appended after each ORC_BC_* tag == fields the decoder reads in that case
  D1b instruction operands: same operand slots, same order, same presence tests; flags tag
  D2 parameter / variable classes: param_type -> tag -> constructor -> param_type is the identity
  D3 numbering: ORC_BC_<op> == 32 + index in opcodes[]; all opcodes one byte; no 4th source
  D4 integer codecs: escape threshold and byte order agree
"""
from facts import AnalysisBroken, access_path, strip_casts, unparse, init_rows
from rules_common import where
from flow import atom, cmp_parts
from facts import ASSIGN_OPS as ASSIGN_OPS_

ENC_FIELDS = {"bytecode_append_int": "int", "bytecode_append_uint32": "uint32",
              "bytecode_append_uint64": "uint64", "bytecode_append_string": "string"}
DEC_FIELDS = {"orc_bytecode_parse_get_int": "int", "orc_bytecode_parse_get_uint32": "uint32",
              "orc_bytecode_parse_get_uint64": "uint64", "orc_bytecode_parse_get_string": "string"}


def seqs_after(func, start_block, start_idx, field_map, stop):
    """set of field sequences on all CFG paths from (block, idx) until stop(node)."""
    out = set()
    stack = [(start_block, start_idx, (), frozenset())]
    steps = 0
    while stack:
        b, i, seq, seen = stack.pop()
        steps += 1
        if steps > 20000:
            raise AnalysisBroken("path explosion in %s" % func.name)
        blk = func.blocks[b]
        stopped = False
        for e in blk.el[i:]:
            if e.k == "CallExpr":
                if stop(e):
                    stopped = True
                    break
                if e.name in field_map:
                    seq = seq + (field_map[e.name],)
        if stopped or b == func.exit or not [s for s in blk.succs if s is not None]:
            out.add(seq)
            continue
        for s in blk.succs:
            if s is None:
                continue
            if s in seen:
                out.add(seq)
                continue
            stack.append((s, 0, seq, seen | {s}))
    return out


def field_fidelity(db, rep, rule="D2-FIELD-FIDELITY"):
    """the constructors through which bytecode (and old-style generated C) rebuild arrays store size and alignment as given."""
    # ---- D2c: the constructors the decoder goes through store size and alignment unchanged ------------
    # The decoder rebuilds arrays with orc_program_add_{source,destination}_full (program, size, name, type, alignment).
    # What the encoder wrote must come back: the stored size is the size parameter; the stored alignment is the alignment
    # parameter, except for the documented default (alignment 0 -> size), decided by finite evaluation of the guard.
    from exprval import admitted as _adm
    from flow import Facts as _F
    for ctor in ("orc_program_add_source_full", "orc_program_add_destination_full"):
        g = db.func(ctor, "orcprogram")
        rep.saw(g)
        pn = [p_["name"] for p_ in g.params]
        if len(pn) != 5:
            raise AnalysisBroken("%s: expected 5 parameters" % ctor)
        SZ, AL = pn[1], pn[4]
        fcg = _F(g)
        for field, par in (("size", SZ), ("alignment", AL)):
            sts = [n for n in g.walk() if n.k == "BinaryOperator" and n.op == "=" and strip_casts(n.c[0]).k == "MemberExpr" and strip_casts(n.c[0]).name == field]
            if len(sts) != 1:
                raise AnalysisBroken("%s: expected one store to .%s" % (ctor, field))
            ok = unparse(strip_casts(sts[0].c[1])) == par
            redefs = [n for n in g.walk() if n.k in ("BinaryOperator", "CompoundAssignOperator") and n.op in ASSIGN_OPS_ and access_path(n.c[0]) == par]
            bad = []
            for r_ in redefs:
                if field == "alignment" and r_.op == "=" and unparse(strip_casts(r_.c[1])) == SZ:
                    got, rel = _adm(fcg.conds(r_), (AL, SZ), (0, 1, 2, 4, 8, 16))
                    want = {(a_, s_) for a_ in (0, 1, 2, 4, 8, 16) for s_ in (0, 1, 2, 4, 8, 16) if a_ == 0}
                    if got != want:
                        ex = sorted(got - want)[:1] or sorted(want - got)[:1]
                        bad.append("`%s` under %s (e.g. alignment=%s size=%s)" % (unparse(r_), [unparse(x[0]) for x in rel], ex[0][0], ex[0][1]))
                else:
                    bad.append("`%s`" % unparse(r_))
            rep.check(ok and not bad, rule, where(g), "%s.%s" % (ctor.replace("orc_program_add_", ""), field),
                      "the decoded %s is stored as given%s" % (field, " (0 selects the element size)" if field == "alignment" else ""),
                      "%s does not store the %s it is given: %s -- an array whose %s was serialised comes back from the bytecode with a different one" %
                      (ctor, field, "; ".join(bad) if bad else "stored expression is `%s`" % unparse(sts[0].c[1]), field), line=sts[0].line)



def d4_codec(db, rep, rule="D4-CODEC"):
    """integer codecs of the bytecode format: byte order, the 255 escape and its threshold, widening before shifting."""
    # ---- D4 integer codecs ---------------------------------------------------
    def shifts_enc(fname):
        f = db.func(fname, "orcbytecode")
        out = []
        for c in f.calls("bytecode_append_byte"):
            a = strip_casts(c.args()[1])
            sh = 0
            for x in a.walk():
                if x.k == "BinaryOperator" and x.op == ">>":
                    sh = strip_casts(x.c[1]).v
            out.append(sh if a.v is None else ("const", a.v))
        return out

    def shifts_dec(fname):
        f = db.func(fname, "orcbytecode")
        out = []
        for c in f.calls("orc_bytecode_parse_get_byte"):
            sh = 0
            p = c.parent
            while p is not None and p.k in ("CStyleCastExpr",):
                p = p.parent
            if p is not None and p.k == "BinaryOperator" and p.op == "<<":
                sh = strip_casts(p.c[1]).v
            out.append(sh)
        return out
    for e, d, n in (("bytecode_append_uint32", "orc_bytecode_parse_get_uint32", 4), ("bytecode_append_uint64", "orc_bytecode_parse_get_uint64", 8)):
        se, sd = shifts_enc(e), shifts_dec(d)
        rep.check(se == sd and len(se) == n, rule, "orc/orcbytecode.c::" + e, "byte-order",
                  "bytes written at shifts %s are read back at the same shifts" % se, "byte order differs: written %s, read %s" % (se, sd))
    se, sd = shifts_enc("bytecode_append_int"), shifts_dec("orc_bytecode_parse_get_int")
    rep.check(se == [0, ("const", 255), 0, 8] and sd == [0, 0, 8], rule, "orc/orcbytecode.c::bytecode_append_int", "escape",
              "one byte below 255, else 255 + low + high; decoder mirrors it", "integer escape codec differs: encoder %s decoder %s" % (se, sd))
    ai = db.func("bytecode_append_int", "orcbytecode")
    thr_e = [cmp_parts(n.c[0])[2].v for n in ai.walk() if n.k == "IfStmt" and cmp_parts(n.c[0]) and cmp_parts(n.c[0])[1] == "<"]
    gi = db.func("orc_bytecode_parse_get_int", "orcbytecode")
    thr_d = [cmp_parts(n.c[0])[2].v for n in gi.walk() if n.k == "IfStmt" and cmp_parts(n.c[0]) and cmp_parts(n.c[0])[1] == "=="]
    rep.check(thr_e[:1] == [255] and thr_d == [255], rule, "orc/orcbytecode.c::bytecode_append_int", "threshold",
              "escape threshold 255 on both sides", "escape thresholds differ: encoder %s decoder %s" % (thr_e, thr_d))

    # ---- D4b: every byte is widened before it is shifted into place ------------
    # `get_byte() << k` is computed in the promoted type of its left operand.  If that type is narrower than the
    # accumulator and signed, a set bit 7 of the byte at k == bits-8 makes the term negative and the conversion to the
    # accumulator sign-extends it (all higher bytes become 0xff); if k + 8 exceeds the type's width, bits are lost.
    INT_TYPES = {"int": (32, True), "unsigned int": (32, False), "orc_uint32": (32, False), "orc_int32": (32, True),
                 "orc_uint64": (64, False), "orc_int64": (64, True), "unsigned long": (64, False), "long": (64, True),
                 "unsigned long long": (64, False), "long long": (64, True), "orc_uint8": (8, False), "orc_uint16": (16, False),
                 "unsigned char": (8, False), "unsigned short": (16, False)}
    nshift = 0
    for fname in ("orc_bytecode_parse_get_int", "orc_bytecode_parse_get_uint32", "orc_bytecode_parse_get_uint64"):
        f = db.func(fname, "orcbytecode")
        for n in f.walk():
            if not (n.k == "BinaryOperator" and n.op == "<<"):
                continue
            if not any(x.k == "CallExpr" and x.name == "orc_bytecode_parse_get_byte" for x in n.c[0].walk()):
                continue
            k = strip_casts(n.c[1]).v
            st = INT_TYPES.get(n.get("ty"))
            # accumulator: the assignment this term is OR-ed / stored into
            p_ = n.parent
            while p_ is not None and p_.k not in ("CompoundAssignOperator", "BinaryOperator", "ReturnStmt", "VarDecl") or (p_ is not None and p_.k == "BinaryOperator" and p_.op not in ("=",)):
                p_ = p_.parent
            if p_ is None or k is None:
                raise AnalysisBroken("%s: shift term without constant amount / accumulator" % fname)
            tt = INT_TYPES.get(p_.c[0].get("ty") if p_.k != "ReturnStmt" else None)
            if st is None or tt is None:
                raise AnalysisBroken("%s: unknown integer type %r / %r in shift term" % (fname, n.get("ty"), p_.c[0].get("ty")))
            nshift += 1
            lost = k + 8 > st[0]
            sext = st[1] and k + 8 > st[0] - 1 and tt[0] > st[0]
            rep.check(not lost and not sext, rule, where(f), "widen-before-shift<<%d" % k,
                      "byte shifted by %d in %s, accumulated in %s: no bits lost, no sign extension" % (k, n.get("ty"), p_.c[0].get("ty")),
                      "byte << %d is computed in `%s` and accumulated in `%s`: %s" % (
                          k, n.get("ty"), p_.c[0].get("ty"),
                          "the high bits are shifted out" if lost else
                          "a byte >= 0x80 makes the term negative and the widening conversion sets all higher bytes (decoded 64-bit constants with bit 31 set come back with 0xffffffff on top)"),
                      line=n.line)
    if nshift < 10:
        raise AnalysisBroken("only %d shift terms found in the integer decoders" % nshift)



def run(ctx):
    db = ctx.db()
    rep = ctx.report
    rep.explanation = (
        "Agreement between the two sibling implementations of the bytecode format, decided from the CFGs of "
        "orc_bytecode_from_program and orc_bytecode_parse_function and from the opcode / enum tables: per-tag field layout, "
        "instruction operand layout, parameter- and variable-class mapping composed through the constructors the decoder calls, "
        "opcode numbering, one-byte encodability, integer escape codec. Behavioural equality of original and reconstructed "
        "program (names, alignment of accumulators, 64-bit constants passed through int APIs) is NOT decided.")
    rep.assumptions += ["the encoder/decoder are the only producers/consumers of the format (orcc embeds encoder output verbatim)"]
    enc = db.func("orc_bytecode_from_program", "orcbytecode")
    dec = db.func("orc_bytecode_parse_function", "orcbytecode")
    rep.saw(enc)
    rep.saw(dec)
    enums = db.tu("orcbytecode").enums
    tagname = {v: k for k, v in enums.items() if k.startswith("ORC_BC_") and v < 32}

    # ---- encoder layouts ---------------------------------------------------
    enc_layout = {}
    for call in enc.calls("bytecode_append_code"):
        a = call.args()[1]
        if a.v is None:
            continue
        pos = enc.pos(call)
        ss = seqs_after(enc, pos[0], pos[1] + 1, ENC_FIELDS, lambda e: e.name == "bytecode_append_code")
        enc_layout.setdefault(a.v, set()).update(ss)
    # ---- decoder layouts ---------------------------------------------------
    dec_layout = {}
    sw = [b for b in dec.blocks.values() if b.tk == "SwitchStmt"]
    if len(sw) != 1:
        raise AnalysisBroken("decoder: expected one switch, found %d" % len(sw))
    swb = sw[0]
    loop_head_calls = set()
    for b in dec.blocks.values():
        for e in b.el:
            if e.k == "CallExpr" and e.name == "orc_bytecode_parse_get_int" and e.parent is not None and \
                    e.parent.k == "BinaryOperator" and access_path(e.parent.c[0]) == "bc":
                loop_head_calls.add(e.id)
    if not loop_head_calls:
        raise AnalysisBroken("decoder: `bc = orc_bytecode_parse_get_int()` not found")
    for idx, s in enumerate(swb.succs):
        if s is None:
            continue
        ek = dec.edge_kind(swb.id, idx)
        if not ek or ek[0] != "case":
            continue
        ss = seqs_after(dec, s, 0, DEC_FIELDS, lambda e: e.id in loop_head_calls)
        for t in range(ek[1], (ek[2] if ek[2] is not None else ek[1]) + 1):
            dec_layout[t] = ss
    if len(enc_layout) < 15 or len(dec_layout) < 15:
        raise AnalysisBroken("too few tags recovered (enc %d, dec %d)" % (len(enc_layout), len(dec_layout)))
    for t in sorted(enc_layout):
        nm = tagname.get(t, str(t))
        e = enc_layout[t]
        d = dec_layout.get(t)
        if d is None:
            rep.violation("D1-LAYOUT", where(dec), nm, "encoder emits tag %s but the decoder has no case for it" % nm)
            continue
        ok = len(e) == 1 and len(d) == 1 and e == d
        rep.check(ok, "D1-LAYOUT", where(enc), nm,
                  "fields after %s: encoder %s == decoder %s" % (nm, sorted(e), sorted(d)),
                  "field layout of %s differs: encoder appends %s, decoder reads %s" % (nm, sorted(e), sorted(d)))
    for t in sorted(set(dec_layout) - set(enc_layout)):
        rep.info("decoder handles %s which the encoder never emits" % tagname.get(t, t))

    # ---- D1b instruction operands -------------------------------------------
    def operand_list(func, callee, argidx, is_enc):
        res = []
        for n in func.walk():
            if n.k != "IfStmt":
                continue
            c = unparse(n.c[0])
            if "opcode->" not in c or "_size[" not in c:
                continue
            body = n.c[1]
            if is_enc:
                for call in body.walk():
                    if call.k == "CallExpr" and call.name == callee:
                        res.append((c.replace("insn->", ""), unparse(call.args()[argidx]).replace("insn->", "")))
            else:
                for asg in body.walk():
                    if asg.k == "BinaryOperator" and asg.op == "=" and strip_casts(asg.c[1]).k == "CallExpr" and strip_casts(asg.c[1]).name == callee:
                        res.append((c.replace("insn->", ""), unparse(asg.c[0]).replace("insn->", "")))
        return res
    eo = operand_list(enc, "bytecode_append_int", 1, True)
    do = operand_list(dec, "orc_bytecode_parse_get_int", 0, False)
    rep.check(eo == do and len(eo) >= 5, "D1b-OPERANDS", where(enc), "instruction-operands",
              "operand slots in the same order under the same tests: %s" % eo,
              "instruction operand layout differs: encoder %s, decoder %s" % (eo, do))
    # every operand slot an opcode can use is serialised
    rows = [r for r in init_rows(db.tu("orcopcodes-sys").global_("opcodes"))
            if isinstance(r, dict) and r.get("name") and isinstance(r.get("src_size"), list)]
    nsrc = max((i + 1 for r in rows if isinstance(r, dict) for i, v in enumerate(r["src_size"]) if v), default=0)
    ndst = max((i + 1 for r in rows if isinstance(r, dict) for i, v in enumerate(r["dest_size"]) if v), default=0)
    ser_src = sum(1 for c, _ in eo if "src_size" in c)
    ser_dst = sum(1 for c, _ in eo if "dest_size" in c)
    rep.check(nsrc <= ser_src and ndst <= ser_dst, "D1b-OPERANDS", "orc/orcopcodes-sys.c", "all-used-slots-serialised",
              "opcodes use up to %d dest / %d src operands; %d / %d are serialised" % (ndst, nsrc, ser_dst, ser_src),
              "an opcode uses %d dest / %d src operands but only %d / %d are serialised" % (ndst, nsrc, ser_dst, ser_src))
    # flags: tag precedes the opcode in the encoder; decoder applies then resets
    fl_enc = False
    for n in enc.walk():
        if n.k == "IfStmt" and atom(n.c[0], True)[1] is True and unparse(atom(n.c[0], True)[0]) == "insn->flags":
            calls = [c for c in n.c[1].walk() if c.k == "CallExpr"]
            if len(calls) >= 2 and calls[0].name == "bytecode_append_code" and calls[0].args()[1].v == enums.get("ORC_BC_INSTRUCTION_FLAGS") \
                    and calls[1].name == "bytecode_append_int" and unparse(calls[1].args()[1]) == "insn->flags":
                nxt = [c for c in enc.calls("bytecode_append_code") if c.args()[1].v is None]
                fl_enc = bool(nxt) and all(enc.dominates(n.c[0], x) and not enc.dominates(x, calls[1]) for x in nxt)
    rep.check(fl_enc, "D1b-FLAGS", where(enc), "flags-before-opcode",
              "non-zero flags are emitted as INSTRUCTION_FLAGS,<int> before the opcode byte",
              "encoder no longer emits the instruction flags before the opcode")
    fl_dec_set = [n for n in dec.walk() if n.k == "BinaryOperator" and n.op == "=" and unparse(n.c[0]) == "insn->flags"]
    fl_dec_src = fl_dec_set and access_path(fl_dec_set[0].c[1]) is not None
    src = access_path(fl_dec_set[0].c[1]) if fl_dec_set else None
    reset = [n for n in dec.walk() if n.k == "BinaryOperator" and n.op == "=" and access_path(n.c[0]) == src and strip_casts(n.c[1]).v == 0
             and fl_dec_set and dec.dominates(fl_dec_set[0], n)]
    case_store = any(n.k == "BinaryOperator" and n.op == "=" and access_path(n.c[0]) == src and strip_casts(n.c[1]).k == "CallExpr"
                     for n in dec.walk())
    rep.check(bool(fl_dec_src and reset and case_store), "D1b-FLAGS", where(dec), "flags-applied-and-reset",
              "decoder stores the flags word into the next instruction and clears it",
              "decoder does not apply/reset the pending instruction flags (x2/x4 would leak to later instructions or be lost)")

    # ---- D2 parameter classes ------------------------------------------------
    ptype = {k: v for k, v in enums.items() if k.startswith("ORC_PARAM_TYPE_")}
    pname = {v: k for k, v in ptype.items()}
    enc_map = {}
    for n in enc.walk():
        if n.k == "SwitchStmt" and unparse(n.c[0]).endswith("param_type"):
            cur = None
            for x in n.c[1].walk():
                if x.k == "CaseStmt":
                    cur = x.get("lo")
                    calls = [c for c in x.walk() if c.k == "CallExpr" and c.name == "bytecode_append_code"]
                    if calls and cur is not None:
                        enc_map[cur] = calls[0].args()[1].v
    if len(enc_map) < 4:
        raise AnalysisBroken("encoder param_type switch not recovered")
    # decoder: tag -> constructor
    dec_ctor = {}
    for idx, s in enumerate(swb.succs):
        if s is None:
            continue
        ek = dec.edge_kind(swb.id, idx)
        if not ek or ek[0] != "case":
            continue
        seen = set()
        st = [s]
        names = []
        while st:
            b = st.pop()
            if b in seen:
                continue
            seen.add(b)
            stop = False
            for e in dec.blocks[b].el:
                if e.k == "CallExpr" and e.id in loop_head_calls:
                    stop = True
                    break
                if e.k == "CallExpr" and e.name and e.name.startswith("orc_program_add_"):
                    names.append(e.name)
            if not stop:
                st.extend(x for x in dec.blocks[b].succs if x is not None)
        if names:
            dec_ctor[ek[1]] = names[0]

    def ctor_const(fname, field):
        f = db.func(fname, "orcprogram")
        for n in f.walk():
            if n.k == "BinaryOperator" and n.op == "=" and unparse(n.c[0]).endswith("." + field):
                return strip_casts(n.c[1]).v
        # forwarding wrappers (orc_program_add_source -> _full)
        for c in f.calls():
            if c.name and c.name.startswith("orc_program_add_"):
                return ctor_const(c.name, field)
        return None
    for k, tag in sorted(enc_map.items()):
        ctor = dec_ctor.get(tag)
        back = ctor_const(ctor, "param_type") if ctor else None
        rep.check(back == k, "D2-PARAM-CLASS", where(enc), pname.get(k, str(k)),
                  "%s -> %s -> %s -> %s" % (pname.get(k), tagname.get(tag), ctor, pname.get(back)),
                  "parameter class is not preserved: %s is encoded as %s, which the decoder rebuilds with %s => %s" %
                  (pname.get(k), tagname.get(tag), ctor, pname.get(back)))
    # variable classes: loop base in encoder vs vartype stored by the constructor
    vt = {k: v for k, v in enums.items() if k.startswith("ORC_VAR_TYPE_")}
    vtn = {v: k for k, v in vt.items()}
    base_class = {"ORC_VAR_D1": "ORC_VAR_TYPE_DEST", "ORC_VAR_S1": "ORC_VAR_TYPE_SRC", "ORC_VAR_A1": "ORC_VAR_TYPE_ACCUMULATOR",
                  "ORC_VAR_C1": "ORC_VAR_TYPE_CONST", "ORC_VAR_P1": "ORC_VAR_TYPE_PARAM", "ORC_VAR_T1": "ORC_VAR_TYPE_TEMP"}
    basev = {enums[k]: k for k in base_class}
    for n in enc.walk():
        if n.k != "ForStmt":
            continue
        body = n.c[3]
        asg = [x for x in body.walk() if x.k == "BinaryOperator" and x.op == "=" and access_path(x.c[0]) == "var"]
        tags = [c.args()[1].v for c in body.walk() if c.k == "CallExpr" and c.name == "bytecode_append_code" and c.args()[1].v is not None]
        if not asg or not tags:
            continue
        idx = [x for x in asg[0].c[1].walk() if x.k == "ArraySubscriptExpr"]
        if not idx:
            continue
        from flow import linear
        lin = linear(idx[0].c[1])
        if lin is None:
            continue
        basek = basev.get(lin[1])
        bound = strip_casts(n.c[1].c[1]).v if n.c[1] is not None and n.c[1].k == "BinaryOperator" else None
        for tag in sorted(set(tags)):
            ctor = dec_ctor.get(tag)
            vtype = ctor_const(ctor, "vartype") if ctor else None
            rep.check(basek is not None and vtn.get(vtype) == base_class.get(basek), "D2-VAR-CLASS", where(enc),
                      "%s@%s" % (tagname.get(tag), basek),
                      "vars[%s+i] -> %s -> %s -> %s" % (basek, tagname.get(tag), ctor, vtn.get(vtype)),
                      "variable class not preserved: vars[%s+i] encoded as %s, decoder rebuilds with %s (vartype %s)" %
                      (basek, tagname.get(tag), ctor, vtn.get(vtype)))
        # the loop covers the whole class
        lim = {"ORC_VAR_D1": "ORC_MAX_DEST_VARS", "ORC_VAR_S1": "ORC_MAX_SRC_VARS", "ORC_VAR_A1": "ORC_MAX_ACCUM_VARS",
               "ORC_VAR_C1": "ORC_MAX_CONST_VARS", "ORC_VAR_P1": "ORC_MAX_PARAM_VARS", "ORC_VAR_T1": "ORC_MAX_TEMP_VARS"}.get(basek)
        if lim:
            want = db.macro_int(lim)
            rep.check(bound == want, "D2-VAR-CLASS", where(enc), "loop-bound@%s" % basek,
                      "encoder visits all %d variables of the class" % want,
                      "encoder visits %s variables of class %s, the program can hold %d" % (bound, basek, want))
    rep.floor("D2-VAR-CLASS", 10)

    # ---- D3 numbering --------------------------------------------------------
    names = [r["name"] for r in rows if isinstance(r, dict) and r["name"]]
    if len(names) < 150:
        raise AnalysisBroken("opcodes[] table: %d rows" % len(names))
    thr = enums.get("ORC_BC_absb")
    rep.check(thr == 32 and names[0] == "absb", "D3-NUMBERING", "orc/orcbytecodes.h", "first-opcode",
              "ORC_BC_absb == 32 == decoder threshold; opcodes[0] is absb", "first opcode / threshold mismatch (ORC_BC_absb=%s, opcodes[0]=%s)" % (thr, names[0]))
    bad = []
    n_in_both = 0
    for i, nm in enumerate(names):
        ev = enums.get("ORC_BC_" + nm)
        if ev is None:
            continue
        n_in_both += 1
        if ev != 32 + i:
            bad.append((nm, ev, 32 + i))
    rep.check(not bad, "D3-NUMBERING", "orc/orcbytecodes.h", "enum-vs-table",
              "%d ORC_BC_<op> enumerators equal 32 + table index" % n_in_both,
              "ORC_BC_* enumerators disagree with opcodes[] order (checked-in header stale?): %s" % bad[:5])
    missing = [nm for nm in names if "ORC_BC_" + nm not in enums]
    if missing:
        rep.info("opcodes without ORC_BC_ enumerator (encoder uses pointer arithmetic, unaffected): %s" % missing)
    # threshold constant in the decoder and +32 in the encoder
    enc32 = [c for c in enc.calls("bytecode_append_code") if c.args()[1].v is None]
    ok32 = enc32 and all(" + 32)" in unparse(c.args()[1]) for c in enc32)
    dec32 = any(n.k == "BinaryOperator" and n.op == "-" and strip_casts(n.c[1]).v == 32 for n in dec.walk())
    rep.check(bool(ok32 and dec32), "D3-NUMBERING", where(enc), "offset-32", "encoder adds 32, decoder subtracts 32",
              "opcode offset differs between encoder (+32 expected) and decoder (-32 expected)")
    rep.check(32 + len(names) - 1 < 255, "D3-NUMBERING", "orc/orcopcodes-sys.c", "one-byte-opcodes",
              "highest opcode byte is %d < 255 (decoder reads it with the escape-aware get_int)" % (31 + len(names)),
              "%d opcodes no longer fit below the 255 escape byte" % len(names))

    field_fidelity(db, rep)

    # ---- D2d: the short constant form is chosen only where the decoder reproduces the value ------------
    # ORC_BC_ADD_CONSTANT carries 32 bits and the decoder hands them to orc_program_add_constant (int value), i.e. it
    # reconstructs sign_extend_32 (low word).  The guard under which the encoder emits that tag must therefore admit only
    # constants of size <= 4 (whose upper half is immaterial) or values equal to their own sign extension; decided by finite
    # evaluation of the guard over sizes {1,2,4,8} x probe values.
    from exprval import admitted as _adm2, variables as _vars2
    from flow import Facts as _F2
    fce2 = _F2(enc)
    tagv = enums.get("ORC_BC_ADD_CONSTANT")
    sites = [c for c in enc.calls("bytecode_append_code") if strip_casts(c.args()[1]).v == tagv]
    if not sites:
        raise AnalysisBroken("encoder: emission of ORC_BC_ADD_CONSTANT not found")
    PROBE = (0, 1, 2, 4, 8, 0x7fffffff, 0x80000000, 0xffffffff, -1, -2147483648, 0x100000000, 0x123456789)
    for c in sites:
        conds = fce2.conds(c)
        vs = set()
        for x in conds:
            if x[0] != "switch":
                vs |= _vars2(x[0])
        SZ = sorted(v for v in vs if v.endswith("->size") or v.endswith(".size"))
        VL = sorted(v for v in vs if v.endswith("value.i"))
        if len(SZ) != 1:
            raise AnalysisBroken("encoder: size variable of the constant not identified (%s)" % sorted(vs))
        keys = (SZ[0],) + ((VL[0],) if VL else ())
        got, rel = _adm2(conds, keys, PROBE)
        bad = []
        for t in sorted(got):
            size = t[0]
            if size not in (1, 2, 4, 8):
                continue
            vals = (t[1],) if len(t) > 1 else PROBE
            for v in vals:
                low = v & 0xffffffff
                sext = low - (1 << 32) if low & 0x80000000 else low
                if size > 4 and sext != v:
                    bad.append((size, v))
        rep.check(not bad, "D2-CONST-TAG", where(enc), "ADD_CONSTANT-guard",
                  "the 32-bit constant tag is emitted only for constants the decoder reproduces",
                  "the encoder emits the 32-bit ORC_BC_ADD_CONSTANT form for e.g. a %d-byte constant %#x (guards: %s); the decoder rebuilds it as "
                  "sign_extend_32(low word), a different value" % ((bad[0] if bad else (0, 0)) + ([unparse(x[0]) for x in rel],)), line=c.line)

    # ---- D2e: the constructors the decoder calls always create a NEW slot -----------------------------------
    # Instructions refer to variables by slot number, and the decoder re-creates the variables in their original order
    # under placeholder names ("c", "s", "d" ...).  Slot numbers survive only if every orc_program_add_constant /
    # _constant_int64 call appends: the value returned (when no error) is ORC_VAR_C1 + n_const_vars, incremented on the way.
    for ctor in ("orc_program_add_constant", "orc_program_add_constant_int64"):
        g = db.func(ctor, "orcprogram")
        fwd = [c for c in g.calls() if c.name in ("orc_program_add_constant_int64",) and c.name != ctor]
        incs = [n for n in g.walk() if (n.k == "UnaryOperator" and n.op == "++" and (access_path(n.c[0]) or "").endswith("->n_const_vars")) or
                (n.k == "CompoundAssignOperator" and n.op == "+=" and (access_path(n.c[0]) or "").endswith("->n_const_vars"))]
        for r in g.walk():
            if r.k != "ReturnStmt" or not r.c or r.c[0] is None:
                continue
            e = strip_casts(r.c[0])
            if e.v is not None:
                continue                    # error returns (0 / -1)
            if e.k == "CallExpr" and e.name == "orc_program_add_constant_int64":
                rep.ok("D2-CONST-SLOTS", where(g), "%s:forwards" % ctor, "forwards to orc_program_add_constant_int64")
                continue
            ok = False
            why = unparse(e)
            if e.k == "DeclRefExpr":
                defs = [d for d in g.walk() if d.k == "BinaryOperator" and d.op == "=" and access_path(d.c[0]) == e.name and g.dominates(d, r)]
                alld = [d for d in g.walk() if d.k == "BinaryOperator" and d.op == "=" and access_path(d.c[0]) == e.name]
                if defs:
                    last = max(defs, key=lambda d: (d.line, d.id))
                    t = unparse(strip_casts(last.c[1])).replace(" ", "")
                    fresh = "n_const_vars" in t and "ORC_VAR_C1" in t or "n_const_vars" in t and str(db.enum("ORC_VAR_C1")) in t
                    later = [d for d in alld if d is not last and g.dominates(last, d)]
                    ok = fresh and not later and any(g.dominates(i_, r) for i_ in incs)
                    why = "`%s` = %s" % (e.name, [unparse(d.c[1]) for d in alld])
                else:
                    why = "`%s` has no definition dominating this return (%s)" % (e.name, [unparse(d.c[1]) for d in alld])
            rep.check(ok, "D2-CONST-SLOTS", where(g), "%s:returns-new-slot" % ctor, "every successful call appends a constant slot",
                      "%s can return an existing slot (%s): the decoder re-creates constants under one placeholder name, so equal-valued constants "
                      "collapse and every later operand slot number of the reconstructed program is off" % (ctor, why), line=r.line)

    d4_codec(db, rep)
    d4b_composite_codec(db, rep)
    d10_var_table_writers(db, rep)
    # D11: constants of different widths never share a slot (the slot's size is what gets serialised) - shared with C04/C15
    import importlib as _il11
    _il11.import_module("rules.c15").const_slot_shared_by_size(db, rep, "D11-CONST-SLOT-BY-SIZE")
    reader_constructors_name_blind(db, rep)
    d13_set_lookup_stateless(db, rep)
    # D14: an instruction is serialised as (insn->opcode - sys->opcodes) + 32: only an entry of the sys table has an index.  A name
    # that sys has must therefore resolve to the sys entry even when an application set carries the same name (shared with C20 D4)
    _il11.import_module("rules.c20").d4_builtin_first(db, rep, "D14-SYS-NAME-WINS")

    if ctx.tier == "thorough":
        d5(ctx, rep)


def d5(ctx, rep):
    """thorough tier: orc/orcbytecodes.h is byte for byte what tools/generate-bytecode --header (built from this tree in the
    scratch build directory) writes: the ORC_BC_* names applications and the decoder use are those of the current table."""
    import os, subprocess
    bdir = ctx.builddir
    p = subprocess.run(["ninja", "-C", bdir, "tools/generate-bytecode"], stdout=subprocess.PIPE, stderr=subprocess.STDOUT, text=True)
    gen = os.path.join(bdir, "tools", "generate-bytecode")
    if p.returncode != 0 or not os.path.exists(gen):
        raise AnalysisBroken("could not build generate-bytecode in scratch: " + p.stdout[-400:])
    env = dict(os.environ, LD_LIBRARY_PATH=os.path.join(bdir, "orc"))
    out = os.path.join(ctx.scratch, "regen_orcbytecodes.h")
    r = subprocess.run([gen, "--header", "-o", out], env=env, stdout=subprocess.PIPE, stderr=subprocess.STDOUT, text=True)
    if r.returncode != 0 or not os.path.exists(out):
        raise AnalysisBroken("generate-bytecode failed: " + r.stdout[-300:])
    a = open(out).read().split("\n")
    b = open(os.path.join(ctx.repo, "orc/orcbytecodes.h")).read().split("\n")
    diff = [(i + 1, x, y) for i, (x, y) in enumerate(zip(a, b)) if x != y]
    if len(a) != len(b) and not diff:
        diff = [(min(len(a), len(b)) + 1, "<%d lines>" % len(a), "<%d lines>" % len(b))]
    rep.check(not diff, "D5-REGENERATE", "orc/orcbytecodes.h", "identical-to-generator-output",
              "orc/orcbytecodes.h is what generate-bytecode --header writes (%d lines)" % len(b),
              "orc/orcbytecodes.h differs from the generator's output, first at line %s: generated `%s`, checked in `%s`" % (diff[0] if diff else (0, "", "")))



def d4b_composite_codec(db, rep, rule="D4b-COMPOSITE-CODEC"):
    """D4b: composite items (strings) are written as a sequence of primitive items - a length through the variable-width
    integer codec, then the bytes - and must be read back through the mirror primitives in the same order.  A reader that
    takes the length with another primitive than the writer used agrees with it only for small values."""
    tu = db.tu("orcbytecode")
    W = {"bytecode_append_int": "int", "bytecode_append_byte": "byte", "bytecode_append_int32": "int32", "bytecode_append_int64": "int64"}
    R = {"orc_bytecode_parse_get_int": "int", "orc_bytecode_parse_get_byte": "byte", "orc_bytecode_parse_get_uint32": "int32",
         "orc_bytecode_parse_get_uint64": "int64"}

    def kinds(f, table):
        out = []
        for c in sorted({c.id: c for c in f.calls()}.values(), key=lambda c: (c.line, c.id)):
            if c.name in table and (not out or out[-1] != table[c.name]):
                out.append(table[c.name])
        return out
    n = 0
    for wname, rname in (("bytecode_append_string", "orc_bytecode_parse_get_string"),):
        w, r = tu.fn.get(wname), tu.fn.get(rname)
        if w is None or r is None:
            raise AnalysisBroken("string codec functions not found (%s / %s)" % (wname, rname))
        rep.saw(w)
        rep.saw(r)
        kw, kr = kinds(w, W), kinds(r, R)
        n += 1
        rep.check(bool(kw) and kw[:1] == kr[:1] and (len(kr) < 2 or kw == kr), rule, where(r), "%s<->%s" % (wname, rname),
                  "writer emits %s, reader consumes %s" % (kw, kr),
                  "%s writes a string as %s but %s reads it back as %s: the two agree only while the value fits the smaller primitive (a length of 255 "
                  "or more is an escape byte for the variable-width integer): the rest of the string is then parsed as bytecode" % (wname, kw, rname, kr), line=r.line)
    return n


def d10_var_table_writers(db, rep, rule="D10-VAR-TABLE-WRITERS"):
    """D10: the bytecode names operands by ABSOLUTE slot number but declares variables without one: the writer emits the used
    slots of each class in order and the reader re-creates them densely from the first slot of the class.  The two agree only
    while the slots of a class are filled densely from its start, which the constructors of orcprogram.c guarantee (slot =
    base + per-class counter).  Any other store to OrcProgram.vars[].size - in particular clearing one - can leave a hole,
    after which every later variable of the class is renumbered by the round trip while the instructions keep the old
    numbers.  Who-may-write: only functions of orcprogram.c store to it, and none stores the constant 0."""
    n = 0
    for f in db.all_functions():
        if not f.relfile.startswith("orc/") or f.body is None:
            continue
        progs = {p["name"] for p in f.params if "OrcProgram *" in (p.get("ty") or "") and "**" not in (p.get("ty") or "")}
        for x in f.walk():
            if x.k == "VarDecl" and "OrcProgram *" in (x.ty or "") and "**" not in (x.ty or ""):
                progs.add(x.name)
        if not progs:
            continue
        # local pointers into P->vars[]
        valias = set()
        for x in f.walk():
            src = None
            if x.k == "VarDecl" and "OrcVariable *" in (x.ty or "") and x.c and x.c[0] is not None:
                src, nm = x.c[0], x.name
            elif x.k == "BinaryOperator" and x.op == "=" and strip_casts(x.c[0]) is not None and strip_casts(x.c[0]).k == "DeclRefExpr" \
                    and "OrcVariable *" in (strip_casts(x.c[0]).ty or ""):
                src, nm = x.c[1], strip_casts(x.c[0]).name
            if src is not None and any(y.k == "MemberExpr" and y.name == "vars" and access_path(y.c[0]) in progs for y in src.walk()):
                valias.add(nm)
        for x in f.walk():
            if x.k not in ("BinaryOperator", "CompoundAssignOperator") or not x.op.endswith("=") or x.op in ("==", "!=", "<=", ">="):
                continue
            lhs = strip_casts(x.c[0])
            if lhs is None or lhs.k != "MemberExpr" or lhs.name != "size":
                continue
            b = strip_casts(lhs.c[0])
            if b is not None and b.k == "DeclRefExpr" and b.name in valias:
                pass                        # OrcVariable *v = P->vars + ...;  v->size = ...
            else:
                if b is None or b.k != "ArraySubscriptExpr":
                    continue
                bp = access_path(b.c[0]) or ""
                if not bp.endswith("->vars") or bp.split("->")[0] not in progs or bp.count("->") != 1:
                    continue
            n += 1
            rep.saw(f)
            in_ctor = f.tu.base.startswith("orcprogram.") or f.relfile == "orc/orcprogram.c"
            zero = strip_casts(x.c[1]) is not None and strip_casts(x.c[1]).v == 0
            rep.check(in_ctor and not zero, rule, where(f), "%s:%s" % (f.name, x.line and "store" or "store"),
                      "%s (constructor in orcprogram.c) fills the slot it has just counted" % f.name,
                      "%s %s OrcProgram.vars[].size%s: the slots of a variable class are no longer dense, the bytecode writer skips the hole and the reader "
                      "re-creates the remaining variables one slot lower, while instruction operands keep their absolute slot numbers - the "
                      "reconstructed program names other variables" % (f.name, "stores to" if not zero else "clears", "" if in_ctor else " outside the constructors of orcprogram.c"),
                      line=x.line)
    if n < 8:
        raise AnalysisBroken("only %d stores to OrcProgram.vars[].size found" % n)


def reader_constructors_name_blind(db, rep, rule="D12-PLACEHOLDER-NAMES"):
    """The bytecode does not carry variable names: orc_bytecode_parse_function re-creates every variable under a one-letter
    placeholder ("d", "s", "a", "p", "t", "c"), so several variables of one kind get the SAME name.  Every constructor the
    reader calls with a literal name must therefore create a slot whatever the name is: a constructor (or a helper it calls)
    that compares the requested name with existing ones - to refuse a duplicate, or to share a slot - drops the second
    accumulator / parameter / temporary of every program that comes back from bytecode.  (orc_program_add_constant_str, the one
    constructor that shares by name, is not called by the reader.)"""
    from callgraph import CallGraph
    rd = db.func("orc_bytecode_parse_function", "orcbytecode")
    tu = db.tu("orcprogram")
    ctors = {}
    for c in rd.calls():
        if c.name and c.name.startswith("orc_program_add_") and any(strip_casts(a) is not None and strip_casts(a).k == "StringLiteral" for a in c.args()):
            ctors[c.name] = c
    if len(ctors) < 8:
        raise AnalysisBroken("only %d constructors with placeholder names found in orc_bytecode_parse_function" % len(ctors))
    for name in sorted(ctors):
        todo, seen, bad = [name], set(), None
        while todo:
            g = tu.fn.get(todo.pop())
            if g is None or g.body is None or g.name in seen:
                continue
            seen.add(g.name)
            for c in g.calls():
                if c.name in ("strcmp", "strncmp", "__builtin_strcmp", "orc_program_find_var_by_name") and bad is None:
                    bad = (g, c)
                if c.name and c.name.startswith("orc_program_add_"):
                    todo.append(c.name)
        rep.saw(tu.fn[name])
        rep.check(bad is None, rule, where(tu.fn[name]), name, "the constructor creates a slot whatever the name is",
                  "%s (called by the bytecode reader with the placeholder name %s for every variable of its kind) reaches `%s` in %s (line %s): the "
                  "second variable re-created under the same placeholder is refused or merged, and the program that comes back from bytecode has lost "
                  "it" % (name, unparse(next(a for a in ctors[name].args() if strip_casts(a).k == "StringLiteral")), bad[1].name if bad else "", bad[0].name if bad else "",
                          bad[1].line if bad else "?"), line=bad[1].line if bad else None)
    return len(ctors)


def d13_set_lookup_stateless(db, rep, rule="D13-SET-LOOKUP-STATELESS"):
    """Both directions of the codec number opcodes relative to the table `orc_opcode_set_get ("sys")->opcodes`.  The array of
    opcode sets is reallocated by every orc_opcode_register_static (an application registering its own set - at any time), so the
    lookup has to walk the CURRENT array at every call: a lookup that remembers an earlier answer (a function-static or another
    variable it writes) hands the writer and the reader a pointer into freed memory, and the same program serialises to other
    bytes before and after a registration."""
    tu = db.tu("orcopcode")
    f = tu.fn.get("orc_opcode_set_get")
    if f is None or f.body is None:
        raise AnalysisBroken("orc_opcode_set_get not found")
    users = [g.name for g in db.tu("orcbytecode").main_functions() if any(c.name == "orc_opcode_set_get" for c in g.calls())]
    if len(users) < 2:
        raise AnalysisBroken("the bytecode writer and reader no longer both call orc_opcode_set_get (%s)" % users)
    rep.saw(f)
    from facts import ASSIGN_OPS
    statics = sorted({y.name for y in f.walk() if y.k == "DeclRefExpr" and y.get("dk") == "static_local"})
    written = sorted({(access_path(st.c[0]) or "").split("[")[0].split("->")[0].split(".")[0] for st in f.walk()
                      if st.k in ("BinaryOperator", "CompoundAssignOperator") and st.op in ASSIGN_OPS and strip_casts(st.c[0]) is not None
                      and any(y.k == "DeclRefExpr" and y.get("dk") in ("global", "static_local") for y in st.c[0].walk())})
    bad = statics or written
    rep.check(not bad, rule, where(f), "orc_opcode_set_get", "the opcode-set lookup keeps no memory of earlier calls",
              "orc_opcode_set_get %s: the answer of an earlier call is returned after orc_opcode_register_static has reallocated the array of sets - "
              "orc_bytecode_from_program and orc_bytecode_parse_function (%s) then number opcodes against freed memory" %
              ("uses the function-static(s) %s" % ", ".join(statics) if statics else "writes %s" % ", ".join(written), ", ".join(users[:3])), line=f.line)
    return 1
