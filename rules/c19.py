"""C19 — the default target is the best backend the CPU really supports.

  D1 cpuid table: every feature flag stored into the detected flag words is
     control-dependent on a cpuid bit that architecturally implies the feature
  D2 AVX flags additionally need OSXSAVE(26|27) and the XCR0 ymm check
  D3 executability: X_is_executable returns TRUE only under its ISA flags; every
     other target is created non-executable in this build
  D4 registration order mmx < sse < avx, later executable target wins
  D5 default flags come from detection only
  D6 the override variable the code reads is the documented one
  D7 the override cannot return a target that is not executable; its copy is freed
D8 a detected feature bit is cleared only under the user's "-feature" switch or below the cpuid leaf that reports it
"""
import re

from facts import AnalysisBroken, access_path, strip_casts, unparse, ASSIGN_OPS
from flow import Facts, atom
from rules_common import where

# architectural reference (Intel SDM vol.2 CPUID): feature -> (leaf, reg, bit)
REF = {
    "MMX": (1, "edx", 23), "SSE": (1, "edx", 25), "SSE2": (1, "edx", 26), "SSE3": (1, "ecx", 0),
    "SSSE3": (1, "ecx", 9), "SSE4_1": (1, "ecx", 19), "SSE4_2": (1, "ecx", 20), "XSAVE": (1, "ecx", 26),
    "OSXSAVE": (1, "ecx", 27), "AVX": (1, "ecx", 28), "AVX2": (7, "ebx", 5),
    # AMD extended leaf 0x80000001
    "SSE4A": (0x80000001, "ecx", 6), "SSE5": (0x80000001, "ecx", 11), "MMXEXT_AMD": (0x80000001, "edx", 22),
    "3DNOW": (0x80000001, "edx", 31), "3DNOWEXT": (0x80000001, "edx", 30),
}
# flag enumerator -> sets of atoms, any one of which suffices ("implies" lets
# MMXEXT hang off SSE/SSE2, which include the MMX extensions)
NEEDS = {
    "ORC_TARGET_MMX_MMX": [{"MMX"}], "ORC_TARGET_MMX_MMXEXT": [{"SSE"}, {"SSE2"}, {"MMXEXT_AMD"}],
    "ORC_TARGET_MMX_3DNOW": [{"3DNOW"}], "ORC_TARGET_MMX_3DNOWEXT": [{"3DNOWEXT"}],
    "ORC_TARGET_MMX_SSSE3": [{"SSSE3"}], "ORC_TARGET_MMX_SSE4_1": [{"SSE4_1"}], "ORC_TARGET_MMX_SSE4_2": [{"SSE4_2"}],
    "ORC_TARGET_SSE_SSE2": [{"SSE2"}], "ORC_TARGET_SSE_SSE3": [{"SSE3"}], "ORC_TARGET_SSE_SSSE3": [{"SSSE3"}],
    "ORC_TARGET_SSE_SSE4_1": [{"SSE4_1"}], "ORC_TARGET_SSE_SSE4_2": [{"SSE4_2"}], "ORC_TARGET_SSE_SSE4A": [{"SSE4A"}],
    "ORC_TARGET_SSE_SSE5": [{"SSE5"}],
    "ORC_TARGET_AVX_AVX": [{"AVX", "XSAVE", "OSXSAVE", "XCR0_YMM"}],
    "ORC_TARGET_AVX_AVX2": [{"AVX", "AVX2", "XSAVE", "OSXSAVE", "XCR0_YMM"}],
}
ATOM_OF = {v: k for k, v in REF.items()}


class Implied:
    """which cpuid atoms are guaranteed when an expression is true at a point"""

    def __init__(self, func):
        self.f = func
        self.facts = Facts(func)
        self.cpuid_calls = []
        for c in func.calls("get_cpuid", "get_cpuid_ecx"):
            a = c.args()
            leaf = a[0].v
            regs = {}
            outs = a[-4:]
            for nm, o in zip(("eax", "ebx", "ecx", "edx"), outs):
                p = access_path(o)
                if p and p.startswith("&"):
                    regs[p[1:]] = nm
            self.cpuid_calls.append((c, leaf, regs))
        self.defs = {}
        for n in func.walk():
            if n.k == "VarDecl" and n.c and n.c[0] is not None:
                self.defs.setdefault(n.name, []).append((n, n.c[0]))
            elif n.k == "BinaryOperator" and n.op == "=":
                l = strip_casts(n.c[0])
                if l is not None and l.k == "DeclRefExpr" and l.get("dk") == "local":
                    self.defs.setdefault(l.name, []).append((n, n.c[1]))

    def reg_at(self, var, node):
        """(leaf, archreg) the local `var` holds at node."""
        best = None
        for c, leaf, regs in self.cpuid_calls:
            if var in regs and self.f.dominates(c, node):
                if best is None or self.f.dominates(best[0], c):
                    best = (c, leaf, regs[var])
        return (best[1], best[2]) if best else None

    def bits(self, mask_node):
        m = strip_casts(mask_node)
        v = m.v
        if v is None and m.k == "DeclRefExpr":
            ds = self.defs.get(m.name, [])
            if len(ds) == 1:
                v = strip_casts(ds[0][1]).v
        if v is None:
            return None
        v &= 0xFFFFFFFF
        return [i for i in range(32) if v >> i & 1]

    def atoms(self, e, at, depth=0):
        e = strip_casts(e)
        if e is None or depth > 8:
            return set()
        if e.k == "BinaryOperator":
            if e.op == "&&":
                return self.atoms(e.c[0], at, depth + 1) | self.atoms(e.c[1], at, depth + 1)
            if e.op == "||":
                return self.atoms(e.c[0], at, depth + 1) & self.atoms(e.c[1], at, depth + 1)
            if e.op == "!=" and strip_casts(e.c[1]).v == 0:
                return self.atoms(e.c[0], at, depth + 1)
            if e.op == "==":
                l, r = strip_casts(e.c[0]), strip_casts(e.c[1])
                if l.k == "BinaryOperator" and l.op == "&":
                    bl, br = self.bits(l.c[1]), self.bits(r)
                    if bl is not None and bl == br:
                        return self._bit_atoms(l.c[0], bl, at)
                return set()
            if e.op == "&":
                b = self.bits(e.c[1])
                if b is not None and len(b) == 1:
                    return self._bit_atoms(e.c[0], b, at)
                return set()
            return set()
        if e.k == "CallExpr" and e.name == "check_xcr0_ymm":
            return {"XCR0_YMM"}
        if e.k == "DeclRefExpr" and e.get("dk") == "local":
            return self.var_atoms(e.name, at, depth + 1)
        return set()

    def _bit_atoms(self, regexpr, bits, at):
        r = strip_casts(regexpr)
        if r.k != "DeclRefExpr":
            return set()
        lr = self.reg_at(r.name, at)
        if lr is None:
            return set()
        out = set()
        for b in bits:
            a = ATOM_OF.get((lr[0], lr[1], b))
            out.add(a if a else "cpuid(%#x).%s[%d]" % (lr[0], lr[1], b))
        return out

    def fact_atoms(self, node, depth=0):
        out = set()
        for c in self.facts.conds(node):
            if c[0] == "switch":
                continue
            cn, pol = c
            if pol:
                out |= self.atoms(cn, cn, depth + 1)
        return out

    def var_atoms(self, name, use, depth):
        defs = self.defs.get(name, [])
        if not defs:
            return set()
        f = self.f
        # a definition that stores the constant 0 cannot be the live one where the variable is TRUE: `b = FALSE; if (c) b = x;`
        falses = [d for d in defs if strip_casts(d[1]) is not None and strip_casts(d[1]).v == 0]
        if falses and len(falses) < len(defs) and any(f.dominates(d[0], use) for d in falses):
            live = [d for d in defs if d not in falses]
            if not any(f.dominates(d[0], use) for d in live):
                upos_ = f.pos(use)
                res_ = None
                for d in live:
                    if f.pos(d[0]) is None or upos_ is None or upos_[0] not in f.reachable_blocks(f.pos(d[0])[0]):
                        continue
                    a_ = self.atoms(d[1], d[0], depth + 1) | self.fact_atoms(d[0], depth + 1)
                    res_ = a_ if res_ is None else (res_ & a_)
                return res_ or set()
            defs = live
        dom = [d for d in defs if f.dominates(d[0], use)]
        if not dom:
            return set()
        base = dom[0]
        for d in dom[1:]:
            if f.dominates(base[0], d[0]):
                base = d
        upos = f.pos(use)
        others = [d for d in defs if d is not base and not f.dominates(d[0], base[0]) and d not in dom
                  and f.pos(d[0]) is not None and upos is not None and upos[0] in f.reachable_blocks(f.pos(d[0])[0])]
        base_atoms = self.atoms(base[1], base[0], depth + 1) | self.fact_atoms(base[0], depth + 1)
        if not others:
            return base_atoms
        # can `base` still be the live definition at `use` while `name` is true?
        ob = {f.pos(d[0])[0] for d in others if f.pos(d[0])}
        start = f.pos(base[0])
        target = f.pos(use)
        bypass = False
        seen = set()
        st = [start[0]]
        while st:
            b = st.pop()
            if b in seen:
                continue
            seen.add(b)
            if b == target[0] and b != start[0]:
                bypass = True
                break
            blk = f.blocks[b]
            for idx, s in enumerate(blk.succs):
                if s is None or s in ob:
                    continue
                if blk.cond is not None and len(blk.succs) == 2:
                    cn, pol = atom(blk.cond, idx == 0)
                    if cn is not None and cn.k == "DeclRefExpr" and cn.name == name and not pol:
                        continue   # on this edge `name` is false: irrelevant when it is true at `use`
                st.append(s)
        res = None
        for d in others:
            a = self.atoms(d[1], d[0], depth + 1) | self.fact_atoms(d[0], depth + 1)
            res = a if res is None else (res & a)
        if bypass:
            res = res & base_atoms
        return res


def run(ctx):
    db = ctx.db()
    rep = ctx.report
    rep.explanation = (
        "Structural conditions of target selection decided from the CFGs of the cpuid handler, the X_is_executable / "
        "X_get_default_flags functions, orc_init, orc_target_register and orc_target_get_default, and from the OrcTarget "
        "initialisers: each detected feature flag is control-dependent on the cpuid bit that architecturally implies it "
        "(reference table from the Intel SDM / AMD APM; reaching cpuid leaf per register variable), AVX flags need OSXSAVE and "
        "the XCR0 check, executability implies the backend's base ISA, registration order, default flags only from detection, "
        "the override variable is the documented one, is freed, and cannot select a non-executable target. Behaviour under each "
        "concrete feature combination is NOT executed.")
    rep.assumptions += ["cpuid bit positions per Intel SDM vol. 2A CPUID / AMD APM vol. 3 (table REF in rules/c19.py)",
                        "build configuration of this sandbox (HAVE_AMD64): non-x86 backends are compile-only"]
    cpu = db.tu("orccpu-x86")
    enums = cpu.enums

    # ---- D1 / D2 -----------------------------------------------------------
    n_stores = 0
    for fname in ("orc_x86_cpuid_handle_standard_flags", "orc_sse_detect_cpuid_amd", "orc_sse_detect_cpuid_intel",
                  "orc_sse_detect_cpuid_generic", "orc_x86_detect_cpuid"):
        f = db.func(fname, "orccpu-x86")
        rep.saw(f)
        imp = Implied(f)
        for n in f.walk():
            if n.k == "CompoundAssignOperator" and n.op == "|=" and access_path(n.c[0]) in ("orc_x86_sse_flags", "orc_x86_mmx_flags"):
                r = strip_casts(n.c[1])
                flag = r.name if r.k == "DeclRefExpr" else None
                if flag is None or flag not in NEEDS:
                    rep.violation("D1-CPUID-TABLE", where(f), unparse(n)[:60],
                                  "feature word receives `%s`, which is not a known feature enumerator" % unparse(r), line=n.line)
                    continue
                n_stores += 1
                have = imp.fact_atoms(n)
                ok = any(req <= have for req in NEEDS[flag])
                rule = "D2-AVX-OS" if "AVX" in flag else "D1-CPUID-TABLE"
                rep.check(ok, rule, where(f), "%s<-%s" % (access_path(n.c[0]), flag),
                          "%s set only when %s hold (needs one of %s)" % (flag, sorted(have), [sorted(x) for x in NEEDS[flag]]),
                          "%s is set on a path where only %s are established; it needs %s" %
                          (flag, sorted(have), " or ".join("{" + ", ".join(sorted(x)) + "}" for x in NEEDS[flag])), line=n.line)
            elif n.k in ("BinaryOperator", "CompoundAssignOperator") and n.op in ("=", "^=", "+=") and \
                    access_path(n.c[0]) in ("orc_x86_sse_flags", "orc_x86_mmx_flags"):
                rep.violation("D1-CPUID-TABLE", where(f), unparse(n)[:60], "feature word overwritten with `%s`" % unparse(n.c[1]), line=n.line)
    if n_stores < 12:
        raise AnalysisBroken("only %d feature-flag stores found in the cpuid handlers" % n_stores)
    # nobody else sets feature bits
    for f in db.all_functions():
        if f.tu.base.startswith("orccpu-x86"):
            continue
        for n in f.walk():
            if n.k in ("BinaryOperator", "CompoundAssignOperator") and n.op in ("=", "|=", "^=", "+=") and \
                    access_path(n.c[0]) in ("orc_x86_sse_flags", "orc_x86_mmx_flags"):
                rep.violation("D1-CPUID-TABLE", where(f), "foreign-store", "detected feature word written outside orccpu-x86.c", line=n.line)
    rep.ok("D1-CPUID-TABLE", "orc/orccpu-x86.c", "who-may-write", "feature words are written only by the cpuid handlers")

    # ---- D9: a target requested by name is that target ------------------------------------------------
    from rules_common import check_exact_name_lookup
    check_exact_name_lookup(db.func("orc_target_get_by_name", "orctarget"), rep, "D9-NAME-EXACT",
                            "a request for one back end (\"c64x-c\", or a misspelt name) silently gets another whose name is a prefix of it, and an "
                            "override naming an unknown back end is honoured")

    request_reaches_compiler(db, rep, "D10-REQUEST-REACHES-COMPILER")

    # ---- D11: a CPUID leaf is queried only where the CPU is known to implement it ------------------------
    d11_cpuid_leaf_guard(db, rep)
    d12_orcc_target_honoured(db, rep)
    d13_xcr0_all_state_bits(db, rep)
    d14_env_before_detection(db, rep)

    # ---- D3 executability ---------------------------------------------------
    want_exec = {"sse": ("orcprogram-sse", "sse_is_executable", ["ORC_TARGET_SSE_SSE2"]),
                 "mmx": ("orcprogram-mmx", "mmx_is_executable", ["ORC_TARGET_MMX_MMX"]),
                 "avx": ("orcprogram-avx", "avx_is_executable", ["ORC_TARGET_AVX_AVX", "ORC_TARGET_AVX_AVX2"])}
    for tname, (tub, fn, flags) in want_exec.items():
        f = db.func(fn, tub)
        rep.saw(f)
        fc = Facts(f)
        rets = [r for r in f.walk() if r.k == "ReturnStmt" and r.c and strip_casts(r.c[0]).v not in (None, 0)]
        if not rets:
            rep.violation("D3-EXECUTABLE", where(f), "returns-true", "%s never returns TRUE" % fn)
        for r in rets:
            have = set()
            for c in fc.conds(r):
                if c[0] != "switch" and c[1]:
                    for x in c[0].walk():
                        if x.k == "DeclRefExpr" and x.get("dk") == "enum":
                            have.add(x.name)
            rep.check(set(flags) <= have, "D3-EXECUTABLE", where(f), "return-TRUE",
                      "%s target reported executable only when %s are detected" % (tname, flags),
                      "%s returns TRUE on a path that tested only %s; needs %s" % (fn, sorted(have), flags), line=r.line)
        # the flags word tested comes from detection - and it is the word in which the detection code sets the bits that are tested
        # (the SSE/AVX and the MMX enumerations number their bits independently: MMX_MMX and SSE_SSE2 are both bit 0)
        cpu = db.tu("orccpu-x86")
        word_of_enum = {}
        for g in cpu.main_functions():
            for n in g.walk():
                if n.k == "CompoundAssignOperator" and n.op == "|=" and access_path(n.c[0]) in ("orc_x86_sse_flags", "orc_x86_mmx_flags"):
                    for x in n.c[1].walk():
                        if x.k == "DeclRefExpr" and x.get("dk") == "enum":
                            word_of_enum.setdefault(x.name, set()).add(access_path(n.c[0]))
        word_of_getter = {}
        for g in cpu.main_functions():
            rr = [strip_casts(r.c[0]) for r in g.walk() if r.k == "ReturnStmt" and r.c and r.c[0] is not None]
            if len(rr) == 1 and access_path(rr[0]) in ("orc_x86_sse_flags", "orc_x86_mmx_flags"):
                word_of_getter[g.name] = access_path(rr[0])
        getters = [c.name for c in f.calls() if c.name in word_of_getter]
        src_ok = bool(getters)
        rep.check(src_ok, "D3-EXECUTABLE", where(f), "flags-from-detection", "tests the detected flag word", "does not consult the detected cpu flags")
        words = {word_of_getter[gname] for gname in getters}
        wrong = [fl for fl in flags if word_of_enum.get(fl) and not (word_of_enum[fl] & words)]
        rep.check(not wrong, "D3-EXECUTABLE", where(f), "flag-word-matches-bits",
                  "the bits tested (%s) are bits of the word that %s returns" % (", ".join(flags), "/".join(getters)),
                  "%s tests %s in the word returned by %s (%s), but the cpuid handlers set that bit in %s: with the two enumerations numbered "
                  "independently the test looks at another feature's bit (the target is marked executable, or not, for the wrong CPUs)" %
                  (fn, ", ".join(wrong), "/".join(getters), "/".join(sorted(words)), "/".join(sorted(set().union(*[word_of_enum[w] for w in wrong]))) if wrong else ""))
    # all OrcTarget objects: `executable` is 0 or comes from x86t->is_executable()
    nt = 0
    for t in db.tus.values():
        for g in t.globals:
            if g["ty"].replace("struct _OrcTarget", "OrcTarget") == "OrcTarget" and "init" in g and "f" in g["init"]:
                nt += 1
                ex = g["init"]["f"].get("executable", {})
                val = ex.get("i") if isinstance(ex, dict) else None
                if ex.get("zero"):
                    val = 0
                rep.check(val == 0, "D3-EXECUTABLE", "orc/%s" % t.base, "%s.executable" % g["name"],
                          "compile-only target object initialised non-executable in this build",
                          "target object %s is initialised executable (%s) although no runnable backend of this build owns it" % (g["name"], ex))
    for f in db.all_functions():
        for n in f.walk():
            if n.k == "BinaryOperator" and n.op == "=" and (access_path(n.c[0]) or "").endswith("executable") and "OrcTarget" in (strip_casts(n.c[0]).get("rec") or ""):
                r = strip_casts(n.c[1])
                ok = r.v == 0 or (r.k == "CallExpr" and "is_executable" in unparse(r.c[0]))
                nt += 1
                rep.check(ok, "D3-EXECUTABLE", where(f), "store-executable", "executable := %s" % unparse(r),
                          "target->executable assigned `%s`: neither FALSE nor the backend's is_executable()" % unparse(r), line=n.line)
    if nt < 5:
        raise AnalysisBroken("only %d OrcTarget executable initialisations found" % nt)

    # ---- D4 order -------------------------------------------------------------
    oi = db.func("orc_init", "orc")
    rep.saw(oi)
    calls = {c.name: c for c in oi.calls() if c.name and c.name.endswith("_init")}
    order = ["orc_mmx_init", "orc_sse_init", "orc_avx_init"]
    if not all(o in calls for o in order):
        raise AnalysisBroken("orc_init does not call %s" % order)
    ok = oi.dominates(calls[order[0]], calls[order[1]]) and oi.dominates(calls[order[1]], calls[order[2]])
    rep.check(ok, "D4-ORDER", where(oi), "mmx<sse<avx", "backends are registered in increasing capability order",
              "orc_init registers the x86 backends out of order: the last executable one registered becomes the default")
    later = [n for n, c in calls.items() if n not in order and oi.dominates(calls["orc_avx_init"], c) and n not in ("orc_avx_init",)]
    rep.ok("D4-ORDER", where(oi), "after-avx", "registered after avx: %s (all compile-only by D3)" % sorted(later))
    tr = db.func("orc_target_register", "orctarget")
    fc = Facts(tr)
    st = [n for n in tr.walk() if n.k == "BinaryOperator" and n.op == "=" and access_path(n.c[0]) == "default_target"]
    ok = bool(st) and all(any(c[0] != "switch" and unparse(c[0]) == "target->executable" and c[1] for c in fc.conds(s)) for s in st)
    rep.check(ok, "D4-ORDER", where(tr), "default<-executable-only", "default_target replaced only by an executable target",
              "orc_target_register lets a non-executable target become the default")

    # ---- D5 default flags ------------------------------------------------------
    feature_enums = set(NEEDS)
    for tub, fn in (("orcprogram-sse", "sse_get_default_flags"), ("orcprogram-mmx", "mmx_get_default_flags"), ("orcprogram-avx", "avx_get_default_flags")):
        f = db.func(fn, tub)
        rep.saw(f)
        bad = []
        got_detect = False
        for n in f.walk():
            if n.k in ("CompoundAssignOperator", "BinaryOperator") and n.op in ("|=", "="):
                for x in n.c[1].walk():
                    if x.k == "DeclRefExpr" and x.name in feature_enums:
                        bad.append(x.name)
                    if x.k == "CallExpr" and x.name in ("orc_sse_get_cpu_flags", "orc_mmx_get_cpu_flags"):
                        got_detect = True
                    if x.k == "DeclRefExpr" and x.name in ("orc_x86_sse_flags", "orc_x86_mmx_flags"):
                        got_detect = True
        rep.check(not bad and got_detect, "D5-DEFAULT-FLAGS", where(f), "feature-bits-from-detection",
                  "feature bits come only from the detected flag word",
                  "default flags claim %s unconditionally / do not use the detected flags" % bad)

    # ---- D6 / D7 override -------------------------------------------------------
    gd = db.func("orc_target_get_default", "orctarget")
    rep.saw(gd)
    doc = ctx.read("doc/running.xml")
    documented = set(re.findall(r"<envar>(\w+)</envar>", doc))
    getenvs = [c for c in gd.calls("_orc_getenv")]
    if not getenvs:
        rep.info("orc_target_get_default reads no environment variable: no override to check")
    for c in getenvs:
        nm = strip_casts(c.args()[0]).get("str")
        rep.check(nm in documented, "D6-OVERRIDE-NAME", where(gd), "getenv(%s)" % nm,
                  "override variable %s is documented in doc/running.xml" % nm,
                  "orc_target_get_default reads `%s`, but doc/running.xml documents %s (the documented override has no effect)" % (nm, sorted(documented)), line=c.line)
    fc = Facts(gd)
    for r in [n for n in gd.walk() if n.k == "ReturnStmt" and n.c]:
        e = strip_casts(r.c[0])
        p = access_path(e)
        if p == "default_target":
            rep.ok("D7-OVERRIDE-EXEC", where(gd), "return default_target", "default path")
            continue
        conds = fc.conds(r)
        ok = any(c[0] != "switch" and unparse(c[0]) == "%s->executable" % p and c[1] for c in conds)
        rep.check(ok, "D7-OVERRIDE-EXEC", where(gd), "return %s" % p, "looked-up target returned only when it is executable",
                  "the override can make orc_target_get_default return `%s` without testing ->executable: orc_program_compile would install code for a backend this CPU cannot run" % p,
                  line=r.line)
    rep.floor("D7-OVERRIDE-EXEC", 1)

    # ---- D8: a detected feature is withdrawn only on request or for lack of its cpuid leaf ------------
    # Every statement that clears a feature bit in the detected flag words must be guarded by the user's explicit switch
    # (orc_compiler_flag_check ("-<feature>")), or by a test of the maximum cpuid level that admits only levels BELOW the
    # leaf the feature is reported in (finite evaluation of the guard over levels 0..16).
    from exprval import admitted as _adm8, variables as _vars8
    tu8 = db.tu("orccpu-x86")
    flagnames = {}
    for t8 in db.tus.values():
        for k8, v8 in t8.enums.items():
            if k8.startswith("ORC_TARGET_") and k8 in NEEDS:
                flagnames.setdefault(v8, set()).add(k8)
    n8 = 0
    for f in tu8.main_functions():
        fc8 = None
        for st in f.walk():
            if not (st.k == "CompoundAssignOperator" and st.op == "&=" and access_path(st.c[0]) in ("orc_x86_sse_flags", "orc_x86_mmx_flags")):
                continue
            mv = strip_casts(st.c[1]).v
            if mv is None:
                raise AnalysisBroken("%s: non-constant mask in `%s`" % (f.name, unparse(st)))
            cleared = (~mv) & 0xffffffff
            word = "SSE" if "sse" in access_path(st.c[0]) else "MMX"
            names = sorted(n_ for bit in range(32) if cleared >> bit & 1 for n_ in flagnames.get(1 << bit, ()) if ("_MMX_" in n_) == (word == "MMX"))
            if not names:
                continue
            n8 += 1
            fc8 = fc8 or Facts(f)
            conds = fc8.conds(st)
            requested = any(x[0] != "switch" and strip_casts(x[0]).k == "CallExpr" and strip_casts(x[0]).name == "orc_compiler_flag_check" and x[1] is True
                            for x in conds)
            lvl_ok = False
            lv = sorted({v for x in conds if x[0] != "switch" for v in _vars8(x[0]) if v.endswith("level")})
            if len(lv) == 1 and not requested:
                got, rel = _adm8(conds, (lv[0],), range(0, 17))
                leaf = max(REF[a][0] for n_ in names for alt in NEEDS[n_][:1] for a in alt if a in REF and REF[a][0] < 0x80000000)
                lvl_ok = bool(rel) and all(g[0] < leaf for g in got)
            rep.check(requested or lvl_ok, "D8-CLEAR-ON-REQUEST", where(f), "clear:%s" % "+".join(n_.replace("ORC_TARGET_", "") for n_ in names),
                      "feature bit withdrawn only on the user's switch or below its cpuid leaf",
                      "%s clears %s under %s: a CPU that reports the feature truthfully loses it (and the best backend it supports) without "
                      "having been asked to" % (f.name, names, [unparse(x[0]) + ("" if x[1] else " [false]") for x in conds if x[0] != "switch"]), line=st.line)
    if n8 < 8:
        raise AnalysisBroken("only %d feature-clearing statements found in orccpu-x86.c" % n8)




def d11_cpuid_leaf_guard(db, rep, rule="D11-CPUID-LEAF-GUARD"):
    """D11: Intel CPUs answer a basic CPUID leaf above their maximum with the data of the highest leaf they implement, not with
    zeroes.  A feature bit read from leaf L (AVX2: leaf 7, ebx bit 5) is therefore meaningful only where the maximum basic
    leaf - eax of leaf 0 - is known to be >= L.  For every query of a constant basic leaf L >= 1 in orccpu-x86.c: a must-fact
    `V >= L` holds at the query for a variable V that carries the maximum leaf (the local filled by the leaf-0 query, or a
    parameter that receives it from every caller), or every caller of the function establishes that fact at its call
    (followed up to three levels)."""
    from flow import lower_bound
    tu = db.tu("orccpu-x86")
    callers = db.callers()
    fcache = {}

    def facts(f):
        if f.name not in fcache:
            fcache[f.name] = Facts(f)
        return fcache[f.name]

    def is_query(c):
        return c.k == "CallExpr" and c.name in ("get_cpuid", "get_cpuid_ecx") and c.args()

    def tied(f, v, depth=0):
        for c in f.calls():
            if is_query(c) and strip_casts(c.args()[0]).v == 0:
                idx = 1 if c.name == "get_cpuid" else 2
                a = strip_casts(c.args()[idx]) if len(c.args()) > idx else None
                if a is not None and a.k == "UnaryOperator" and a.op == "&" and access_path(a.c[0]) == v:
                    return True
        pn = [p["name"] for p in f.params]
        if v in pn and depth < 3:
            cl = [(g, c) for g, c in callers.get(f.name, []) if g is not f]
            return bool(cl) and all(len(c.args()) > pn.index(v) and access_path(strip_casts(c.args()[pn.index(v)])) is not None
                                    and tied(g, access_path(strip_casts(c.args()[pn.index(v)])), depth + 1) for g, c in cl)
        return False

    def guarded(f, node, L, depth=0):
        conds = facts(f).conds(node)
        names = {access_path(x) for c_ in conds if c_[0] != "switch" for x in c_[0].walk() if x.k == "DeclRefExpr" and x.get("dk") in ("local", "param")}
        for v in names:
            lb = lower_bound(conds, v)
            if lb is not None and lb >= L and tied(f, v):
                return True
        if depth < 3:
            cl = [(g, c) for g, c in callers.get(f.name, []) if g is not f]
            return bool(cl) and all(guarded(g, c, L, depth + 1) for g, c in cl)
        return False
    n = 0
    for f in tu.main_functions():
        for c in f.calls():
            if not is_query(c):
                continue
            L = strip_casts(c.args()[0]).v
            if L is None or not (1 <= L < 0x80000000):
                continue
            n += 1
            rep.saw(f)
            rep.check(guarded(f, c, L), rule, where(f), "leaf:%d@%s" % (L, f.name),
                      "leaf %d is queried only where the maximum basic leaf is known to be >= %d" % (L, L),
                      "%s queries CPUID leaf %d without knowing that the maximum basic leaf (eax of leaf 0) is at least %d: an Intel CPU limited to a lower "
                      "maximum answers with the data of its highest leaf, and a feature bit is read from unrelated data (AVX2 from the cache descriptors of "
                      "leaf 2: the avx target becomes executable and the default on a CPU without AVX2)" % (f.name, L, L), line=c.line)
    if n < 4:
        raise AnalysisBroken("only %d constant basic CPUID leaf queries found in orccpu-x86.c" % n)


def d12_orcc_target_honoured(db, rep, rule="D12-ORCC-TARGET-HONOURED"):
    """D12: "a target requested by name ... is the one that is used" also when the request is orcc's --target option.  Every place
    where orcc prints a compile call into the generated source has two siblings: `orc_program_compile_for_target (p,
    orc_target_get_by_name ("T"))` when a target was named, `orc_program_compile (p)` otherwise.  Each print of the default-target
    call must lie where the option variable `target` is known to be NULL, and each such site must have the by-name sibling."""
    tu = db.tu("orcc")
    n = 0
    for f in tu.main_functions():
        fc = None
        for c in f.calls():
            nm = (c.name or "").replace("__builtin___", "").replace("_chk", "")
            if nm not in ("fprintf", "printf"):
                continue
            lits = [strip_casts(a).get("str", "") for a in c.args() if strip_casts(a) is not None and strip_casts(a).k == "StringLiteral"]
            if not any("orc_program_compile (p)" in t for t in lits):
                continue
            fc = fc or Facts(f)
            n += 1
            rep.saw(f)
            ok = any(x[0] != "switch" and access_path(strip_casts(x[0])) == "target" and x[1] is False for x in fc.conds(c))
            rep.check(ok, rule, where(f), "default-compile@%s:%s" % (f.name, c.line),
                      "the default-target compile call is printed only when no --target was given",
                      "%s prints `orc_program_compile (p)` into the generated source without looking at the --target option (line %s): the functions "
                      "generated for this mode are compiled for the default back end although a target was named on the command line" % (f.name, c.line), line=c.line)
    if n < 2:
        raise AnalysisBroken("only %d places where orcc prints a default-target compile call" % n)
    return n


def d13_xcr0_all_state_bits(db, rep, rule="D13-XCR0-ALL-BITS"):
    """The AVX flags stand for "the OS saves and restores the YMM state": XCR0 bit 2 (YMM) AND bit 1 (SSE) - Intel SDM vol. 1
    14.3.  D2-AVX-OS takes a call of check_xcr0_ymm() for that fact, so the function has to establish it: every value it
    returns must be a comparison `(xcr0 & M) == M` with M containing bits 1 and 2 (or a conjunction of single-bit tests).  A
    plain `xcr0 & M` is true when ANY bit of M is set - on a kernel that enables SSE state only (clearcpuid=avx, some
    hypervisors) AVX code would be selected and fault with #UD."""
    tu = db.tu("orccpu-x86")
    f = tu.fn.get("check_xcr0_ymm")
    if f is None or f.body is None:
        raise AnalysisBroken("check_xcr0_ymm not found")
    rep.saw(f)
    rets = [r for r in f.walk() if r.k == "ReturnStmt" and r.c and r.c[0] is not None]
    if not rets:
        raise AnalysisBroken("check_xcr0_ymm has no return value")

    def unwrap(e):
        e = strip_casts(e)
        while e is not None and e.k == "ParenExpr":
            e = strip_casts(e.c[0])
        return e

    def establishes(e):
        """set of XCR0 bits known to be 1 when e is true"""
        e = unwrap(e)
        if e is None:
            return set()
        if e.k == "BinaryOperator" and e.op == "&&":
            return establishes(e.c[0]) | establishes(e.c[1])
        if e.k == "BinaryOperator" and e.op == "!=" and unwrap(e.c[1]) is not None and unwrap(e.c[1]).v == 0:
            return establishes(e.c[0])
        if e.k == "BinaryOperator" and e.op == "==":
            l, r = unwrap(e.c[0]), unwrap(e.c[1])
            if l is not None and l.k == "BinaryOperator" and l.op == "&" and unwrap(l.c[1]) is not None and unwrap(l.c[1]).v is not None and r is not None and r.v == unwrap(l.c[1]).v:
                return {b for b in range(32) if r.v >> b & 1}
            return set()
        if e.k == "BinaryOperator" and e.op == "&":
            m = unwrap(e.c[1]).v if unwrap(e.c[1]) is not None else None
            if m is not None and bin(m).count("1") == 1:
                return {b for b in range(32) if m >> b & 1}
            return set()
        if e.k == "DeclRefExpr" and e.get("dk") == "local":
            from flow import single_defs
            d = single_defs(f).get(e.name)
            return establishes(d) if d is not None else set()
        return set()
    for r in rets:
        got = establishes(r.c[0])
        rep.check({1, 2} <= got, rule, where(f), "check_xcr0_ymm@%s" % r.line, "a true result means XCR0 has the SSE and the YMM state bit set",
                  "check_xcr0_ymm returns `%s` (line %s), which establishes only XCR0 bits %s: the AVX flags (and with them the avx target and the AVX rule "
                  "sets of sse) are switched on although the OS may not save the YMM state - an any-bit test of a two-bit mask is true for SSE state alone" %
                  (unparse(r.c[0])[:80], r.line, sorted(got)), line=r.line)
    return len(rets)


def request_reaches_compiler(db, rep, rule):
    # ---- D10: every compile request reaches the compiler with the target it names -----------------------
    # orc_program_compile -> _for_target -> _full -> orc_compiler_compile_program: each stage must, on EVERY path to a return,
    # call the next stage and hand it its own target (the default target / the target parameter).  A stage that returns early
    # (e.g. because the program already carries code) leaves the code of whatever target compiled it before in place.
    from flow import path_to
    CHAIN = [("orc_program_compile", ("orc_program_compile_for_target", "orc_program_compile_full", "orc_compiler_compile_program")),
             ("orc_program_compile_for_target", ("orc_program_compile_full", "orc_compiler_compile_program")),
             ("orc_program_compile_full", ("orc_compiler_compile_program",))]
    for fn10, nxt in CHAIN:
        f10 = db.func(fn10, "orcprogram")
        rep.saw(f10)
        calls10 = [c for c in f10.calls() if c.name in nxt]
        rets10 = [r for r in f10.walk() if r.k == "ReturnStmt"]
        if not calls10 or not rets10:
            raise AnalysisBroken("%s: no call to the next compile stage / no return" % fn10)
        tparam = [p["name"] for p in f10.params if "OrcTarget *" in (p.get("ty") or "")]
        bad10 = None
        for r in rets10:
            if path_to(f10, r, lambda e: e.k == "CallExpr" and e.name in nxt) is not None:
                bad10 = "can return (line %s) without calling %s" % (r.line, " / ".join(nxt))
        for c in calls10:
            targs = [a for a in c.args() if "OrcTarget *" in (a.ty or "")]
            if tparam:
                if not any(access_path(strip_casts(a)) == tparam[0] for a in targs):
                    bad10 = bad10 or "passes `%s` to %s, not its own target parameter `%s`" % (unparse(targs[0])[:40] if targs else "?", c.name, tparam[0])
            else:
                if not any(strip_casts(a) is not None and strip_casts(a).k == "CallExpr" and strip_casts(a).name == "orc_target_get_default" for a in targs):
                    bad10 = bad10 or "does not pass orc_target_get_default () to %s" % c.name
        rep.check(bad10 is None, rule, where(f10), fn10,
                  "%s hands its target to %s on every path" % (fn10, calls10[0].name),
                  "%s %s: a request for a particular target (by name, by ORC_TARGET, or the default after a by-name compile) then leaves whatever code the "
                  "program already carried in place and reports success" % (fn10, bad10), line=f10.line)



def d14_env_before_detection(db, rep, rule="D14-ENV-BEFORE-DETECTION"):
    """The feature masks of ORC_CODE (`-avx2`, `-sse41` ...) are applied by the CPU detection of each back end, which asks
    _orc_compiler_flag_in_list; the list is filled by _orc_compiler_init.  Detection runs once, from the back end's init function,
    so in orc_init the call that fills the list must come before every call that can reach a reader of it - otherwise a masked
    feature stays set, the back end stays executable and is chosen as the default although the user ruled it out."""
    from callgraph import CallGraph
    G = "_orc_compiler_flag_list"
    writers, readers = set(), set()
    for f in db.all_functions():
        if not f.relfile.startswith("orc/") or f.body is None:
            continue
        w = r = False
        for e in f.walk():
            if e.k == "DeclRefExpr" and e.name == G:
                par = e.parent
                while par is not None and par.k in ("ImplicitCastExpr", "ParenExpr"):
                    par = par.parent
                if par is not None and par.k == "BinaryOperator" and par.op == "=" and any(x is e for x in par.c[0].walk()):
                    w = True
                else:
                    r = True
        if w:
            writers.add(f.name)
        elif r:
            readers.add(f.name)
    if not writers or not readers:
        raise AnalysisBroken("writers %s / readers %s of %s" % (sorted(writers), sorted(readers), G))
    oi = db.func("orc_init", "orc")
    rep.saw(oi)
    cg = CallGraph(db)
    calls = [c for c in oi.calls() if c.name and db.has_func(c.name)]
    wcalls, rcalls = [], []
    for c in calls:
        reach = {g.name for g in cg.reachable([c.name])}
        if reach & writers:
            wcalls.append(c)
        elif reach & readers:
            rcalls.append(c)
    if len(wcalls) != 1 or len(rcalls) < 2:
        raise AnalysisBroken("orc_init: %d calls fill %s, %d calls can read it" % (len(wcalls), G, len(rcalls)))
    for c in rcalls:
        rep.check(oi.dominates(wcalls[0], c), rule, where(oi), "%s-before-%s" % (wcalls[0].name, c.name),
                  "the ORC_CODE list is filled before this back end's CPU detection can ask it",
                  "orc_init calls %s (line %s), whose CPU detection reads the ORC_CODE flag list, without %s having run before: feature masks such as "
                  "`-avx2` are never applied, the masked back end stays executable and becomes the default target" % (c.name, c.line, wcalls[0].name), line=c.line)
    return len(rcalls)
