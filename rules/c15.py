"""C15 — a program written as .orc text is the program built through the API (thin structural part).

  D1 directive table -> handler -> API constructor, with the size / name / value tokens in the
     parameters of those names
  D2 x2/x4 prefixes map to their flags, the flag word and the operand order reach
     orc_program_append_str_n unchanged
  D3 the constant-reuse lookup of orc_program_add_constant_str compares values at their full 64-bit width
Literal parsing, independence of spacing/comments/line endings: NOT decided.
"""
import re
from facts import AnalysisBroken, access_path, init_rows, strip_casts, unparse
from flow import Facts, single_defs
from rules_common import where

# .orc directive -> (API function it denotes, {parameter name: token index})
REFERENCE = {
    ".source": ("orc_program_add_source", {"size": 1, "name": 2}),
    ".dest": ("orc_program_add_destination", {"size": 1, "name": 2}),
    ".accumulator": ("orc_program_add_accumulator", {"size": 1, "name": 2}),
    ".const": ("orc_program_add_constant_str", {"size": 1, "name": 2, "value": 3}),
    ".temp": ("orc_program_add_temporary", {"size": 1, "name": 2}),
    ".param": ("orc_program_add_parameter", {"size": 1, "name": 2}),
    ".longparam": ("orc_program_add_parameter_int64", {"size": 1, "name": 2}),
    ".floatparam": ("orc_program_add_parameter_float", {"size": 1, "name": 2}),
    ".doubleparam": ("orc_program_add_parameter_double", {"size": 1, "name": 2}),
    ".m": ("orc_program_set_constant_m", {"m": 1}),
    ".backup": ("orc_program_set_backup_name", {"name": 1}),
    ".function": ("orc_program_set_name", {"name": 1}),
}
SUBKEYS = {".n": {"mult": "orc_program_set_n_multiple", "min": "orc_program_set_n_minimum", "max": "orc_program_set_n_maximum"},
           ".flags": {"2d": "orc_program_set_2d"}}


def token_index(f, sd, e):
    """index k if expression e denotes line->tokens[k] (possibly through strtol / a single-def local)."""
    e = strip_casts(e)
    for _ in range(4):
        if e is None:
            return None
        if e.k == "DeclRefExpr" and e.name in sd:
            e = strip_casts(sd[e.name])
            continue
        if e.k == "DeclRefExpr" and e.get("dk") == "local":
            # several definitions: a literal default plus the token
            defs = []
            for n in f.walk():
                if n.k == "BinaryOperator" and n.op == "=" and access_path(n.c[0]) == e.name:
                    defs.append(strip_casts(n.c[1]))
            nonlit = [d for d in defs if d is not None and d.k != "StringLiteral"]
            if len(nonlit) == 1:
                e = nonlit[0]
                continue
        if e.k == "CallExpr" and e.name in ("strtol", "strtoul", "atoi", "_strtoll"):
            e = strip_casts(e.args()[0])
            continue
        if e.k == "CallExpr" and e.name in f.tu.fn and f.tu.fn[e.name].body is not None:
            # a conversion helper of the parser: a function that hands one of its parameters to strtol & co. and returns the result
            g = f.tu.fn[e.name]
            pn = [p_["name"] for p_ in g.params]
            conv = [c for c in g.calls() if c.name in ("strtol", "strtoul", "strtoll", "atoi", "_strtoll") and c.args()
                    and strip_casts(c.args()[0]) is not None and strip_casts(c.args()[0]).k == "DeclRefExpr" and strip_casts(c.args()[0]).name in pn]
            if len(conv) == 1 and pn.index(strip_casts(conv[0].args()[0]).name) < len(e.args()):
                e = strip_casts(e.args()[pn.index(strip_casts(conv[0].args()[0]).name)])
                continue
        break
    if e is not None and e.k == "ArraySubscriptExpr" and (access_path(e.c[0]) or "").endswith("->tokens"):
        return e.c[1].v
    return None


def run(ctx):
    db = ctx.db()
    rep = ctx.report
    rep.explanation = (
        "Mapping from .orc syntax to the construction API, decided from the directive table and the handlers of orcparse.c: every "
        "directive of the reference mapping is in dirs[] and its handler calls exactly the API constructor that directive denotes, "
        "passing the size token in the parameter named size and the identifier (and value) tokens in the parameters named name (value), "
        "roles being taken from the callee's own prototype; .n/.flags sub-keywords select their setters under a strcmp with that keyword; "
        "x2/x4 select ORC_INSTRUCTION_FLAG_X2/X4 and the flag word and operands (in increasing token order) reach "
        "orc_program_append_str_n unchanged. The line tokenizer is interpreted abstractly over the character classes NUL/blank/tab/comma/#/other "
        "(every next character is any class; helpers followed through their CFGs): no token starts on NUL, a blank or '#', none starts on a "
        "comma that only blanks separate from the previous token, a token's text holds no blank or comma, every token is terminated, and "
        "nothing is read behind the end of the line (D9). Literal VALUES and line-ending handling outside the tokenizer are not decided here.")
    rep.assumptions += ["reference mapping REFERENCE in rules/c15.py (from the .orc language description in doc/ and the tutorial)"]
    tu = db.tu("orcparse")
    g = None
    for gg in tu.globals:
        if gg["name"] == "dirs" and "init" in gg:
            g = gg
    if g is None:
        raise AnalysisBroken("dirs[] not found")
    rows = [r for r in init_rows(g) if isinstance(r, dict) and isinstance(r.get("name"), str)]
    table = {r["name"]: (r["handler"][1] if isinstance(r["handler"], tuple) else None) for r in rows}
    protos = {p["name"]: [q["name"] for q in p["params"]] for p in tu.protos}
    for d, (api, roles) in sorted(REFERENCE.items()):
        h = table.get(d)
        if h is None:
            rep.violation("D1-DIRECTIVES", "orc/orcparse.c", d, "directive %s is missing from dirs[]" % d)
            continue
        f = tu.fn[h]
        rep.saw(f)
        sd = single_defs(f)
        calls = [c for c in f.calls() if c.name and c.name.startswith("orc_program_") and c.name not in ("orc_program_new",)]
        ctor = [c for c in calls if c.name == api]
        others = [c.name for c in calls if c.name != api and (c.name.startswith("orc_program_add_") or c.name.startswith("orc_program_set_"))
                  and c.name not in ("orc_program_set_var_alignment", "orc_program_set_type_name", "orc_program_set_line")]
        rep.check(len(ctor) == 1 and not others, "D1-DIRECTIVES", where(f), "%s->%s" % (d, api),
                  "%s is handled by %s, which calls %s" % (d, h, api),
                  "%s is handled by %s, which calls %s instead of exactly one %s" % (d, h, sorted({c.name for c in calls}), api))
        if len(ctor) != 1:
            continue
        params = protos.get(api)
        if not params:
            raise AnalysisBroken("no prototype for %s" % api)
        args = ctor[0].args()
        for role, tok in sorted(roles.items()):
            if role not in params:
                # e.g. constant_m's parameter is called m
                if role == "m" and "m" not in params:
                    role_idx = len(params) - 1
                else:
                    raise AnalysisBroken("%s has no parameter named %s (%s)" % (api, role, params))
            else:
                role_idx = params.index(role)
            got = token_index(f, sd, args[role_idx])
            rep.check(got == tok, "D1-DIRECTIVES", where(f), "%s:%s<-token[%d]" % (d, role, tok),
                      "parameter `%s` of %s receives token %d" % (role, api, tok),
                      "%s passes token %s as `%s` of %s; the syntax puts it in token %d" % (h, got, role, api, tok), line=ctor[0].line)
    # sub-keywords
    for d, subs in SUBKEYS.items():
        h = table.get(d)
        if h is None:
            rep.violation("D1-DIRECTIVES", "orc/orcparse.c", d, "directive %s is missing from dirs[]" % d)
            continue
        f = tu.fn[h]
        rep.saw(f)
        fc = Facts(f)
        for kw, api in sorted(subs.items()):
            cs = list(f.calls(api))
            ok = False
            for c in cs:
                for cn, pol in [(x[0], x[1]) for x in fc.conds(c) if x[0] != "switch"]:
                    if cn.k == "CallExpr" and cn.name == "strcmp" and any(strip_casts(a).get("str") == kw for a in cn.args()) and pol is False:
                        ok = True
                    if cn.k == "BinaryOperator" and cn.op == "==" and "strcmp" in unparse(cn) and '"%s"' % kw in unparse(cn) and pol:
                        ok = True
            rep.check(ok, "D1-DIRECTIVES", where(f), "%s %s->%s" % (d, kw, api), "`%s %s` selects %s" % (d, kw, api),
                      "`%s %s` does not reach %s under a comparison with \"%s\"" % (d, kw, api, kw))
    # alignment: set_var_alignment gets the variable the add call returned
    for h in ("orc_parse_handle_source", "orc_parse_handle_dest"):
        f = tu.fn[h]
        for c in f.calls("orc_program_set_var_alignment"):
            a = c.args()
            v = access_path(a[1])
            src = None
            for n in f.walk():
                if n.k == "BinaryOperator" and n.op == "=" and access_path(n.c[0]) == v:
                    src = strip_casts(n.c[1])
            ok = src is not None and src.k == "CallExpr" and src.name in ("orc_program_add_source", "orc_program_add_destination")
            rep.check(ok, "D1-DIRECTIVES", where(f), "align->var", "alignment is set on the variable just added", "alignment applied to `%s`, which is not the result of the add call" % v, line=c.line)

    # ---- D2 ------------------------------------------------------------------
    ho = tu.fn["orc_parse_handle_opcode"]
    rep.saw(ho)
    fc = Facts(ho)
    for pre, flag in (("x2", "ORC_INSTRUCTION_FLAG_X2"), ("x4", "ORC_INSTRUCTION_FLAG_X4")):
        fv = db.macro_int(flag) if flag not in tu.enums else tu.enums[flag]
        sets = [n for n in ho.walk() if n.k == "CompoundAssignOperator" and n.op == "|=" and access_path(n.c[0]) == "flags"
                and strip_casts(n.c[1]).v == fv]
        ok = False
        for s in sets:
            for cn, pol in [(x[0], x[1]) for x in fc.conds(s) if x[0] != "switch"]:
                if cn.k == "CallExpr" and cn.name == "strcmp" and any(strip_casts(a).get("str") == pre for a in cn.args()) and pol is False:
                    ok = True
        rep.check(ok and len(sets) == 1, "D2-PREFIX", where(ho), "%s->%s" % (pre, flag), "prefix %s sets %s" % (pre, flag),
                  "prefix \"%s\" does not set exactly %s" % (pre, flag))
    ap = list(ho.calls("orc_program_append_str_n"))
    if len(ap) != 1:
        raise AnalysisBroken("orc_parse_handle_opcode: expected one orc_program_append_str_n call")
    a = ap[0].args()
    params = protos.get("orc_program_append_str_n", [])
    rep.check(unparse(a[params.index("flags")]) == "flags" and unparse(a[params.index("argv")]) == "args" and
              unparse(a[params.index("name")]) == "line->tokens[offset]", "D2-PREFIX", where(ho), "append-args",
              "opcode name, flag word and operand vector are passed through unchanged",
              "orc_program_append_str_n is called with %s" % [unparse(x) for x in a])
    # operands copied in increasing order: args[j] = line->tokens[i] inside a loop with i++, j++
    ok = False
    for lp in ho.walk():
        if lp.k == "ForStmt":
            inc = unparse(lp.c[2]).replace(" ", "")
            body = lp.c[3]
            st = [n for n in body.walk() if n.k == "BinaryOperator" and n.op == "=" and unparse(n.c[0]) == "args[j]" and unparse(n.c[1]) == "line->tokens[i]"]
            if st and "i++" in inc and "j++" in inc:
                ok = True
    rep.check(ok, "D2-PREFIX", where(ho), "operand-order", "operands are copied in increasing token order (args[j] = tokens[i]; i++, j++)",
              "operand tokens are no longer copied to args[] in increasing order")
    rep.floor("D1-DIRECTIVES", 30)

    # ---- D5: the parser's view of an opcode's operands covers every destination and source slot --------
    # Operands are written "destinations, then sources"; an opcode may have up to ORC_STATIC_OPCODE_N_DEST destinations.
    # opcode_n_args and opcode_arg_size must therefore look at dest_size[0..N_DEST-1] and src_size[0..N_SRC-1] (a counted
    # loop over the whole range, or every index explicitly): a helper that assumes one destination gives the literal of a
    # two-destination opcode (splitwb, splitql, splitlw) the wrong size.
    from loops import counted
    ND, NS = db.macro_int("ORC_STATIC_OPCODE_N_DEST"), db.macro_int("ORC_STATIC_OPCODE_N_SRC")
    for hn in ("opcode_n_args", "opcode_arg_size"):
        h = tu.fn.get(hn)
        if h is None:
            raise AnalysisBroken("orcparse.c: %s not found" % hn)
        for field, N in (("dest_size", ND), ("src_size", NS)):
            covered = set()
            for sub in h.walk():
                if sub.k != "ArraySubscriptExpr" or strip_casts(sub.c[0]) is None or strip_casts(sub.c[0]).k != "MemberExpr" or strip_casts(sub.c[0]).name != field:
                    continue
                ix = strip_casts(sub.c[1])
                if ix.v is not None:
                    covered.add(ix.v)
                    continue
                if ix.k == "DeclRefExpr":
                    for lp in sub.ancestors():
                        if lp.k == "ForStmt":
                            cl = counted(lp)
                            if cl and cl["var"] == ix.name and cl["first"][0] is None and cl["last"][0] is None:
                                lo, hi = sorted((cl["first"][1], cl["last"][1]))
                                covered |= set(range(lo, hi + 1))
            rep.check(set(range(N)) <= covered, "D5-OPERAND-SLOTS", where(h), "%s:%s" % (hn, field),
                      "%s looks at %s[0..%d]" % (hn, field, N - 1),
                      "%s looks only at %s%s of the %d %s slots: operands of opcodes with more than one destination get the wrong position/size "
                      "(the literal source of splitwb/splitql is created with size 0 -> 4)" % (hn, field, sorted(covered), N, field), line=h.line)

    d6_token_cursor(db, rep)
    d7_line_copy(db, rep)
    d8_name_exact(db, rep)
    # D9: the line tokenizer, interpreted abstractly over the character classes of the .orc syntax (lib/tokscan.py)
    import tokscan
    tokscan.check(db, rep, "D9-TOKENIZER", where)
    d10_checker_readonly(db, rep)
    d11_valid_index_accepted(db, rep)
    d12_const_name_kept(db, rep)
    d13_declared_name_first(db, rep)
    # a directive number parses to the same value whatever was parsed before it (shared with C14 D20)
    import importlib as _il15
    _il15.import_module("rules.c14").errno_cleared_before_judged(db, rep, "D14-ERRNO-CLEARED")
    d15_narrow_constant_is_int(db, rep)
    d16_opcode_lookup_exact(db, rep)

    # ---- D4: the synthetic name of an inline literal identifies the literal ----------------------------
    # orc_program_append_str_n finds operands BY NAME.  The name made up for an inline literal must therefore be an
    # injective function of (operand size, literal text): it has to contain the literal token itself (%s of the same
    # token that is passed as the value) and the size.  A name derived from the parsed number (%g, %d ...) merges
    # different constants that print alike.
    calls4 = [c for c in ho.calls("orc_program_add_constant_str")]
    if len(calls4) != 1:
        raise AnalysisBroken("orc_parse_handle_opcode: expected one orc_program_add_constant_str call")
    a4 = calls4[0].args()
    pr4 = protos.get("orc_program_add_constant_str", [])
    valtok, namearg, sizearg = unparse(a4[pr4.index("value")]), strip_casts(a4[pr4.index("name")]), unparse(a4[pr4.index("size")])
    fmts = [c for c in ho.calls() if c.name in ("sprintf", "snprintf") and access_path(c.args()[0]) == access_path(namearg) and ho.dominates(c, calls4[0])]
    ok4, why4 = False, "the name passed for an inline literal is `%s`, not a buffer formatted in this function" % unparse(namearg)
    if fmts:
        fc_ = fmts[-1]
        fa = fc_.args()
        fi = 1 if fc_.name == "sprintf" else 2
        fmt = strip_casts(fa[fi]).get("str", "") if strip_casts(fa[fi]).k == "StringLiteral" else ""
        convs = re.findall(r"%[-0-9.l]*([a-zA-Z])", fmt)
        rest = [unparse(x) for x in fa[fi + 1:]]
        has_tok = any(cv == "s" and rest[k] == valtok for k, cv in enumerate(convs) if k < len(rest))
        has_size = sizearg in rest
        ok4 = has_tok and has_size
        why4 = "format `%s` with arguments %s" % (fmt, rest)
    rep.check(ok4, "D4-LITERAL-NAME", where(ho), "inline-literal-name", "the synthetic constant name contains the operand size and the literal token itself",
              "the name under which an inline literal is registered does not contain the literal's own text and size (%s): two different constants "
              "can get the same name, and operands are looked up by name" % why4, line=calls4[0].line)

    # ---- D3: constants are merged only when their full 64-bit values agree ----------------------------
    # orc_program_add_constant_str reuses an existing constant slot for a literal of equal size and value.  The comparison
    # that decides "equal value" has to be made at the width of OrcVariable.value (64 bits) on both sides; if one side has
    # gone through a 32-bit variable or parameter, a later literal is silently replaced by an earlier, different one.
    from widen import _ity
    ptu = db.tu("orcprogram")
    acs = ptu.fn.get("orc_program_add_constant_str")
    if acs is None:
        raise AnalysisBroken("orc_program_add_constant_str not found")
    scope = [acs] + [ptu.fn[c.name] for c in acs.calls() if c.name in ptu.fn and ptu.fn[c.name].static]
    n3 = 0
    for g in scope:
        for n in g.walk():
            if n.k != "BinaryOperator" or n.op not in ("==", "!="):
                continue
            sides = [strip_casts(x) for x in n.c[:2]]
            isval = [x is not None and x.k == "MemberExpr" and x.name == "i" and strip_casts(x.c[0]) is not None and strip_casts(x.c[0]).k == "MemberExpr" and
                     strip_casts(x.c[0]).name == "value" for x in sides]
            if not any(isval):
                continue
            n3 += 1
            bad = [x for x, v in zip(sides, isval) if not v and x is not None and x.v is None and (_ity(x) is None or _ity(x)[0] < 64)]
            rep.check(not bad, "D3-CONST-IDENTITY", where(g), "value-compare@%s" % g.name,
                      "constant values are compared at 64 bits on both sides",
                      "%s compares an OrcVariable value with `%s` of type %s: the 64-bit literal has been narrowed, so two different "
                      "constants can be taken for the same one and merged" % (g.name, unparse(bad[0])[:40] if bad else "", bad[0].get("ty") if bad else ""), line=n.line)
    if n3 < 1:
        raise AnalysisBroken("no value comparison found in the constant-reuse code of orc_program_add_constant_str")


def d6_token_cursor(db, rep, names=("D6-TOKEN-CURSOR", "D6b-TOKEN-ONCE"), only=None, floor=3):
    """D6: a handler that walks the tokens of a line with `for (i = ..; i < n_tokens; i++)` must look at every token it
    steps over.  Along every path through the loop body the total advance A of the index (explicit increments plus the
    header's) and the set R of token positions read (tokens[i + k], relative to the index at body entry) must satisfy
    {0 .. A-1} <= R.  A token stepped over without being read - an attribute value consumed twice, a type name skipped -
    cannot influence the program that is built."""
    from flow import linear
    from loops import counted
    tu = db.tu("orcparse")
    n = 0
    for f in tu.main_functions():
        if only is not None and not only(f):
            continue
        for loop in [x for x in f.walk() if x.k == "ForStmt"]:
            cl = counted(loop)
            if not cl or cl["dir"] != "asc":
                continue
            var = cl["var"]
            body = loop.c[3]
            subs = [s for s in (body.walk() if body is not None else []) if s.k == "ArraySubscriptExpr" and (access_path(s.c[0]) or "").endswith("tokens")]
            rel = []
            for s in subs:
                l = linear(s.c[1])
                if l and l[0] == var:
                    rel.append(s)
            if not rel:
                continue
            inc = loop.c[2]
            inc_ids = {x.id for x in inc.walk()}
            start = None
            for b, blk in f.blocks.items():
                if blk.cond is not None and blk.cond.id in {x.id for x in loop.c[1].walk()}:
                    for i, s in enumerate(blk.succs):
                        if s is not None and f.edge_kind(b, i) is True:
                            start = s
            if start is None:
                raise AnalysisBroken("%s: loop body entry not found (line %s)" % (f.name, loop.line))
            relids = {s.id: linear(s.c[1])[1] for s in rel}
            # a token handed to a conversion or a constructor is CONSUMED there (a comparison with a keyword only looks at it)
            COMPARE = ("strcmp", "strncmp", "strcasecmp", "strncasecmp", "memcmp", "strlen")
            valuse = set()
            for s in rel:
                a = s.parent
                while a is not None and a.k != "CallExpr" and a.id != body.id:
                    a = a.parent
                if a is not None and a.k == "CallExpr" and (a.name or "") not in COMPARE:
                    valuse.add(s.id)
            results = []
            consumed_paths = []
            seen = set()
            stack = [(start, 0, frozenset(), frozenset())]
            while stack:
                b, delta, reads, cons = stack.pop()
                if (b, delta, reads, cons) in seen or len(seen) > 20000:
                    continue
                seen.add((b, delta, reads, cons))
                blk = f.blocks[b]
                done = False
                for e in blk.el:
                    if e.id in inc_ids:
                        if e is strip_casts(inc) or e.id == inc.id:
                            results.append((delta + 1, reads))
                            consumed_paths.append((delta + 1, cons))
                            done = True
                            break
                        continue
                    if e.id in relids:
                        reads = reads | {delta + relids[e.id]}
                        if e.id in valuse:
                            cons = cons | {(delta + relids[e.id], e.line)}
                    elif e.k == "UnaryOperator" and e.op in ("++", "--") and access_path(e.c[0]) == var:
                        delta += 1 if e.op == "++" else -1
                    elif e.k == "CompoundAssignOperator" and e.op in ("+=", "-=") and access_path(e.c[0]) == var and strip_casts(e.c[1]).v is not None:
                        delta += strip_casts(e.c[1]).v * (1 if e.op == "+=" else -1)
                    elif e.k == "BinaryOperator" and e.op == "=" and access_path(e.c[0]) == var:
                        l = linear(e.c[1])
                        if l and l[0] == var:
                            delta += l[1]
                        else:
                            done = True            # index recomputed: not a token walk of this shape
                            break
                if done or blk.noreturn:
                    continue
                for s in blk.succs:
                    if s is not None:
                        stack.append((s, delta, reads, cons))
            if not results:
                continue
            n += 1
            rep.saw(f)
            bad = [(a, sorted(r)) for a, r in results if not set(range(a)) <= r]
            rep.check(not bad, names[0], where(f), "loop@%s" % var,
                      "%d paths through the token loop: every token stepped over is read" % len(results),
                      "%s: on a path through the loop over line->tokens[] the index advances by %d but only the tokens at relative positions %s are "
                      "looked at: token %s is skipped unread, so an attribute following it (e.g. the type name after `align N`) is silently dropped" %
                      ((f.name, bad[0][0], bad[0][1], sorted(set(range(bad[0][0])) - set(bad[0][1]))) if bad else ("", 0, [], [])), line=loop.line)
            twice = [(a, sorted(c)) for a, c in consumed_paths if any(pos >= a for pos, _ in c)]
            rep.check(not twice, names[1], where(f), "loop@%s" % var,
                      "every token whose value is consumed (passed to a conversion or constructor) is also stepped over",
                      "%s: on a path through the loop over line->tokens[] the token at relative position %s is consumed as a value (line %s) but the "
                      "index only advances by %d: the next iteration interprets the same token again, as a keyword or as the plain value "
                      "(`.n max 16` also sets the constant n to 16)" %
                      ((f.name, [p_ for p_, _ in twice[0][1] if p_ >= twice[0][0]][0], [l_ for p_, l_ in twice[0][1] if p_ >= twice[0][0]][0], twice[0][0]) if twice else ("", 0, 0, 0)),
                      line=loop.line)
    if n < floor:
        raise AnalysisBroken("only %d token loops found in orcparse.c" % n)


def d7_line_copy(db, rep):
    """D7: the parser tokenises a private copy of the current line.  Every copy taken from the text cursor (parser->p) must
    take the whole line - its length is parser->line_length as determined by the line scanner, not a clamped or otherwise
    reduced value - or tokens beyond the cut silently disappear and the result depends on spacing."""
    from flow import linear, single_defs
    tu = db.tu("orcparse")
    COPY = {"_strndup": (0, 1), "strndup": (0, 1), "memcpy": (1, 2), "memmove": (1, 2), "strncpy": (1, 2)}
    n = 0
    for f in tu.main_functions():
        sd = None
        for c in f.calls():
            if c.name not in COPY:
                continue
            si, li = COPY[c.name]
            a = c.args()
            src = linear(a[si])
            if not src or not src[0] or not src[0].endswith("->p") or "parser" not in src[0] and f.params and src[0].split("->")[0] != f.params[0]["name"]:
                continue
            sd = sd or single_defs(f)
            ln = linear(a[li], lambda nm: sd.get(nm))
            base = src[0][:-len("->p")]
            n += 1
            rep.saw(f)
            ok = ln is not None and ln[0] == base + "->line_length" and ln[1] == -src[1]
            rep.check(ok, "D7-LINE-COPY", where(f), "%s(%s)" % (c.name, unparse(a[li])[:30]),
                      "the copy of the current line takes all %s->line_length bytes" % base,
                      "%s copies `%s` bytes from the text cursor, not the whole line (%s->line_length): what lies beyond is dropped without an error, so a "
                      "long but valid line (wide padding, deep indentation) parses to a different program" %
                      (f.name, unparse(sd.get(access_path(strip_casts(a[li])), a[li]))[:80], base), line=c.line)
        # formatted copies: snprintf (dst, N, "%.*s", len, parser->p) keeps min (N - 1, len) characters
        for c in f.calls():
            nm = (c.name or "").replace("__builtin___", "").replace("_chk", "")
            if nm not in ("snprintf", "sprintf"):
                continue
            a = c.args()
            # __builtin___snprintf_chk (dst, n, flag, objsize, fmt, ...) vs snprintf (dst, n, fmt, ...)
            fi = next((i_ for i_, x in enumerate(a) if strip_casts(x) is not None and strip_casts(x).k == "StringLiteral"), None)
            if fi is None:
                continue
            fmt = strip_casts(a[fi]).get("str", "")
            rest = a[fi + 1:]
            srcs = [(i_, x) for i_, x in enumerate(rest) if (access_path(strip_casts(x)) or "").endswith("->p") and "parser" in (access_path(strip_casts(x)) or "")]
            if not srcs or "s" not in fmt:
                continue
            from flow import upper_bound
            sd = sd or single_defs(f)
            base = access_path(strip_casts(srcs[0][1]))[:-len("->p")]
            n += 1
            rep.saw(f)
            cap = strip_casts(a[1]).v if nm == "snprintf" and len(a) > 1 else None
            prec = rest[srcs[0][0] - 1] if "%.*s" in fmt and srcs[0][0] >= 1 else None
            pl = linear(prec, lambda nm_: sd.get(nm_)) if prec is not None else None
            whole = pl is not None and pl[0] == base + "->line_length" and pl[1] == 0
            fcx = Facts(f)
            ub = upper_bound(fcx.conds(c), base + "->line_length")
            ok = whole and cap is not None and ub is not None and ub <= cap - 1
            rep.check(ok, "D7-LINE-COPY", where(f), "%s(%s)" % (nm, fmt[:12]),
                      "the formatted copy of the current line keeps all %s->line_length characters (at most %s, buffer %s)" % (base, ub, cap),
                      "%s copies the current line with %s into a buffer of %s bytes where the line can be %s characters long%s: the last character(s) of a "
                      "line of exactly that length are dropped without an error, so `... 1234` parses as `123` when the spacing makes the line that long" %
                      (f.name, nm, cap, ub if ub is not None else "any number of", "" if whole else " (and the precision is not the line length)"), line=c.line)
    if n < 1:
        raise AnalysisBroken("no copy out of the parser's text cursor found in orcparse.c")


def d11_valid_index_accepted(db, rep):
    """D11: the per-variable setters the handlers call with the index an add_* constructor returned (`align N`, a type name)
    must act on EVERY valid index.  Index 0 is ORC_VAR_D1 - the first destination - as well as the value the constructors
    return for a refused variable, so a guard such as `var <= 0` silently drops the attribute of d1 only.  For each function
    of orcprogram.c that takes (OrcProgram *, int var, ...) and accesses program->vars[var], the access must be reachable with
    var = 0 and with var = ORC_N_VARIABLES-1 (conditions that do not depend on var are taken both ways)."""
    from exprval import reachable_under
    tu = db.tu("orcprogram")
    N = db.macro_int("ORC_N_VARIABLES")
    n = 0
    for f in tu.main_functions():
        ints = [p["name"] for p in f.params if (p.get("ty") or "") == "int"]
        progs = [p["name"] for p in f.params if "OrcProgram *" in (p.get("ty") or "")]
        if not ints or not progs:
            continue
        for x in f.walk():
            if x.k != "ArraySubscriptExpr" or access_path(x.c[0]) != progs[0] + "->vars":
                continue
            ix = strip_casts(x.c[1])
            if ix is None or ix.k != "DeclRefExpr" or ix.name not in ints or ix.get("dk") != "param":
                continue
            n += 1
            rep.saw(f)
            lost = [v for v in (0, N - 1) if not reachable_under(f, {ix.name: v}, lambda e, x=x: e.id == x.id)]
            rep.check(not lost, "D11-VALID-INDEX-ACCEPTED", where(f), "%s:vars[%s]" % (f.name, ix.name),
                      "%s reaches program->vars[%s] for %s = 0 and %d" % (f.name, ix.name, ix.name, N - 1),
                      "%s does nothing for %s = %s although that is a valid variable index (0 is ORC_VAR_D1, the first destination): the attribute the "
                      "text gives that variable (`.dest 2 d1 align 16`) is dropped without an error while the API-built program has it" %
                      (f.name, ix.name, " and ".join(str(v) for v in lost)), line=x.line)
            break
    if n < 2:
        raise AnalysisBroken("only %d indexed variable setters found in orcprogram.c" % n)


def d10_checker_readonly(db, rep):
    """D10: a function of the parser that CHECKS a finished program (takes the OrcProgram, reports through orc_parse_add_error,
    calls no constructor) must leave it as built: any field it sets is state the construction API would not have set, and the
    compiler starts from a copy of the program's variables (vars[].used marks an earlier definition there)."""
    from facts import ASSIGN_OPS, root_var
    tu = db.tu("orcparse")
    n = 0
    for f in tu.main_functions():
        pp = [p["name"] for p in f.params if "OrcProgram *" in (p.get("ty") or "") and "**" not in (p.get("ty") or "")]
        if not pp or not any(c.name == "orc_parse_add_error" for c in f.calls()):
            continue
        if any((c.name or "").startswith("orc_program_") and not (c.name or "").startswith("orc_program_get") and not (c.name or "").startswith("orc_program_find") for c in f.calls()):
            continue                        # builds the program: not a checker
        n += 1
        rep.saw(f)
        bad = None
        # local pointers into the program (OrcVariable *v = program->vars + i)
        for x in f.walk():
            src = None
            if x.k == "VarDecl" and "*" in (x.ty or "") and x.c and x.c[0] is not None:
                src, nm = x.c[0], x.name
            elif x.k == "BinaryOperator" and x.op == "=" and strip_casts(x.c[0]) is not None and strip_casts(x.c[0]).k == "DeclRefExpr" and "*" in (strip_casts(x.c[0]).ty or ""):
                src, nm = x.c[1], strip_casts(x.c[0]).name
            if src is not None and strip_casts(src) is not None and strip_casts(src).k != "CallExpr":
                rv = root_var(src)
                if rv is not None and rv.name in pp and "char" not in (x.ty or "" if x.k == "VarDecl" else strip_casts(x.c[0]).ty or ""):
                    pp = pp + [nm]
        for x in f.walk():
            lhs = None
            if x.k in ("BinaryOperator", "CompoundAssignOperator") and x.op in ASSIGN_OPS:
                lhs = x.c[0]
            elif x.k == "UnaryOperator" and x.op in ("++", "--"):
                lhs = x.c[0]
            if lhs is None:
                continue
            ap = access_path(strip_casts(lhs)) or unparse(lhs)
            rv = root_var(lhs)
            if rv is not None and rv.name in pp and ("->" in ap or "[" in ap):
                bad = (x, ap)
                break
        rep.check(bad is None, "D10-CHECKER-READONLY", where(f), f.name,
                  "%s reads the program it checks and stores nothing into it" % f.name,
                  "%s, which only checks the parsed program, stores into `%s`: the parsed program then differs from the one built through the API "
                  "(the compiler copies program->vars[]; a set `used` flag there makes every first write of a temporary a re-definition)" %
                  (f.name, bad[1] if bad else ""), line=bad[0].line if bad else None)
    if n < 1:
        raise AnalysisBroken("no program-checking function (OrcProgram * parameter, reports with orc_parse_add_error) found in orcparse.c")


def d8_name_exact(db, rep):
    """D8: instructions refer to their operands BY NAME, and declarations are distinct if their names differ in any byte.  The
    lookup must therefore return a variable only where an exact comparison (strcmp (...) == 0) of the whole name has succeeded;
    a folded, prefix or hashed comparison resolves an operand to another declared variable."""
    f = db.func("orc_program_find_var_by_name", "orcprogram")
    rep.saw(f)
    fc = Facts(f)
    rets = [r for r in f.walk() if r.k == "ReturnStmt" and r.c and r.c[0] is not None and strip_casts(r.c[0]).v is None]
    if not rets:
        raise AnalysisBroken("orc_program_find_var_by_name: no return of a found index")
    for r in rets:
        exact = False
        how = []
        for c in fc.conds(r):
            if c[0] == "switch":
                continue
            n, pol = c
            for e in n.walk():
                if e.k == "CallExpr":
                    how.append(e.name)
                    if e.name == "strcmp" and pol is False and any("name" in unparse(a) for a in e.args()):
                        exact = True
        rep.check(exact, "D8-NAME-EXACT", where(f), "return@%s" % r.line,
                  "a variable is returned only where strcmp (name, ...) == 0",
                  "orc_program_find_var_by_name returns a variable without an exact comparison of the whole name (comparisons on the path: %s): two "
                  "variables whose names differ (in case, in a suffix ...) are taken for one, and an error-free parse builds other operands than written" % how, line=r.line)


def const_slot_shared_by_size(db, rep, rule):
    """A constant slot may be shared only between requests of the SAME size: the slot's size decides how the constant is
    serialised (4 bytes, sign-extended on reading) and, in the generated C, declared.  The early return of an existing slot in
    orc_program_add_constant_str must lie under a must-fact `vars[..].size == size`; sharing across widths lets a 64-bit
    opcode read a constant stored as 4 bytes - the bytecode round trip changes bits 63..32 of 0xff00ff00 (shared by C13/C04)."""
    f = db.func("orc_program_add_constant_str", "orcprogram")
    rep.saw(f)
    fc = Facts(f)
    rets = [r for r in f.walk() if r.k == "ReturnStmt" and r.c and r.c[0] is not None and strip_casts(r.c[0]).v is None
            and any(y.k == "DeclRefExpr" and y.get("dk") == "local" for y in r.c[0].walk())
            and any(a.k in ("ForStmt", "WhileStmt") for a in r.ancestors())]
    if not rets:
        raise AnalysisBroken("orc_program_add_constant_str: return of a shared slot not found")
    for r in rets:
        ok = False
        for c_ in fc.conds(r):
            if c_[0] == "switch" or not c_[1]:
                continue
            e = strip_casts(c_[0])
            if e.k == "BinaryOperator" and e.op == "==" and {unparse(strip_casts(e.c[0])).split(".")[-1].split("->")[-1], unparse(strip_casts(e.c[1])).split(".")[-1].split("->")[-1]} == {"size"}:
                ok = True
        rep.check(ok, rule, where(f), "shared-slot-size@%s" % r.line,
                  "an existing slot is returned only for a request of the same size",
                  "orc_program_add_constant_str can return the slot of an equal constant of ANOTHER size (line %s): the slot's size is what the bytecode "
                  "writer and the C back end go by, so a literal first used as a 4-byte operand and then by a 64-bit opcode is stored in 4 bytes and comes "
                  "back sign-extended - `andq d, s, 0xff00ff00` computes with 0xffffffffff00ff00 after a round trip" % r.line, line=r.line)


def d12_const_name_kept(db, rep, rule="D12-CONST-NAME-KEPT"):
    """D12: instructions refer to a declared constant BY NAME.  orc_program_add_constant_str shares the slot of an equal
    constant; when it returns an existing slot the name the caller asked for must not get lost: the early return of a slot
    found by value must lie under the condition that the names are equal, or that the requested name is exactly the spelling the
    parser makes up for a literal of this size and value text (rebuilt there from size and value - a first-character test would
    take a declared `_uno` for a literal).  Otherwise `.const 4 c1 5` / `.const 4 c2 5` / `addl d, s, c2` - a well-formed
    source - is rejected with "bad operand c2"."""
    f0 = db.func("orc_program_add_constant_str", "orcprogram")
    rep.saw(f0)
    tu = db.tu("orcprogram")

    def shared_returns(g):
        return [r for r in g.walk() if r.k == "ReturnStmt" and r.c and r.c[0] is not None and strip_casts(r.c[0]).v is None
                and any(y.k == "DeclRefExpr" and y.get("dk") == "local" for y in r.c[0].walk())
                and any(a.k in ("ForStmt", "WhileStmt") for a in r.ancestors())]
    nm0 = [p_["name"] for p_ in f0.params if "char" in (p_.get("ty") or "")][-1]
    others0 = [p_["name"] for p_ in f0.params if p_["name"] != nm0 and p_["name"] != f0.params[0]["name"]]

    def generated_spelling(buf):
        """`buf` is a local character array of orc_program_add_constant_str filled by one (s)nprintf whose arguments include the size
        and the value text: the name the parser makes up for a literal, rebuilt from what identifies the literal"""
        for c in f0.calls():
            if c.name in ("snprintf", "sprintf", "__builtin_snprintf", "__builtin___snprintf_chk") and c.args() and access_path(strip_casts(c.args()[0])) == buf:
                txt = " ".join(unparse(x) for x in c.args()[1:])
                return all(o in txt for o in others0)
        return False
    # the search loop itself, or - when it has been moved into a helper of the same file - the helper, with its parameters
    # bound to what orc_program_add_constant_str passes
    sites = []
    if shared_returns(f0):
        sites.append((f0, nm0, {}))
    else:
        for c in f0.calls():
            g = tu.fn.get(c.name or "")
            if g is None or g.body is None or not shared_returns(g):
                continue
            bind = {}
            for p_, a_ in zip(g.params, c.args()):
                bind[p_["name"]] = access_path(strip_casts(a_)) or unparse(a_)
            nmg = next((k for k, v in bind.items() if v == nm0), None)
            sites.append((g, nmg, bind))
    if not sites:
        raise AnalysisBroken("orc_program_add_constant_str: return of a shared slot not found")

    def flat(e, op):
        e = strip_casts(e)
        while e is not None and e.k == "ParenExpr":
            e = strip_casts(e.c[0])
        if e is not None and e.k == "BinaryOperator" and e.op == op:
            return flat(e.c[0], op) + flat(e.c[1], op)
        return [e]
    for f, nm, bind in sites:
        def name_equality(d):
            """disjunct `strcmp (name, X) == 0` (or !strcmp) with X the existing slot's name or the generated literal spelling"""
            d = strip_casts(d)
            call = None
            if d is not None and d.k == "BinaryOperator" and d.op == "==" and strip_casts(d.c[1]).v == 0:
                call = strip_casts(d.c[0])
            elif d is not None and d.k == "UnaryOperator" and d.op == "!":
                call = strip_casts(d.c[0])
            if call is None or call.k != "CallExpr" or call.name not in ("strcmp", "__builtin_strcmp") or len(call.args()) != 2:
                return False
            ar = [strip_casts(x) for x in call.args()]
            if nm is None or not any(access_path(x) == nm for x in ar):
                return False
            other = [x for x in ar if access_path(x) != nm]
            if not other:
                return False
            ot = access_path(other[0]) or unparse(other[0])
            return ot.endswith(".name") or ot.endswith("->name") or generated_spelling(bind.get(ot, ot))
        for r in shared_returns(f):
            ok = False
            for x in f.walk():
                if x.k == "IfStmt" and x.c[1] is not None and any(y.id == r.id for y in x.c[1].walk()):
                    conj = [c_ for c_ in flat(x.c[0], "&&") if c_ is not None and nm is not None and any(y.k == "DeclRefExpr" and y.name == nm for y in c_.walk())]
                    if conj and all(all(name_equality(d) for d in flat(c_, "||")) for c_ in conj):
                        ok = True
            rep.check(ok, rule, where(f), "shared-slot@%s" % r.line,
                      "an existing slot is returned only for the same name (or for a literal's made-up name)",
                      "%s returns the slot of an equal constant (line %s) whatever name was asked for: a constant declared under a "
                      "second name is never recorded, and the instruction that uses that name is refused (`bad operand`), although the source is well-formed" % (f.name, r.line),
                      line=r.line)


def d13_declared_name_first(db, rep, rule="D13-DECLARED-NAME-FIRST"):
    """D13: an operand that is the name of a declared variable denotes that variable - the construction API resolves operands by
    name and knows no literals.  The parser recognises literals by what strtod() can start to read, which includes `inf`, `nan`,
    `infinity` and every name beginning like them; the branch that turns an operand into a constant must therefore lie under a
    must-fact that no variable of that name is declared (a failed by-name lookup)."""
    tu = db.tu("orcparse")
    f = tu.fn.get("orc_parse_handle_opcode")
    if f is None:
        raise AnalysisBroken("orc_parse_handle_opcode not found")
    rep.saw(f)
    fc = Facts(f)
    calls = [c for c in f.calls("orc_program_add_constant_str")]
    if not calls:
        raise AnalysisBroken("orc_parse_handle_opcode: literal branch (orc_program_add_constant_str) not found")
    for c in calls:
        ok = False
        for c_ in fc.conds(c):
            if c_[0] == "switch":
                continue
            for y in c_[0].walk():
                if y.k == "CallExpr" and (y.name or "") in ("orc_program_find_var_by_name",):
                    ok = True
        rep.check(ok, rule, where(f), "literal-branch@%s" % c.line,
                  "an operand becomes a constant only where no declared variable has that name",
                  "orc_parse_handle_opcode turns an operand into a literal constant without first looking it up among the declared variables: a variable "
                  "named `inf`, `nan` or `infinity` is silently replaced by a float constant (`addf d1, inf, s2` adds +infinity), and one named `info` is "
                  "refused as a bad constant, while the API-built program uses the variables", line=c.line)



def d15_narrow_constant_is_int(db, rep, rule="D15-NARROW-CONST-IS-INT"):
    """D15: through the API a constant narrower than 8 bytes is an `int` (orc_program_add_constant (program, size, int value,
    name)) - and so it is in the bytecode, which stores 4 bytes and sign-extends on reading.  The text constructor parses
    with strtoll: `.const 4 c 0x80000000` would keep +2147483648 in the 64-bit value field where the API-built twin holds
    INT_MIN, and a 64-bit opcode (`addq d, s, c`) computes different results for the two.  The value stored by
    orc_program_add_constant_str for size < 8 must pass through a conversion to a signed 32-bit type before the slot is shared
    or created."""
    from widen import INT_TYPES
    f = db.func("orc_program_add_constant_str", "orcprogram")
    rep.saw(f)
    fc = Facts(f)
    narrows = []
    for st in f.walk():
        if st.k == "BinaryOperator" and st.op == "=" and (access_path(st.c[0]) or "").endswith(".value.i"):
            r = st.c[1]
            while r is not None and r.k in ("ParenExpr", "ImplicitCastExpr"):
                r = r.c[0]
            if r is not None and r.k == "CStyleCastExpr":
                t = INT_TYPES.get((r.get("toty") or "").replace("const ", "").strip())
                if t is not None and t[0] == 32 and t[1]:
                    guarded = any(cd[0] != "switch" and "size" in unparse(cd[0]) for cd in fc.conds(st))
                    if guarded:
                        narrows.append(st)
    finals = [r for r in f.walk() if r.k == "ReturnStmt" and r.c and r.c[0] is not None and strip_casts(r.c[0]).v is None and
              not any(a.k in ("ForStmt", "WhileStmt", "IfStmt") for a in r.ancestors())]
    if not finals:
        raise AnalysisBroken("orc_program_add_constant_str: the return of the new slot was not found")
    loops_ = [x for x in f.walk() if x.k in ("ForStmt", "WhileStmt")]
    ok = bool(narrows) and all(any(nw.line < lp.line for nw in narrows) for lp in loops_ if "n_const_vars" in unparse(lp.c[1] if lp.k == "ForStmt" and len(lp.c) > 1 and lp.c[1] is not None else lp))
    rep.check(ok, rule, where(f), "narrow-constant", "a constant narrower than 8 bytes is stored as the int the API and the bytecode make of it",
              "orc_program_add_constant_str keeps the 64-bit result of strtoll for a constant of size < 8: `.const 4 c 0x80000000` holds +2147483648 where "
              "orc_program_add_constant (int) and the bytecode reader hold -2147483648, and `addq d, s, c` differs between the parsed program and its "
              "API-built or bytecode twin (generated C vs JIT/emulation in orcc's output)", line=finals[0].line)


def d16_opcode_lookup_exact(db, rep, rule="D16-OPCODE-LOOKUP-EXACT"):
    """D16: the construction API finds an opcode by its whole name (orc_opcode_find_by_name: strcmp).  The parser decides the size
    of a literal operand from the opcode it looks up for the line BEFORE it appends the instruction by name: its lookup
    (orc_parse_find_opcode) must be that same exact lookup - a delegation to it, or a return that lies under strcmp (...) == 0.  A
    shortcut that accepts a prefix (`swapw` after `swapwl`) gives the literal the size the OTHER opcode's operand has, and the
    parsed program's constant differs from the API-built one."""
    from flow import Facts
    f = db.tu("orcparse").fn.get("orc_parse_find_opcode")
    if f is None or f.body is None:
        raise AnalysisBroken("orc_parse_find_opcode not found")
    rep.saw(f)
    fc = Facts(f)
    rets = [r for r in f.walk() if r.k == "ReturnStmt" and r.c and r.c[0] is not None]
    if not rets:
        raise AnalysisBroken("orc_parse_find_opcode: no return")
    n = 0
    for r in rets:
        e = strip_casts(r.c[0])
        if e is None or e.v is not None:
            continue
        n += 1
        ok = e.k == "CallExpr"
        if not ok:
            # the value was fetched by a lookup call in the statement just before (x = lookup (); return x;)
            p_ = f.pos(r)
            ap = access_path(e)
            if p_ is not None and ap:
                prev = [x for x in f.blocks[p_[0]].el[:p_[1]] if x.k == "BinaryOperator" and x.op == "=" and access_path(x.c[0]) == ap]
                ok = bool(prev) and strip_casts(prev[-1].c[1]) is not None and strip_casts(prev[-1].c[1]).k == "CallExpr" and \
                    not any(cd[0] != "switch" and any(y.k == "CallExpr" and (y.name or "").startswith("strn") for y in cd[0].walk()) for cd in fc.conds(r))
        if not ok:
            ok = any(cd[0] != "switch" and cd[1] is False and any(y.k == "CallExpr" and y.name in ("strcmp", "__builtin_strcmp") for y in cd[0].walk()) for cd in fc.conds(r))
        rep.check(ok, rule, where(f), "return@%s" % r.line, "the parser's opcode lookup is the exact by-name lookup",
                  "orc_parse_find_opcode returns `%s` (line %s) without an exact comparison of the whole name: a line whose opcode is a prefix of a remembered "
                  "one (`swapw` after `swapwl`) gets the other opcode's operand sizes - the literal becomes a constant of another size than in the "
                  "API-built program" % (unparse(r.c[0])[:40], r.line), line=r.line)
    return n
