"""C18 — float opcodes: flush-to-zero mode and explicit flushing (thin structural part).

  D1 the MXCSR mask OR-ed in by set_mxcsr is FTZ|DAZ (0x8040)
  D2 every opcode that computes in float/double carries a FLOAT flag, the only thing
     that switches the mode on in orc_x86_compile
  D3 the reference paths flush explicitly: ORC_DENORMAL / ORC_DENORMAL_DOUBLE wraps the
     float inputs (and, for arithmetic, the result) in the emulator
  D4 every float emit macro of the x86 back ends selects the table row whose mnemonic is the macro's own
IEEE results, NaN propagation, saturation of conversions, bit-for-bit agreement: NOT decided.
"""
from facts import AnalysisBroken, access_path, init_rows, strip_casts, unparse
from flow import Facts
from rules_common import where

ARITH = {p + s for p in ("add", "sub", "mul", "div", "sqrt") for s in ("f", "d")} | {"convdf"}
INONLY = {p + s for p in ("max", "min", "cmpeq", "cmplt", "cmple") for s in ("f", "d")} | {"convfd"}
NOFLUSH = {"convfl": "float->int conversion: a denormal converts to 0 either way", "convdl": "double->int conversion",
           "convlf": "int->float: no denormal input", "convld": "int->double", "convwf": "int16->float",
           "orf": "bitwise", "andf": "bitwise"}


def run(ctx):
    db = ctx.db()
    rep = ctx.report
    rep.explanation = (
        "Three structural conditions of the flush-to-zero contract: the constant OR-ed into MXCSR is FTZ|DAZ; every opcode whose "
        "reference implementation touches the float/double members of its operands carries ORC_STATIC_OPCODE_FLOAT_SRC/_DEST — the only "
        "input of orc_program_has_float, which alone decides whether orc_x86_compile emits set_mxcsr; in the emulator (and therefore, by "
        "C04's staleness check, in the C generator's templates) every float operand of the arithmetic, min/max, comparison and "
        "float<->double conversion opcodes is read through ORC_DENORMAL/ORC_DENORMAL_DOUBLE and arithmetic results are flushed again "
        "(per-family table confirmed by reading). All numerical content of the property is NOT decided.")
    rep.assumptions += ["per-family flushing table ARITH/INONLY/NOFLUSH in rules/c18.py"]
    # ---- D1 ------------------------------------------------------------------
    for tub, fn in (("orcsse", "orc_sse_set_mxcsr"), ("orcavx", "orc_avx_set_mxcsr")):
        f = db.func(fn, tub)
        rep.saw(f)
        masks = [c.args()[3].v for c in f.calls() if c.name and "cpuinsn_imm_reg" in c.name and c.args()[1].v == db.enum("ORC_X86_or_imm32_rm")]
        rep.check(masks == [0x8040], "D1-MODE-CONSTANT", where(f), "or-mask", "MXCSR |= 0x8040 (FTZ bit 15, DAZ bit 6)",
                  "mask OR-ed into MXCSR is %s, not 0x8040" % [hex(m) if m is not None else None for m in masks])
        # D1b: the load of the new MXCSR is unconditional.  The emitter is straight-line C; an EMITTED branch placed before the
        # ldmxcsr whose label is emitted after it makes the mode switch depend on the caller's MXCSR.
        def rowsof(c):
            return [x.name[len("ORC_X86_"):] for a in c.args()[1:2] for x in a.walk() if x.k == "DeclRefExpr" and (x.name or "").startswith("ORC_X86_")]
        calls = sorted({c.id: c for c in f.calls()}.values(), key=lambda c: (c.line, c.id))
        ld = [c for c in calls if "ldmxcsr" in rowsof(c)]
        if not ld:
            raise AnalysisBroken("%s: no emitted ldmxcsr" % fn)
        labels = {strip_casts(c.args()[2]).v: c.line for c in calls if c.name == "orc_x86_emit_cpuinsn_label" and len(c.args()) > 2}
        skipping = [c for c in calls if c.name == "orc_x86_emit_cpuinsn_branch" and c.line < ld[0].line and labels.get(strip_casts(c.args()[2]).v, -1) > ld[0].line]
        verdict = None
        for br in skipping:
            cond = (rowsof(br) or ["?"])[0]
            prev = [c for c in calls if c.line < br.line and c.name and "cpuinsn" in c.name and c.name != "orc_x86_emit_cpuinsn_label"]
            fam = (rowsof(prev[-1]) or ["?"])[0].split("_")[0] if prev else "?"
            fam2 = (rowsof(prev[-2]) or ["?"])[0].split("_")[0] if len(prev) > 1 else "?"
            imm = next((a.v for a in (prev[-1].args() if prev else []) if a.v == 0x8040), None)
            imm2 = next((a.v for a in (prev[-2].args() if len(prev) > 1 else []) if a.v == 0x8040), None)
            if cond == "jmp" or fam == "test":
                verdict = "an emitted `%s` after `%s` (line %s) skips the ldmxcsr: the branch is taken when %s of FTZ/DAZ %s set, so a caller running with only one of " \
                          "the two bits (or none) keeps that mode and denormals are not flushed the way emulation flushes them" % (
                              cond, fam, br.line, "any" if cond in ("jne", "jnz") else "none", "is")
            elif fam == "cmp" and fam2 == "and" and imm == 0x8040 and imm2 == 0x8040 and cond in ("je", "jz"):
                continue                    # skipped only when both bits are already set: same mode either way
            else:
                raise AnalysisBroken("%s: the emitted ldmxcsr is skipped by `%s` after `%s`, a condition this rule does not model" % (fn, cond, fam))
        rep.check(verdict is None, "D1b-MODE-UNCONDITIONAL", where(f), "ldmxcsr",
                  "no emitted branch skips the ldmxcsr%s" % (" (one skip, taken only when FTZ and DAZ are both set already)" if skipping else ""),
                  "%s: %s" % (fn, verdict), line=ld[0].line)
    avx_dest_defined_before_read(db, rep, "D9-AVX-DEST-DEFINED")
    # D10: double constants reach the code through the bytecode of every orcc-generated function: the integer codecs must widen each
    # byte before shifting it into place, or 0.1L comes back as a NaN (rule shared with C13 D4)
    import importlib as _il18
    _il18.import_module("rules.c13").d4_codec(db, rep, "D10-CONST-CODEC")
    d11_avx_constant_full_width(db, rep)
    d12_generator_flushes_results(db, rep)
    # ---- D2 ------------------------------------------------------------------
    rows = {r["name"]: r for r in init_rows(db.tu("orcopcodes-sys").global_("opcodes")) if isinstance(r, dict) and r.get("name")}
    FLOAT = db.macro_int("ORC_STATIC_OPCODE_FLOAT_SRC") | db.macro_int("ORC_STATIC_OPCODE_FLOAT_DEST")
    tu = db.tu("orcemulateopcodes")
    nfloat = 0
    for f in tu.main_functions():
        if not f.name.startswith("emulate_"):
            continue
        op = f.name[len("emulate_"):]
        usesf = any(n.k == "MemberExpr" and n.name in ("f", "x2f", "x4f") for n in f.walk()) or \
            any(n.k == "VarDecl" and n.ty in ("float", "double") for n in f.walk())
        if not usesf or op not in rows:
            continue
        nfloat += 1
        rep.saw(f)
        rep.check(bool(rows[op]["flags"] & FLOAT), "D2-FLOAT-FLAG", "orc/orcopcodes-sys.c", "row:%s" % op,
                  "float-computing opcode %s carries a FLOAT flag" % op,
                  "opcode `%s` computes in floating point but its table row has neither FLOAT_SRC nor FLOAT_DEST: a program using only it runs without FTZ|DAZ" % op)
    if nfloat < 25:
        raise AnalysisBroken("only %d float-computing emulate functions found" % nfloat)
    has_float_tests_both(db, rep, "D2-FLOAT-FLAG")
    xc = db.func("orc_x86_compile", "orcprogram-x86")
    fc = Facts(xc)
    for c in xc.calls("orc_x86_set_mxcsr"):
        conds = [(unparse(x[0]), x[1]) for x in fc.conds(c) if x[0] != "switch"]
        ok = ("orc_program_has_float(compiler)", True) in conds and not any("has_float" in t and not pol for t, pol in conds)
        # early exits that emit no function body at all are not conditions on the mode switch
        SKELETON = {("compiler->error", False), ("(align_var < 0)", False)}
        extra = [t for t, pol in conds if "has_float" not in t and "set_mxcsr" not in t and (t, pol) not in SKELETON]
        rep.check(ok and not extra, "D2-FLOAT-FLAG", where(xc), "set_mxcsr-trigger", "set_mxcsr is emitted exactly when the program has a float opcode (and the target provides it)",
                  "set_mxcsr is emitted under %s" % conds, line=c.line)
    # ---- D3 ------------------------------------------------------------------
    n3 = 0
    for f in tu.main_functions():
        if not f.name.startswith("emulate_"):
            continue
        op = f.name[len("emulate_"):]
        if op not in ARITH and op not in INONLY:
            continue
        n3 += 1
        ins, outs = [], []
        for n in f.walk():
            if n.k == "BinaryOperator" and n.op == "=":
                l = unparse(n.c[0])
                den = any("ORC_DENORMAL" in m for x in n.c[1].walk() for m in x.mac)
                if l.startswith("_src") and l.endswith(".i"):
                    ins.append((l, den))
                if l.startswith("var") and "_dest" in unparse(n.c[1]):
                    outs.append((l, den))
        okin = bool(ins) and all(d for _, d in ins)
        okout = (op not in ARITH) or (bool(outs) and all(d for _, d in outs))
        rep.check(okin and okout, "D3-EXPLICIT-FLUSH", where(f), "denormal-wrapping",
                  "%d input(s) read through ORC_DENORMAL%s" % (len(ins), ", result flushed" if op in ARITH else ""),
                  "emulate_%s: %s" % (op, "input(s) %s are not read through ORC_DENORMAL" % [l for l, d in ins if not d] if not okin else "the result is not flushed with ORC_DENORMAL"))
    if n3 < 20:
        raise AnalysisBroken("only %d float emulate functions matched the family table" % n3)
    unknown = [f.name for f in tu.main_functions() if f.name.startswith("emulate_") and f.name[8:] in rows and rows[f.name[8:]]["flags"] & FLOAT
               and f.name[8:] not in ARITH | INONLY | set(NOFLUSH)]
    rep.check(not unknown, "D3-EXPLICIT-FLUSH", "orc/orcopcodes-sys.c", "family-table-complete", "every FLOAT-flagged opcode is in the flushing table",
              "FLOAT-flagged opcode(s) %s are not classified in the flushing table of rules/c18.py" % unknown)

    # ---- D4: a float emit macro selects the table row of the instruction it is named after ------------
    # The back ends call instructions through macros named after them (orc_avx_sse_emit_cmplepd ...).  The row such a macro
    # passes on must carry that mnemonic (or its VEX spelling v<mnemonic>); otherwise a rule written correctly emits a
    # different comparison / arithmetic instruction on that path only (e.g. the 128-bit tail of the AVX back end).
    import re as _re, json as _json
    xt = db.tu("orcx86insn")
    rows_ = init_rows(xt.global_("orc_x86_opcodes"))
    idx_enum = [e for e in xt.enumdecls if any(i[0] == "ORC_X86_punpcklbw" for i in e["items"])]
    if not idx_enum:
        raise AnalysisBroken("OrcX86OpcodeIdx not found")
    rowname = {k[len("ORC_X86_"):]: rows_[v]["name"] for k, v in idx_enum[0]["items"] if v < len(rows_) and isinstance(rows_[v], dict)}
    SUF = ("load", "store", "memoffset", "memindex", "register", "imm", "reg", "si256")
    nmac = 0
    seen_m = set()
    for t_ in db.tus.values():
        for name, m in t_.macros.items():
            mm = _re.match(r"orc_(sse|mmx|avx_sse|avx)_emit_(\w+)$", name)
            if not mm or name in seen_m:
                continue
            seen_m.add(name)
            body = m.get("body") if isinstance(m, dict) else m
            txt = body if isinstance(body, str) else _json.dumps(body)
            parts = mm.group(2).split("_")
            while parts and parts[-1] in SUF:
                parts.pop()
            mnem = "_".join(parts)
            for rr in _re.findall(r"ORC_X86_(\w+)", txt):
                rn = rowname.get(rr)
                if rn is None or not _re.search(r"(ps|pd|ss|sd)$", rn) or rn.startswith(("pun", "pack", "padd", "psub", "pabs", "pmulh")):
                    continue
                if not _re.match(r"^v?(add|sub|mul|div|sqrt|min|max|cmp\w*|cvt\w*|and|andn|or|xor|blendv?|mov[alhu]?|shuf|unpck[lh])(ps|pd|ss|sd)$", rn):
                    continue
                nmac += 1
                rep.check(rn in (mnem, "v" + mnem), "D4-MACRO-ROW", "orc/orc%s.h" % ("avx" if "avx" in name else mm.group(1)), name,
                          "%s selects the row `%s`" % (name, rn),
                          "the macro %s passes the table row ORC_X86_%s (mnemonic `%s`): rules calling it emit a different floating-point instruction "
                          "than the one they name" % (name, rr, rn))
    if nmac < 40:
        raise AnalysisBroken("only %d float emit macros found" % nmac)


    d5_scratch_constant(db, rep)
    d6_sibling_rows(db, rep, FLOAT)
    d7_operand_arity(db, rep)
    # D13: "identical on every path": a float constant reaches SSE/MMX code through the constant synthesiser; each of its register-only
    # shortcuts is evaluated on a 32-bit lane against the value it is selected for (lib/constsynth.py)
    import constsynth
    constsynth.check(db, rep, "D13-CONST-SYNTHESIS", where)
    # D8: a double parameter reaches the emulator with both halves intact (widening rule, shared with C02 D4): a sign-extended low
    # half turns a finite parameter into a NaN
    from widen import check_or_halves
    n8 = 0
    for f8 in db.tu("orcexecutor").main_functions():
        n8 += check_or_halves(f8, rep, "D8-PARAM-HALVES", where(f8))
    if n8 < 1:
        raise AnalysisBroken("no `lo | hi << 32` assembly found in orcexecutor.c")


def d5_scratch_constant(db, rep):
    """D5: orc_compiler_get_temp_constant hands the rule emitters a *scratch* register holding a constant: the float->int
    conversion rules (and others) use it as the destination of their next instruction.  Every value it returns must therefore
    be a register obtained from orc_compiler_get_temp_reg in that very call; returning a register that something else keeps
    (a pooled constant, a variable's register) lets one rule destroy a value that later iterations or instructions rely on."""
    from flow import reaching_defs
    f = db.func("orc_compiler_get_temp_constant", "orccompiler")
    rep.saw(f)
    rets = [r for r in f.walk() if r.k == "ReturnStmt" and r.c and r.c[0] is not None]
    if not rets:
        raise AnalysisBroken("orc_compiler_get_temp_constant has no return")
    # premise: some caller really writes the register (else the rule would be vacuous)
    writers = 0
    for g, c in db.callers().get("orc_compiler_get_temp_constant", []):
        p = c.parent
        while p is not None and p.k in ("CStyleCastExpr", "ParenExpr", "ImplicitCastExpr"):
            p = p.parent
        nm = None
        if p is not None and p.k == "VarDecl":
            nm = p.name
        elif p is not None and p.k == "BinaryOperator" and p.op == "=":
            nm = access_path(p.c[0])
        if nm and any(e.k == "CallExpr" and e.args() and access_path(e.args()[-1]) == nm for e in g.calls()):
            writers += 1
    rep.extra["callers_using_the_temp_constant_as_a_destination"] = writers
    if writers < 2:
        raise AnalysisBroken("no caller of orc_compiler_get_temp_constant uses the result as a destination operand any more (%d)" % writers)
    for r in rets:
        e = strip_casts(r.c[0])
        srcs = [e]
        if e is not None and e.k == "DeclRefExpr" and e.get("dk") == "local":
            srcs = [(d.c[1] if d.k == "BinaryOperator" else d.c[0]) for d in reaching_defs(f, e.name, r)]
        bad = [s for s in srcs if not (strip_casts(s) is not None and strip_casts(s).k == "CallExpr" and strip_casts(s).name == "orc_compiler_get_temp_reg")]
        rep.check(not bad and bool(srcs), "D5-SCRATCH-CONSTANT", where(f), "return@%s" % r.line,
                  "the returned register comes from orc_compiler_get_temp_reg",
                  "orc_compiler_get_temp_constant can return `%s`, which is not a scratch register obtained from orc_compiler_get_temp_reg: "
                  "rules that use the temporary constant as a destination (e.g. the saturation fix-up of convfl/convdl) then overwrite a value "
                  "that stays live, and native results stop agreeing with emulation" % (unparse(bad[0])[:60] if bad else "?"), line=r.line)


def d6_sibling_rows(db, rep, FLOAT):
    """D6: SSE and AVX implement the same float opcodes with the same instruction set (the AVX forms are the VEX encodings of
    the same table rows).  Where both rules of an opcode consist of a single instruction, the two must be the same row: a
    float opcode done with an integer instruction in one back end (pcmpeqd for cmpeqf ...) is not subject to FTZ/DAZ and gives
    other masks for +0/-0 and denormals than the other back end, the emulator and the generated C."""
    from x86guard import Backend
    orows = {r["name"]: r for r in init_rows(db.tu("orcopcodes-sys").global_("opcodes")) if isinstance(r, dict) and r.get("name")}
    per = {}
    for target in ("sse", "avx"):
        be = Backend(db, target)
        for fn, op, w in be.registrations():
            if op not in orows or not (orows[op]["flags"] & FLOAT) or fn is None:
                continue
            f = db.func(fn, be.rules_tu.base[:-2])
            names = set()
            unknown = False
            for c in f.calls():
                if c.name and "emit_cpuinsn" in c.name and len(c.args()) > 1:
                    vals = be.row_values(f, c.args()[1])
                    if vals is None:
                        unknown = True
                    else:
                        names |= {be.rows[v]["name"] for v in vals if 0 <= v < len(be.rows)}
            others = [c for c in f.calls() if c.name and ("emit" in c.name or "load_constant" in c.name or "get_temp" in c.name) and "emit_cpuinsn" not in c.name]
            per.setdefault(op, {})[target] = (f, names, unknown or bool(others))
    n = 0
    for op, d in sorted(per.items()):
        if "sse" not in d or "avx" not in d:
            continue
        (fs, ns, us), (fa, na, ua) = d["sse"], d["avx"]
        MOVES = {"movdqa", "movdqu", "movaps", "movups", "movq"}     # two-operand forms first copy a source into the destination
        ns, na = ns - MOVES, na - MOVES
        if us or ua or len(ns) != 1 or len(na) != 1:
            continue
        n += 1
        rep.saw(fa)
        rep.check(ns == na, "D6-SIBLING-ROWS", where(fa), "%s:sse=%s" % (op, sorted(ns)[0]),
                  "both back ends implement %s with `%s`" % (op, sorted(ns)[0]),
                  "the AVX rule of the float opcode %s emits `%s` where the SSE rule emits `%s`: one of them is not the floating-point instruction the "
                  "opcode stands for, so the two back ends (and emulation) disagree on +0/-0, denormal and NaN operands" % (op, sorted(na)[0], sorted(ns)[0]), line=fa.line)
    if n < 10:
        raise AnalysisBroken("only %d single-instruction float rules present in both back ends" % n)


def d7_operand_arity(db, rep):
    """D7: a rule function may look at insn->src_args[k] / dest_args[k] only if the opcode it is registered for has that
    operand.  The slot of a missing operand is 0, i.e. variable d1: its register is then encoded as an extra source - for
    VEX instructions with a single source (vsqrtps ...) that is an invalid encoding (VEX.vvvv must be 1111b) unless the stray
    register happens to be number 0.  Decided per (back end, opcode, rule function) registration against the opcode table."""
    from x86guard import Backend
    orows = {r["name"]: r for r in init_rows(db.tu("orcopcodes-sys").global_("opcodes")) if isinstance(r, dict) and r.get("name")}
    n = 0
    for target in ("sse", "mmx", "avx"):
        be = Backend(db, target)
        for fn, op, w in be.registrations():
            if op not in orows or fn is None:
                continue
            try:
                f = db.func(fn, be.rules_tu.base[:-2])
            except AnalysisBroken:
                continue
            row = orows[op]
            ss = row["src_size"] if isinstance(row["src_size"], list) else []
            ds = row["dest_size"] if isinstance(row["dest_size"], list) else []
            bad = []
            for x in f.walk():
                if x.k == "ArraySubscriptExpr" and strip_casts(x.c[1]) is not None and strip_casts(x.c[1]).v is not None:
                    b = access_path(x.c[0]) or ""
                    k = strip_casts(x.c[1]).v
                    if b.endswith("->src_args") and not (k < len(ss) and ss[k]):
                        bad.append(("src_args[%d]" % k, x.line))
                    elif b.endswith("->dest_args") and not (k < len(ds) and ds[k]):
                        bad.append(("dest_args[%d]" % k, x.line))
            n += 1
            if bad:
                rep.saw(f)
            rep.check(not bad, "D7-OPERAND-ARITY", where(f), "%s:%s" % (target, op),
                      "%s reads only operands that %s has" % (fn, op),
                      "%s, registered for `%s` on %s, reads insn->%s although the opcode has no such operand (sources %s, destinations %s): the register of "
                      "variable 0 is passed to the emitter as an operand" % (fn, op, target, bad[0][0] if bad else "", [s_ for s_ in ss if s_], [d_ for d_ in ds if d_]),
                      line=bad[0][1] if bad else f.line)
    if n < 300:
        raise AnalysisBroken("only %d rule registrations judged" % n)


def avx_dest_defined_before_read(db, rep, rule):
    """The AVX rules are three-operand: every instruction names its two sources and its destination.  Unlike the two-operand
    SSE rules they may not assume that the destination register already holds the first source (the register allocator makes
    the two coincide only when the source dies at this instruction).  In every rule function of orcrules-avx.c each register
    operand read by an emitted instruction must be defined: it is a source of the Orc instruction (initialised from
    src_args[..].alloc), a constant register, or it has been written by an emitted instruction that dominates the read
    (`pxor r, r, r` / `pcmpeq r, r, r` define r).  A rule that reads `dest`, or a scratch register, before writing it computes
    with whatever the register held: correct only while the allocator happens to chain source and destination."""
    from facts import init_rows
    tu = db.tu("orcrules-avx")
    rows = init_rows(db.tu("orcx86insn").global_("orc_x86_opcodes"))
    SIG = {"orc_vex_emit_cpuinsn_size": ((3, 4), 5), "orc_vex_emit_cpuinsn_imm": ((3, 4), 5), "orc_vex_emit_cpuinsn_load_memoffset": ((6,), 7),
           "orc_vex_emit_cpuinsn_load_memindex": ((), 8)}
    SELF = ("pxor", "pcmpeqb", "pcmpeqw", "pcmpeqd", "pcmpeqq", "xorps", "xorpd", "psubb", "psubw", "psubd", "psubq")
    n = 0
    for f in tu.main_functions():
        if "_rule_" not in f.name:
            continue
        kind = {}
        for vd in f.walk():
            if vd.k == "VarDecl" and vd.c and vd.c[0] is not None:
                t = unparse(vd.c[0])
                if "dest_args" in t and ".alloc" in t:
                    kind[vd.name] = "dest"
                elif "orc_compiler_get_temp_reg" in t:
                    kind[vd.name] = "temp"
                elif "src_args" in t and ".alloc" in t:
                    kind[vd.name] = "src"
        if not any(v in ("dest", "temp") for v in kind.values()):
            continue
        if f.name.startswith("avx_rule_acc"):
            continue                        # accumulating opcodes: the destination IS the running sum (read-modify-write by definition)
        from flow import path_to
        allcalls = list({c.id: c for c in f.calls()}.values())
        calls = [c for c in allcalls if c.name in SIG]

        def defines(e, reg):
            if e.k != "CallExpr" or not e.name:
                return False
            if e.name in SIG:
                di = SIG[e.name][1]
                wd = strip_casts(e.args()[di]) if di < len(e.args()) else None
                return wd is not None and wd.k == "DeclRefExpr" and wd.name == reg
            # any other emitter that is handed the register (4-operand blends, broadcast, the mov helpers, constant loads): taken
            # as defining it - their operand roles are not modelled, and a missed definition would be a false alarm
            if "emit" in e.name or "load_constant" in e.name or "_mov_" in e.name:
                return any(strip_casts(x) is not None and strip_casts(x).k == "DeclRefExpr" and strip_casts(x).name == reg for x in e.args())
            return False
        bad = None
        for c in calls:
            a = c.args()
            srcs, di = SIG[c.name]
            rv = strip_casts(a[1]).v
            rname = rows[rv]["name"] if rv is not None and 0 <= rv < len(rows) else None
            ops = [strip_casts(a[i]) for i in srcs if i < len(a)]
            names = [o.name for o in ops if o is not None and o.k == "DeclRefExpr"]
            if rname in SELF and len(names) == 2 and names[0] == names[1]:
                continue                    # zeroing / all-ones idiom: defines the register
            for o in ops:
                if o is None or o.k != "DeclRefExpr" or kind.get(o.name) not in ("dest", "temp"):
                    continue
                wit = path_to(f, c, lambda e, r=o.name: defines(e, r))
                if wit is not None and bad is None:
                    bad = (c, o.name, rname, kind[o.name])
        n += 1
        rep.saw(f)
        rep.check(bad is None, rule, where(f), f.name,
                  "every destination / scratch register is written before an emitted instruction reads it",
                  "%s emits `v%s` reading `%s` (the %s register) before any emitted instruction has written it (line %s): unlike the two-operand SSE rule "
                  "this was ported from, the three-operand form does not start with the first source in the destination - the result is right only when "
                  "the register allocator happens to give source and destination the same register (the source dies here), and garbage when the source "
                  "is used again later" % (f.name, bad[2] if bad else "", bad[1] if bad else "", {"dest": "destination", "temp": "scratch"}.get(bad[3] if bad else "", ""),
                                           bad[0].line if bad else "?"), line=bad[0].line if bad else None)
    if n < 40:
        raise AnalysisBroken("only %d AVX rule functions with destination/scratch registers found" % n)
    return n


def has_float_tests_both(db, rep, rule):
    """orc_program_has_float alone decides whether the x86 back ends switch MXCSR to FTZ|DAZ: it must look at BOTH float flags -
    opcodes that only consume floats (cmpeqf/cmpltf/convfl ...) compare denormal inputs unflushed otherwise, while emulation,
    backup code and the Orc-free build flush them (shared with C07: "in every build and run-time mode")."""
    FLOAT = db.macro_int("ORC_STATIC_OPCODE_FLOAT_SRC") | db.macro_int("ORC_STATIC_OPCODE_FLOAT_DEST")
    hf = db.func("orc_program_has_float", "orcprogram")
    rep.saw(hf)
    masks = [strip_casts(n.c[1]).v for n in hf.walk() if n.k == "BinaryOperator" and n.op == "&" and strip_casts(n.c[1]) is not None and strip_casts(n.c[1]).v is not None]
    got = 0
    for m in masks:
        got |= m
    rep.check((got & FLOAT) == FLOAT, rule, where(hf), "tests-FLOAT-mask", "orc_program_has_float tests flags & (FLOAT_SRC|FLOAT_DEST)",
              "orc_program_has_float tests the opcode flags against %#x, which does not include both ORC_STATIC_OPCODE_FLOAT_SRC and _FLOAT_DEST (%#x): a program "
              "whose float opcodes only consume (or only produce) floats runs its JIT code without FTZ|DAZ and treats denormals differently from "
              "emulation, backup code and the DISABLE_ORC build" % (got, FLOAT))



def d11_avx_constant_full_width(db, rep, rule="D11-CONST-FULL-WIDTH"):
    """A constant is the same value in every lane of the 256-bit register that holds it.  A VEX.128-encoded instruction zeroes
    bits 255..128 of its destination (Intel SDM vol. 1 14.1.1), so in the AVX constant loaders the LAST instruction that writes the
    constant's register on any path must be a 256-bit form or the broadcast: an `orc_avx_sse_emit_*` (VEX.128) write that can
    reach the end of the function without a full-width write behind it leaves the upper two (double) or four (float) lanes 0 -
    `muld d, s, -2.0L` then multiplies half of every four elements by zero."""
    from flow import paths_avoiding
    v128 = db.enum("ORC_X86_AVX_VEX128_PREFIX")
    tu = db.tu("orcprogram-avx")
    n = 0
    for f in tu.main_functions():
        if "load_constant" not in f.name:
            continue
        regs = [p_["name"] for p_ in f.params if p_["name"] in ("reg", "dest", "d")]
        if not regs:
            continue
        reg = regs[0]

        def writes_reg(e):
            if e.k != "CallExpr" or not e.name or not e.args():
                return None
            a = e.args()
            if e.name.startswith("orc_vex_emit_cpuinsn"):
                d = strip_casts(a[-2])
                if d is not None and d.k == "DeclRefExpr" and d.name == reg:
                    return "128" if strip_casts(a[-1]).v == v128 else "256"
                return None
            if e.name == "orc_avx_emit_broadcast" and len(a) > 2 and strip_casts(a[2]) is not None and strip_casts(a[2]).k == "DeclRefExpr" and strip_casts(a[2]).name == reg:
                return "256"
            return None
        for c in {c.id: c for c in f.calls()}.values():
            if writes_reg(c) != "128":
                continue
            n += 1
            rep.saw(f)
            wit = paths_avoiding(f, c, lambda e: writes_reg(e) == "256")
            rep.check(wit is None, rule, where(f), "%s@%s" % (f.name, c.line), "a VEX.128 write of the constant's register is followed by a full-width write",
                      "%s writes `%s` with a VEX.128-encoded instruction (line %s) and can return without a 256-bit instruction or a broadcast behind it: "
                      "the upper 128 bits of the register are zero, so the constant is 0 in the upper lanes of every 256-bit iteration" % (f.name, reg, c.line),
                      line=c.line)
    if n < 3:
        raise AnalysisBroken("only %d VEX.128 writes found in the AVX constant loaders" % n)
    return n


def d12_generator_flushes_results(db, rep, rule="D12-GENERATED-C-FLUSHES"):
    """"Generated C agree[s] bit for bit": the C back end's template for a result-flushing float opcode (D3's ARITH family) must
    store the result through ORC_DENORMAL / ORC_DENORMAL_DOUBLE, as the emulator statement generated from it does.  (C04 D2-STALE
    reports a template that differs from the checked-in emulator; this states the flush itself, for the generator.)"""
    import importlib
    c04 = importlib.import_module("rules.c04")
    ctu = db.tu("orcprogram-c")
    init = db.func("orc_c_init", "orcprogram-c")
    n = 0
    for c in init.calls("orc_rule_register"):
        a = c.args()
        nm = strip_casts(a[1]).get("str")
        fn = strip_casts(a[2])
        if nm not in ARITH or fn is None or fn.k != "DeclRefExpr" or fn.name not in ctu.fn:
            continue
        t = c04.template_of(ctu.fn[fn.name])
        if t is None:
            continue
        n += 1
        rep.saw(ctu.fn[fn.name])
        stores = [s_ for s_ in t.replace("{", ";").replace("}", ";").split(";") if s_.startswith("@=")]
        ok = bool(stores) and all("ORC_DENORMAL" in s_ for s_ in stores)
        rep.check(ok, rule, where(ctu.fn[fn.name]), "template:%s" % nm, "the generated C stores the result of %s flushed" % nm,
                  "the C back end's template for `%s` stores its result as `%s`, not through ORC_DENORMAL: the backup function and the Orc-free code keep a "
                  "denormal result where emulation and native code (FTZ) give zero" % (nm, (stores or ["?"])[0][:60]), line=ctu.fn[fn.name].line)
    if n < 8:
        raise AnalysisBroken("only %d templates of result-flushing float opcodes found" % n)
    return n
