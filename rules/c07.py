"""C07 — what orcc generates works end to end through its C prototype (structural part).

  D1 emitter agreement inside tools/orcc.c: prototype / backup call / executor backup call
     / executor fill-in walk the same variable classes with the same extras
  D2 name tables: varnames <-> enumnames <-> ORC_VAR_* enum, three copies identical
  D3 64-bit parameter halves: writer and readers use the same slot distance; the generated statements (code templates
     instantiated into a scratch unit) combine them as zero-extended low | high << 32
  D4 (thorough) generated sources of a corpus of well-formed inputs type-check in every orcc mode
Run-time results in the four modes are NOT decided.
"""
import itertools
import os
import re
import subprocess

from facts import AnalysisBroken, access_path, strip_casts, unparse, init_rows
from flow import Facts
from rules_common import where

CLASS_OF = {"ORC_VAR_D1": "D", "ORC_VAR_S1": "S", "ORC_VAR_A1": "A", "ORC_VAR_P1": "P", "ORC_VAR_C1": "C", "ORC_VAR_T1": "T"}


def emits(node):
    """number of fprintf calls with a non-empty literal under node"""
    n = 0
    for c in node.walk():
        if c.k == "CallExpr" and c.name == "fprintf" and len(c.args()) > 1:
            lit = strip_casts(c.args()[1])
            if lit.k == "StringLiteral" and lit.get("str", "").strip() not in ("", ", "):
                n += 1
    return n


def signature(db, f):
    """ordered list of variable classes a function iterates and prints, with extras."""
    enums = f.tu.enums
    base_by_val = {enums[k]: v for k, v in CLASS_OF.items()}
    sig = []
    opener = None
    for c in f.calls("fprintf"):
        lit = strip_casts(c.args()[1]) if len(c.args()) > 1 else None
        if lit is not None and lit.k == "StringLiteral" and lit.get("str", "").rstrip().endswith("(") and opener is None:
            opener = c
    for n in f.walk():
        if n.k != "ForStmt" or n.c[3] is None:
            continue
        if opener is not None and f.tu.base.startswith("orcc") and f.name != "output_code_execute" and not f.dominates(opener, n.c[1] if n.c[1] is not None else n):
            continue
        body = n.c[3]
        cls = None
        for a in body.walk():
            if a.k == "BinaryOperator" and a.op == "=" and access_path(a.c[0]) == "var":
                for x in a.c[1].walk():
                    if x.k == "ArraySubscriptExpr":
                        from flow import linear
                        lin = linear(x.c[1])
                        if lin and lin[0] == "i":
                            cls = base_by_val.get(lin[1])
        if cls is None or not emits(body):
            continue
        # extras: stride under is_2d
        stride = False
        for i in body.walk():
            if i.k == "IfStmt" and "is_2d" in unparse(i.c[0]) and emits(i.c[1]):
                stride = True
        kinds = None
        for sw in body.walk():
            if sw.k == "SwitchStmt" and "param_type" in unparse(sw.c[0]):
                kinds = {}
                cur = []
                for st in sw.c[1].kids():
                    x = st
                    labs = []
                    while x is not None and x.k in ("CaseStmt", "DefaultStmt"):
                        if x.k == "CaseStmt":
                            labs.append(x.get("lo"))
                        x = x.c[0] if x.c else None
                    if labs:
                        cur = labs
                        for l in labs:
                            kinds.setdefault(l, 0)
                    if x is not None and cur:
                        e = emits(x) if x.k != "BreakStmt" else 0
                        for l in cur:
                            kinds[l] = kinds.get(l, 0) + e
                    elif not labs and cur:
                        e = emits(st)
                        for l in cur:
                            kinds[l] = kinds.get(l, 0) + e
        sig.append((cls, stride, kinds))
    # tail: n and m conditions
    fc = Facts(f)
    tail = {}
    for c in f.calls("fprintf"):
        if len(c.args()) < 2:
            continue
        lit = strip_casts(c.args()[1])
        if lit.k != "StringLiteral":
            continue
        t = lit.get("str", "").strip().strip(",").strip()
        key = None
        if t in ("int n", "n", "ex->n"):
            key = "n"
        elif t in ("int m", "m", "ORC_EXECUTOR_M(ex)"):
            key = "m"
        elif t in ("%d",) and any("constant_n" in unparse(a) for a in c.args()[2:]):
            key = "n-const"
        elif t in ("%d",) and any("constant_m" in unparse(a) for a in c.args()[2:]):
            key = "m-const"
        if key:
            conds = sorted((unparse(x[0]), x[1]) for x in fc.conds(c) if x[0] != "switch" and ("constant_" in unparse(x[0]) or "is_2d" in unparse(x[0])))
            tail[key] = conds
    return sig, tail


def run(ctx):
    db = ctx.db()
    rep = ctx.report
    rep.explanation = (
        "Agreement between the pieces of code generator tools/orcc.c that must describe the same C interface: the prototype emitter, "
        "the two emitters of the call to a .backup function and the executor fill-in iterate the same variable classes in the same order "
        "with the same per-class extras (strides for 2-D, one argument per parameter kind) and the same n/m conditions; the variable name "
        "tables agree with the ORC_VAR_* enumeration and with each other in all three copies; the slot distance of the high half of 64-bit "
        "parameters is the same constant in orcc, the executor API, the emulator and the x86/C back ends. In the thorough tier orcc (built "
        "from this tree in scratch) is run on a corpus of well-formed inputs in every mode and each output is type-checked with clang "
        "-fsyntax-only: this executes the generator, never the generated functions. Run-time results are NOT decided.")
    rep.assumptions += ["thorough tier: clang -fsyntax-only as the type checker of generated sources; corpus = testsuite/test.orc, orc/orcfunctions.orc, examples, replay/orcc/*.orc and verif/corpus/*.orc"]
    tu = db.tu("orcc")
    proto = tu.fn["output_prototype"]
    bcall = tu.fn["output_backup_call"]
    ecall = tu.fn["output_executor_backup_call"]
    rep.saw(proto)
    rep.saw(bcall)
    rep.saw(ecall)
    ps, ptail = signature(db, proto)
    if [c for c, _, _ in ps] != ["D", "A", "S", "P"]:
        raise AnalysisBroken("output_prototype classes recovered as %s" % [c for c, _, _ in ps])
    ptypes = {v: k for k, v in tu.enums.items() if k.startswith("ORC_PARAM_TYPE_")}
    for f in (bcall, ecall):
        sig, tail = signature(db, f)
        order = [c for c, _, _ in sig]
        rep.check(order == [c for c, _, _ in ps], "D1-EMITTERS", where(f), "class-order",
                  "argument classes %s in prototype order" % order,
                  "%s passes the variable classes %s, the prototype declares %s: the generated call has the wrong number/order of arguments" %
                  (f.name, order, [c for c, _, _ in ps]))
        for (c, st, kinds), (pc, pst, pkinds) in zip(sig, ps):
            if c != pc:
                break
            rep.check(st == pst, "D1-EMITTERS", where(f), "stride:%s" % c, "stride extra for class %s matches the prototype (%s)" % (c, pst),
                      "class %s: prototype %s a stride parameter for 2-D programs, %s %s" % (c, "has" if pst else "has no", f.name, "passes one" if st else "passes none"))
            if pkinds:
                for k, cnt in sorted(pkinds.items()):
                    if cnt == 0:
                        continue
                    got = True if kinds is None else kinds.get(k, 0) > 0
                    rep.check(got, "D1-EMITTERS", where(f), "param:%s" % ptypes.get(k, k), "parameter kind %s is passed" % ptypes.get(k, k),
                              "%s emits no argument for a %s parameter although the prototype declares one" % (f.name, ptypes.get(k, k)))
        for key in ("n", "m"):
            pc = ptail.get(key)
            c = tail.get(key)
            extra = tail.get(key + "-const")
            rep.check(c == pc and extra is None, "D1-EMITTERS", where(f), "tail:%s" % key,
                      "%s is passed exactly when the prototype declares it (%s)" % (key, pc),
                      "prototype declares %s under %s; %s passes it under %s%s" % (key, pc, f.name, c, " and passes the constant otherwise" if extra is not None else ""))
    # executor fill-in covers the same classes
    ex = tu.fn["output_code_execute"]
    rep.saw(ex)
    es, _ = signature(db, ex)
    have = {c for c, _, _ in es}
    rep.check({"D", "S", "P"} <= have, "D1-EMITTERS", where(ex), "fill-in-classes", "executor fill-in covers classes %s" % sorted(have),
              "output_code_execute fills in only %s" % sorted(have))

    # ---- D2 -------------------------------------------------------------------
    tables = {}
    for tub in ("orcc", "orcprogram-c", "generate-emulation"):
        t = db.tu(tub)
        g = t.global_("varnames")
        if g is None or "init" not in g:
            raise AnalysisBroken("varnames[] not found in %s" % tub)
        tables[tub] = [x.get("s") for x in g["init"]["list"]]
    en = [x.get("s") for x in tu.global_("enumnames")["init"]["list"]]
    evals = tu.enums
    ref = tables["orcc"]
    for tub, tb in tables.items():
        rep.check(tb == ref, "D2-NAME-TABLES", "%s" % db.tu(tub).base, "varnames-copy", "copy identical to tools/orcc.c",
                  "varnames[] in %s differs from tools/orcc.c at %s" % (tub, [i for i, (a, b) in enumerate(zip(tb, ref)) if a != b][:4]))
    dup = sorted({x for x in ref if ref.count(x) > 1})
    rep.check(not dup, "D2-NAME-TABLES", "tools/orcc.c", "varnames-distinct", "%d names pairwise distinct" % len(ref),
              "varnames[] contains duplicate names %s: two parameters of a generated prototype get the same name" % dup)
    bad = []
    for k, (vn, enm) in enumerate(zip(ref, en)):
        if enm is None or not enm.startswith("ORC_VAR_"):
            continue
        if evals.get(enm) != k:
            bad.append("%s at index %d has value %s" % (enm, k, evals.get(enm)))
        if vn != enm[len("ORC_VAR_"):].lower():
            bad.append("varnames[%d]=%s but enumnames[%d]=%s" % (k, vn, k, enm))
    rep.check(not bad, "D2-NAME-TABLES", "tools/orcc.c", "varnames-vs-enum", "varnames[k] is the lower-cased suffix of enumnames[k] == ORC_VAR_* with value k",
              "name tables disagree with the ORC_VAR_* enumeration: %s" % bad[:3])

    # ---- D3 -------------------------------------------------------------------
    dist = evals["ORC_VAR_T1"] - evals["ORC_VAR_P1"]
    try:
        npar = db.macro_int("ORC_N_PARAMS")
    except AnalysisBroken:
        npar = None
    rep.check(npar == dist, "D3-HI-HALF-SLOT", "orc/orclimits.h", "ORC_N_PARAMS", "ORC_N_PARAMS == ORC_VAR_T1 - ORC_VAR_P1 == %d" % dist,
              "ORC_N_PARAMS (%s) != ORC_VAR_T1 - ORC_VAR_P1 (%d): readers and writers of the high half of 64-bit parameters disagree" % (npar, dist))
    # orcc writes the high half to enumnames[ORC_VAR_T1 + i] for parameter ORC_VAR_P1 + i
    hi = 0
    for f in (ex, ecall):
        for c in f.calls("fprintf"):
            lit = strip_casts(c.args()[1]) if len(c.args()) > 1 else None
            if lit is None or lit.k != "StringLiteral" or ">> 32" not in lit.get("str", "") and "<< 32" not in lit.get("str", ""):
                continue
            idx = [unparse(x.c[1]).replace(" ", "") for a in c.args()[2:] for x in a.walk() if x.k == "ArraySubscriptExpr" and unparse(x.c[0]) == "enumnames"]
            hi += 1
            ok = idx and idx[-1] in ("(ORC_VAR_T1+i)",)
            rep.check(ok, "D3-HI-HALF-SLOT", where(f), "hi-half@L%d" % 0 + str(hi), "high half goes through enumnames[ORC_VAR_T1 + i]",
                      "orcc uses slot %s for the high half of parameter ORC_VAR_P1 + i" % idx, line=c.line)
    if hi < 3:
        raise AnalysisBroken("orcc: only %d high-half emissions found" % hi)
    # library readers
    readers = 0
    # every function of orcexecutor.c that touches ex->params at a non-zero distance from a variable index
    for f in db.tu("orcexecutor").main_functions():
        fn = f.name
        for n in f.walk():
            if n.k == "ArraySubscriptExpr" and (access_path(n.c[0]) or "").endswith("->params"):
                t = unparse(n.c[1]).replace(" ", "")
                m = re.search(r"\+\(?(\d+|ORC_VAR_T1-ORC_VAR_P1)\)?\)?$", t)
                from flow import linear
                lin = linear(n.c[1])
                if lin and lin[0] is not None and lin[1] != 0:
                    readers += 1
                    rep.check(lin[1] == dist, "D3-HI-HALF-SLOT", where(f), "params[%s]" % t[:40], "high half at distance %d" % dist,
                              "%s accesses the high half at distance %d, orcc writes it at distance %d" % (fn, lin[1], dist), line=n.line)
    if readers < 3:
        raise AnalysisBroken("only %d high-half readers found in orcexecutor.c" % readers)

    wrapper_executor_fill(db, rep, "D1-EMITTERS")

    # ---- D1c: what the .orc source says about an array survives the rebuild inside the wrapper ----------
    # Generated wrappers rebuild the program at run time from bytecode (or, for old --compat levels, through the _full
    # constructors): size and alignment must be stored as given there, or the JIT is compiled for other alignment
    # assumptions than the source states (shared with C13-D2).
    import importlib
    importlib.import_module("rules.c13").field_fidelity(db, rep, "D1-REBUILD-FIDELITY")
    # the bytecode a wrapper carries is written by orcc and read back by the library: the integer codecs must mirror each other
    importlib.import_module("rules.c13").d4_codec(db, rep, "D1-REBUILD-CODEC")

    # ---- D3b: the two halves are combined without sign extension -----------------------------
    # (the code templates of orcprogram-c.c / orcc.c that assemble a 64-bit parameter are instantiated into a scratch
    #  translation unit and type-analysed; plus every real function that ORs a shifted high half)
    from ctemplates import check_param_halves
    nt, nr = check_param_halves(ctx, db, rep, "D3b-HALVES-ZERO-EXTENDED")
    rep.extra["param_half_templates"] = nt
    rep.extra["or_shifted_high_half_sites_in_library"] = nr

    # ---- D5: lazy initialisation hands the wrapper its code object only once it is published ---------
    # (every generated wrapper without an init function obtains its OrcCode through orc_once_enter; same rule as C08 D3)
    from rules.c08 import once_enter_value_guarded
    once_enter_value_guarded(db, rep, "D5-LAZY-INIT-VALUE")

    d6_acc_slot_width(db, rep)
    d9_acc16_masked(db, rep)
    # D10: JIT mode computes what the other modes compute for float programs only with FTZ|DAZ set (shared with C18 D2)
    import importlib as _il10
    _il10.import_module("rules.c18").has_float_tests_both(db, rep, "D10-FLOAT-MODE-TRIGGER")
    d11_acc_lanes_limited(db, rep)
    # D12: scratch registers are chosen against ALL live compiler variables (shared with C06)
    _il10.import_module("rules.c06").compiler_var_scans_complete(db, rep, "D12-VAR-SCAN-COMPLETE")
    d13_wide_constant_uses_upper_half(db, rep)
    d14_declared_alignment_after_head(db, rep)
    __import__("importlib").import_module("rules.c06").accumulator_walks_complete(db, rep, "D15-ACCUMULATOR-WALKS")
    d16_setter_prints_its_field(db, rep)
    # D17: "works ... under ORC_CODE=backup and without Orc": an integer division in a C template is guarded by a zero test of the
    # divisor itself, or the backup function dies with SIGFPE where emulation returns the reference constant (shared with C04 D12)
    __import__("importlib").import_module("rules.c04").div_guarded(db, rep, "D17-DIVISOR-GUARDED")
    # a generated wrapper hands native code an uncleared stack executor: every counter the code reads must have been stored by it (shared with C03 D8)
    import emitstate as _es
    _names = {}
    for _fld in db.record("OrcExecutor")["fields"]:
        _names.setdefault(_fld["off"], _fld["name"])
    _es.check(db.tu("orcprogram-x86"), rep, "D8-COUNTERS-DEFINED", where, offset_names=_names)

    # ---- D7: emulation starts every accumulator from zero, also through a wrapper's stack executor (shared with C02 D3)
    import importlib as _il
    _il.import_module("rules.c02").acc_zero(db, rep, "D7-EMULATE-ACC-ZERO")

    if ctx.tier == "thorough":
        d4(ctx, rep)


CORPUS_SYNTH = {
    "acc4": ".function t_acc4\n.dest 2 d1\n.dest 2 d2\n.dest 2 d3\n.dest 2 d4\n.source 2 s1\n.accumulator 2 a1\n.accumulator 2 a2\n.accumulator 2 a3\n.accumulator 2 a4\ncopyw d1, s1\ncopyw d2, s1\ncopyw d3, s1\ncopyw d4, s1\naccw a1, s1\naccw a2, s1\naccw a3, s1\naccw a4, s1\n",
    "backup_acc": ".function t_backup_acc\n.backup t_backup_acc_b\n.source 2 s1\n.accumulator 2 a1\naccw a1, s1\n",
    "backup_constn": ".function t_backup_constn\n.backup t_backup_constn_b\n.n 8\n.dest 1 d1\n.source 1 s1\ncopyb d1, s1\n",
    "params": ".function t_params\n.dest 8 d1\n.source 8 s1\n.param 4 p1\n.floatparam 4 p2\n.longparam 8 p3\n.doubleparam 8 p4\n.temp 8 t1\n.temp 4 t2\naddq t1, s1, p3\naddd t1, t1, p4\nconvql t2, t1\naddl t2, t2, p1\naddf t2, t2, p2\nconvslq d1, t2\n",
    "backup_params": ".function t_backup_params\n.backup t_backup_params_b\n.dest 8 d1\n.source 8 s1\n.param 4 p1\n.floatparam 4 p2\n.longparam 8 p3\n.doubleparam 8 p4\naddq d1, s1, p3\n",
    "twod": ".function t_2d\n.flags 2d\n.dest 1 d1\n.source 1 s1\n.source 1 s2\naddb d1, s1, s2\n\n.function t_2d_m\n.flags 2d\n.m 4\n.n 16\n.dest 1 d1\n.source 1 s1\ncopyb d1, s1\n\n.function t_2d_backup\n.backup t_2d_backup_b\n.flags 2d\n.dest 1 d1\n.source 1 s1\ncopyb d1, s1\n",
    "x2x4": ".function t_x\n.dest 4 d1\n.source 4 s1\n.source 4 s2\n.temp 4 t1\nx4 addb t1, s1, s2\nx2 addw d1, t1, s2\n",
}


def d4(ctx, rep):
    repo = ctx.repo
    bdir = ctx.builddir
    p = subprocess.run(["ninja", "-C", bdir, "tools/orcc"], stdout=subprocess.PIPE, stderr=subprocess.STDOUT, text=True)
    orcc = os.path.join(bdir, "tools", "orcc")
    if p.returncode != 0 or not os.path.exists(orcc):
        raise AnalysisBroken("could not build orcc in scratch: " + p.stdout[-500:])
    work = os.path.join(ctx.scratch, "gen")
    os.makedirs(work, exist_ok=True)
    inputs = []
    for rel in ("testsuite/test.orc", "orc/orcfunctions.orc", "testsuite/orcc/test.orc", "testsuite/orcc/test2.orc", "testsuite/orcc/test3.orc",
                "examples/example1orc.orc", "examples/example2orc.orc", "examples/example3orc.orc", "examples/mt19937arorc.orc"):
        pth = os.path.join(repo, rel)
        if os.path.exists(pth):
            inputs.append((os.path.basename(rel).replace(".", "_"), pth))
    for name, text in CORPUS_SYNTH.items():
        pth = os.path.join(work, name + ".orc")
        with open(pth, "w") as f:
            f.write(text)
        inputs.append((name, pth))
    n = 0
    bad = 0
    env = dict(os.environ, LD_LIBRARY_PATH=os.path.join(bdir, "orc"))
    # application type names used by the test inputs (they come from the user's headers)
    prelude = os.path.join(work, "prelude.h")
    with open(prelude, "w") as f:
        f.write("#include <stdint.h>\ntypedef uint8_t guint8; typedef int8_t gint8; typedef uint16_t guint16; typedef int16_t gint16;\n"
                "typedef uint32_t guint32; typedef int32_t gint32; typedef uint64_t guint64; typedef int64_t gint64; typedef float gfloat; typedef double gdouble;\n")
    for name, pth in inputs:
        for inline, lazy, nobackup, compatv in itertools.product((False, True), (False, True), (False, True), (None, "0.4.11.1")):
            opts = []
            if inline:
                opts.append("--inline")
            if lazy:
                opts.append("--lazy-init")
            if nobackup:
                opts.append("--no-backup")
            if compatv:
                opts += ["--compat", compatv]
            tag = "%s_%d%d%d%s" % (name, inline, lazy, nobackup, "c" if compatv else "")
            h = os.path.join(work, tag + ".h")
            c = os.path.join(work, tag + ".c")
            t = os.path.join(work, tag + "_test.c")
            r1 = subprocess.run([orcc] + opts + ["--header", "-o", h, pth], env=env, stdout=subprocess.PIPE, stderr=subprocess.STDOUT, text=True)
            r2 = subprocess.run([orcc] + opts + ["--implementation", "--include", os.path.basename(h), "-o", c, pth], env=env, stdout=subprocess.PIPE, stderr=subprocess.STDOUT, text=True)
            if (r1.returncode or r2.returncode) and "incompatible with --compat" in (r1.stdout + r2.stdout):
                continue      # orcc refuses the input for that compatibility level: nothing is generated
            if inline and name.startswith("orcfunctions"):
                continue      # library-internal file: its names are already declared by <orc/orcfunctions.h>
            if r1.returncode or r2.returncode:
                rep.violation("D4-GENERATED-TYPECHECK", "tools/orcc.c", "orcc:%s" % tag, "orcc failed on a well-formed input: %s" % (r1.stdout + r2.stdout)[-200:])
                bad += 1
                continue
            tu_src = c
            if inline:
                # --inline puts the definitions into the header: that is the unit to check
                tu_src = os.path.join(work, tag + "_inc.c")
                with open(tu_src, "w") as f:
                    f.write('#include "%s"\n' % os.path.basename(h))
            for defs in ([], ["-DDISABLE_ORC"]):
                n += 1
                cc = subprocess.run(["clang", "-fsyntax-only", "-Werror=implicit-function-declaration", "-Werror=incompatible-pointer-types",
                                     "-Werror=int-conversion", "-I" + repo, "-I" + bdir, "-I" + work, "-DORC_ENABLE_UNSTABLE_API",
                                     "-include", prelude] + defs + [tu_src],
                                    stdout=subprocess.PIPE, stderr=subprocess.STDOUT, text=True)
                errs = [l for l in cc.stdout.splitlines() if " error: " in l]
                ok = cc.returncode == 0
                if not ok:
                    bad += 1
                rep.check(ok, "D4-GENERATED-TYPECHECK", "tools/orcc.c", "%s%s" % (tag, ":DISABLE_ORC" if defs else ""),
                          "generated implementation + header type-check", "generated code does not compile (%s %s): %s" % (" ".join(opts), " ".join(defs), errs[:2]))
    rep.extra["generated_sources_checked"] = n
    if n < 100:
        raise AnalysisBroken("only %d generated sources were type-checked" % n)


def wrapper_executor_fill(db, rep, rule):
    # ---- D1b: the executor a wrapper hands to the code is completely filled in -------------------
    # The wrapper's OrcExecutor is an uninitialised local.  JIT code takes a constant n/m as an immediate, but emulation
    # (ORC_CODE=emulate, no executable memory, failed compile without backup) reads ex->n and ORC_EXECUTOR_M(ex): on every
    # path of the emitter to the `func (ex);` line the stores of n, and of m for 2-D programs, must have been emitted.
    import re as _re
    from flow import path_to, atom as _atom
    oce = db.tu("orcc").fn["output_code_execute"]
    rep.saw(oce)

    def emits(rx):
        def pred(e):
            if e.k != "CallExpr" or e.name != "fprintf":
                return False
            a = e.args()
            lit = strip_casts(a[1]) if len(a) > 1 else None
            return lit is not None and lit.k == "StringLiteral" and _re.search(rx, lit.get("str", "")) is not None
        return pred
    calls = [c for c in oce.calls("fprintf") if emits(r"\bfunc \(ex\);")(c)]
    if len(calls) != 1:
        raise AnalysisBroken("output_code_execute: expected one `func (ex);` emission, found %d" % len(calls))
    P = oce.params[0]["name"]

    def only_2d(b, idx):
        blk = oce.blocks[b]
        if blk.cond is None:
            return True
        n_, pol = _atom(blk.cond, True)
        if n_ is not None and access_path(n_) == "%s->is_2d" % P:
            ek = oce.edge_kind(b, idx)
            return ek is None or (ek == pol)
        return True
    w = path_to(oce, calls[0], emits(r"ex->n = "))
    rep.check(w is None, rule, where(oce), "executor:n", "ex->n is stored on every path to the call",
              "orcc can emit a wrapper that calls the code without having stored ex->n (emulation and the region loops read it)")
    w = path_to(oce, calls[0], emits(r"(ORC_EXECUTOR_M ?\(ex\)|ex->params\[ORC_VAR_A1\]) = "), only_2d)
    rep.check(w is None, rule, where(oce), "executor:m", "for 2-D programs the row count is stored on every path to the call",
              "orcc can emit a wrapper for a 2-D program that never stores ORC_EXECUTOR_M(ex) (path %s): orc_executor_emulate and the C "
              "backup read the row count from the executor, so a constant .m works only as long as JIT code runs" % (w,))



STORE_ROW_WIDTH = {"pextrb": 1, "pextrw": 2, "movd": 4, "pextrd": 4, "movq": 8, "pextrq": 8, "movdqa": 16, "movdqu": 16, "movntdq": 16, "movups": 16, "movaps": 16}


def d11_acc_lanes_limited(db, rep, rule="D11-ACC-LANES-LIMITED"):
    """D11: "accumulator out-pointers ... computes the program's emulation semantics" in JIT mode.  The x86 loop runs its first
    and last iterations with a smaller loop_shift, but vector instructions compute every lane of a register: after `addl t, s, 1`
    the lanes beyond the iteration's element count are not zero.  An accumulating rule sums the whole register, so for every
    loop_shift at which size << loop_shift is less than the register size it must first reduce its source to the valid lanes:
    a byte / bit shift that pushes the other lanes out, or a narrowing move.  For accw and accl of the sse, mmx and avx back
    ends and every such loop_shift, an emitted lane limiter must be reachable in the rule (or the helper it calls) when its
    conditions are evaluated for that loop_shift (exprval.reachable_under)."""
    from exprval import reachable_under
    from flow import single_defs
    rows = init_rows(db.tu("orcx86insn").global_("orc_x86_opcodes"))
    LIMIT = ("pslldq", "psrldq", "psllq", "psrlq")
    n = 0
    for tub, px, regsize in (("orcrules-sse", "sse", 16), ("orcrules-mmx", "mmx", 8), ("orcrules-avx", "avx", 32)):
        tu = db.tu(tub)
        for op, size in (("accw", 2), ("accl", 4)):
            f = tu.fn.get("%s_rule_%s" % (px, op))
            if f is None:
                raise AnalysisBroken("%s_rule_%s not found" % (px, op))
            rep.saw(f)
            scope = [f] + [tu.fn[c.name] for c in f.calls() if c.name in tu.fn and tu.fn[c.name].body is not None and c.name != f.name]
            k = 0
            bad = []
            while (size << k) < regsize:
                ok = False
                for g in scope:
                    sd = single_defs(g)
                    env = {"p->loop_shift": k, "p->vars[].size": size}
                    for c in g.calls():
                        if not c.name or "cpuinsn" not in c.name or len(c.args()) < 2:
                            continue
                        rv = strip_casts(c.args()[1]).v
                        rn = rows[rv]["name"] if rv is not None and 0 <= rv < len(rows) else ""
                        narrowing = rn in ("movdqa", "movdqu", "movq", "movd") and px == "avx" and any(strip_casts(a).v == db.enum("ORC_X86_AVX_VEX128_PREFIX") for a in c.args()[-1:]) \
                            and (size << k) >= 16
                        if (rn in LIMIT or narrowing) and reachable_under(g, env, lambda e, c=c: e.id == c.id, resolve=lambda nm, sd=sd: sd.get(nm)):
                            ok = True
                if not ok:
                    bad.append(k)
                k += 1
            n += 1
            rep.check(not bad, rule, where(f), "%s:%s" % (px, op),
                      "for every loop_shift below %d the rule limits its source to the first %d << loop_shift bytes before adding" % (k, size),
                      "%s adds the whole source register to the accumulator also when the iteration covers only %s of the %d-byte register (loop_shift %s): "
                      "lanes that hold no array element - but are not zero after a preceding vector instruction such as `addl t, s, 1` or a select - are summed, "
                      "and the JIT result differs from emulation, backup code and the DISABLE_ORC build for most n" %
                      (f.name, "/".join("%d bytes" % (size << kk) for kk in bad), regsize, ", ".join(map(str, bad))), line=f.line)
    return n


def d9_acc16_masked(db, rep, rule="D9-ACC16-MASKED"):
    """D9: a 2-byte accumulator holds a 16-bit sum whichever way the function is built.  The C back end accumulates in an
    orc_union32 / int temporary and writes it back at the end of the generated function; for every flavour of the generated
    C (Orc-free NOEXEC code behind DISABLE_ORC, the emulator/OPCODE form, the executor form) the write-back template that is
    reachable with var->size == 2 must truncate (`& 0xffff`), since the prototype types the out-pointer from the .orc source
    (`.accumulator 2 a1 int`) and the executor slot is an int; with var->size == 4 there is nothing to truncate."""
    import re
    from exprval import reachable_under
    f = db.func("orc_compiler_c_assemble", "orcprogram-c")
    rep.saw(f)
    ACC = db.enum("ORC_VAR_TYPE_ACCUMULATOR")
    FLAV = {"NOEXEC (DISABLE_ORC code)": db.enum("ORC_TARGET_C_NOEXEC"), "OPCODE (emulator form)": db.enum("ORC_TARGET_C_OPCODE"), "executor form": 0}
    wb = []
    for c in f.calls("orc_compiler_append_code"):
        a = c.args()
        lit = strip_casts(a[1]) if len(a) > 1 else None
        txt = lit.get("str", "") if lit is not None and lit.k == "StringLiteral" else ""
        if re.search(r"(\*%s|accumulators\[%d\]|dest_ptrs\[%d\]\)->i)\s*\+?=", txt):
            wb.append((c, txt))
    if len(wb) < 4:
        raise AnalysisBroken("orc_compiler_c_assemble: only %d accumulator write-back templates found" % len(wb))
    n = 0
    for fl, bits in FLAV.items():
        for size in (2, 4):
            env = {"var->size": size, "var->vartype": ACC, "compiler->target_flags": bits}
            reach = [(c, t) for c, t in wb if reachable_under(f, env, lambda e, c=c: e.id == c.id)]
            n += 1
            if not reach:
                rep.violation(rule, where(f), "%s:size%d" % (fl.split()[0], size), "no accumulator write-back is emitted for a %d-byte accumulator in the %s: "
                              "the caller's accumulator is never written" % (size, fl), line=f.line)
                continue
            bad = [(c, t) for c, t in reach if ("0xffff" in t) != (size == 2)]
            rep.check(not bad, rule, where(f), "%s:size%d" % (fl.split()[0], size),
                      "%d-byte accumulator, %s: write-back %s" % (size, fl, "truncates to 16 bits" if size == 2 else "stores the full sum"),
                      "the write-back of a %d-byte accumulator in the %s is `%s`, which %s: %s" %
                      (size, fl, bad[0][1].strip()[:70] if bad else "", "does not truncate to 16 bits" if size == 2 else "truncates a 32-bit sum to 16 bits",
                       "the sum comes back sign-extended / with carry bits through an out-pointer that the prototype types from the .orc source, while JIT code, "
                       "backup code and emulation return the 16-bit value" if size == 2 else "the upper half of the sum is lost"), line=bad[0][0].line if bad else None)
    return n


def d6_acc_slot_width(db, rep, rule="D6-ACC-SLOT-WIDTH"):
    """D6: every generated store into ex->accumulators[k] writes the whole slot.  The slot is an int that the wrapper reads back
    with orc_executor_get_accumulator() from an executor living uncleared on its stack, so a narrower store returns the
    caller's stack garbage in the upper bytes.  Width of a store = the size argument of the mov emitters, or the access width
    of the x86 opcode-table row passed to the generic store emitter."""
    fld = db.field("OrcExecutor", "accumulators")
    slot = fld["size"] // fld["alen"]
    rows = init_rows(db.tu("orcx86insn").global_("orc_x86_opcodes"))
    n = 0
    for f in db.all_functions():
        if not (f.relfile.startswith("orc/orcprogram-") or f.relfile.startswith("orc/orcrules-") or f.relfile in ("orc/orcx86.c", "orc/orcsse.c", "orc/orcavx.c", "orc/orcmmx.c")):
            continue
        if any(t in f.relfile for t in ("neon", "arm", "mips", "altivec", "c64x", "orcprogram-c.c")):
            continue
        for c in f.calls():
            if not c.name or "memoffset" not in c.name:
                continue
            a = c.args()
            if not any(z.k == "OffsetOfExpr" and (z.get("opath") or "").startswith("accumulators") for x in a for z in x.walk()):
                continue
            width = None
            if c.name in ("orc_x86_emit_mov_reg_memoffset", "orc_x86_emit_mov_sse_memoffset", "orc_x86_emit_mov_avx_memoffset", "orc_x86_emit_mov_mmx_memoffset"):
                width = strip_casts(a[1]).v
                how = "size argument"
                if width is None:
                    # a size chosen at compile time (is_64bit ? 8 : 4): every alternative must be the slot width
                    alts = sorted({y.v for y in a[1].walk() if y.k in ("IntegerLiteral",) and y.v is not None and y.parent is not None and y.parent.k == "ConditionalOperator"
                                   and y.parent.c[0] is not y} | {strip_casts(b_).v for y in a[1].walk() if y.k == "ConditionalOperator" for b_ in y.c[1:3] if strip_casts(b_).v is not None})
                    if alts:
                        wrong = [v for v in alts if v != slot]
                        width = wrong[0] if wrong else slot
                        how = "size argument `%s`" % unparse(a[1])[:40]
            elif "store_memoffset" in c.name:
                rv = strip_casts(a[1]).v
                rname = rows[rv]["name"] if rv is not None and 0 <= rv < len(rows) else None
                width = STORE_ROW_WIDTH.get(rname)
                how = "row `%s`" % rname
            elif "load_memoffset" in c.name or c.name == "orc_x86_emit_mov_memoffset_reg":
                continue
            if width is None:
                raise AnalysisBroken("%s: width of the accumulator store `%s` not determined" % (f.name, unparse(c)[:80]))
            n += 1
            rep.saw(f)
            rep.check(width == slot, rule, where(f), "store:accumulators[]@%s:%s" % (f.name, c.line),
                      "%d-byte store (%s) fills the %d-byte slot" % (width, how, slot),
                      "%s stores %d byte(s) (%s) into the %d-byte slot ex->accumulators[k]: a narrower store leaves the rest of the slot as the executor held "
                      "it (a generated wrapper reads the whole int from its uncleared stack executor), a wider one writes past the slot - for the last "
                      "accumulator past the end of the OrcExecutor, into the caller's stack frame" %
                      (f.name, width, how, slot), line=c.line)
    if n < 5:
        raise AnalysisBroken("only %d generated stores into ex->accumulators[] found" % n)


def d13_wide_constant_uses_upper_half(db, rep, rule="D13-WIDE-CONST-UPPER-HALF"):
    """JIT mode computes the emulation semantics "for constant ... values" too.  The x86 constant loaders special-case 32-bit
    patterns (0xffffffff -> pcmpeq, 0x01010101 -> pcmpeq+pabs, shifted masks) - right for a 1/2/4-byte constant, which is that
    pattern in every 32-bit lane.  An 8-BYTE constant whose low half happens to be one of those patterns (0x00000000ffffffff) is
    a different value: its upper half is 0.  For size 8 and every 32-bit pattern K the loader compares `value` with, every
    feasible path through the loader (branches on size and value decided by that assignment, all others both ways) must read the
    upper half (`value >> 32`) before it returns; a path that does not has loaded K into both halves."""
    from exprval import evaluate, NotPure
    n = 0
    for tub, fn in (("orcprogram-avx", "orc_avx_load_constant"), ("orcprogram-sse", "orc_sse_load_constant"), ("orcprogram-mmx", "orc_mmx_load_constant")):
        f = db.tu(tub).fn.get(fn)
        if f is None or f.body is None:
            raise AnalysisBroken("%s not found" % fn)
        rep.saw(f)
        ks = set()
        for x in f.walk():
            if x.k == "BinaryOperator" and x.op == "==":
                l, r = strip_casts(x.c[0]), strip_casts(x.c[1])
                if l is not None and l.k == "DeclRefExpr" and l.name == "value" and r is not None and r.v is not None and 0 < (r.v & 0xffffffffffffffff) < (1 << 32):
                    ks.add(r.v & 0xffffffff)
        if not ks:
            raise AnalysisBroken("%s: no 32-bit special cases found" % fn)

        def reads_upper(e):
            return "value>>32" in unparse(e).replace(" ", "").replace("(", "").replace(")", "")
        for K in sorted(ks):
            env = {"size": 8, "value": K}
            seen, stack, wit = set(), [f.entry], None
            while stack and wit is None:
                b = stack.pop()
                if b in seen:
                    continue
                seen.add(b)
                blk = f.blocks[b]
                if any(reads_upper(e) for e in blk.el) or (blk.cond is not None and reads_upper(blk.cond)):
                    continue
                if b == f.exit or any(e.k == "ReturnStmt" for e in blk.el):
                    wit = b
                    break
                succ = [(i, s) for i, s in enumerate(blk.succs) if s is not None]
                val = None
                if blk.cond is not None and len(succ) >= 2 and all(f.edge_kind(b, i) in (True, False) for i, _ in succ):
                    try:
                        val = bool(evaluate(blk.cond, env, width=64))
                    except (NotPure, ValueError, ZeroDivisionError, KeyError) as ex_:
                        val = None
                        if os.environ.get("DBG13"):
                            print("DBG13 uneval", unparse(blk.cond)[:80], repr(ex_)[:80])
                for i, s in succ:
                    if val is None or f.edge_kind(b, i) == val:
                        stack.append(s)
            n += 1
            line = None
            if wit is not None:
                els = f.blocks[wit].el
                line = els[0].line if els else f.line
            rep.check(wit is None, rule, where(f), "%s(size=8,value=%#x)" % (fn, K), "an 8-byte constant is loaded with its upper half",
                      "%s can return for the 8-byte constant %#018x without reading `value >> 32` (path ends near line %s): the 32-bit special case for "
                      "%#x is taken and the register holds that pattern in BOTH halves of every 64-bit lane - `andq d, s, 0xffffffff` computes `s`" %
                      (fn, K, line, K), line=line)
    if n < 6:
        raise AnalysisBroken("only %d (loader, pattern) pairs evaluated" % n)
    return n


def d14_declared_alignment_after_head(db, rep, rule="D14-DECLARED-ALIGNMENT-AFTER-HEAD"):
    """`.source 1 s1 align 32` promises that the caller passes s1 aligned.  The x86 back ends mark every array whose declared
    alignment suits the register size as is_aligned (orc_x86_adjust_alignment) and the load/store rules then use aligned moves.
    But when the array the loop is aligned on is NOT declared aligned, a head region first processes as many elements as it takes
    to align that one array - and moves every other array by the same number of elements: their declared alignment no longer
    holds in the main loop (nor inside the head, whose steps grow up to half a register).  In orc_x86_compile the head region
    (the block entered for emit_region1) must therefore start by clearing is_aligned for the arrays other than the alignment
    variable, before its first orc_x86_emit_loop; otherwise a valid call (s1 aligned as promised, d1 not) faults with #GP in JIT
    mode while backup, emulation and the Orc-free build work."""
    f = db.func("orc_x86_compile", "orcprogram-x86")
    rep.saw(f)
    heads = [x for x in f.walk() if x.k == "IfStmt" and x.c[0] is not None and "emit_region1" in unparse(x.c[0]) and x.c[1] is not None]
    if not heads:
        raise AnalysisBroken("orc_x86_compile: the head region (if (emit_region1)) was not found")
    marks = [st for g in db.tu("orcprogram-x86").main_functions() for st in g.walk()
             if st.k == "BinaryOperator" and st.op == "=" and (access_path(st.c[0]) or "").endswith(".is_aligned") and strip_casts(st.c[1]) is not None and strip_casts(st.c[1]).v == 1]
    if not marks:
        raise AnalysisBroken("no store of TRUE into vars[].is_aligned found: the premise of the rule (declared alignment is trusted) has moved")
    # the other way to keep the promise: declared alignment is only ever trusted for the alignment variable itself
    only_align_var = all("align_var" in unparse(st.c[0]) for st in marks)
    n = 0
    for h in heads:
        if only_align_var:
            n += 1
            rep.ok(rule, where(f), "head-region@%s" % h.line, "declared alignment is trusted for the alignment variable only")
            continue
        loops_ = [c for c in h.c[1].walk() if c.k == "CallExpr" and c.name == "orc_x86_emit_loop"]
        if not loops_:
            continue
        n += 1
        first = min(loops_, key=lambda c: (c.line, c.id))
        ok = False
        for lp in h.c[1].walk():
            if lp.k != "ForStmt" or lp.line > first.line:
                continue
            init, cond, inc, body = (lp.c + [None] * 4)[:4]
            if body is None or cond is None:
                continue
            if any(c.id == first.id for c in body.walk()):
                continue
            iv = next((y.name for y in cond.walk() if y.k == "DeclRefExpr" and y.get("dk") == "local"), None)
            for st in body.walk():
                if st.k == "BinaryOperator" and st.op == "=" and (access_path(st.c[0]) or "").endswith(".is_aligned") and strip_casts(st.c[1]) is not None and strip_casts(st.c[1]).v == 0:
                    l = strip_casts(st.c[0])
                    sub = strip_casts(l.c[0]) if l is not None and l.k == "MemberExpr" else None
                    idx = strip_casts(sub.c[1]) if sub is not None and sub.k == "ArraySubscriptExpr" else None
                    if idx is not None and idx.k == "DeclRefExpr" and idx.name == iv and "ORC_VAR_S8" in unparse(cond) + str(db.enum("ORC_VAR_S8")) and f.dominates(cond, first):
                        ok = True
        rep.check(ok, rule, where(f), "head-region@%s" % h.line, "the head region clears the declared alignment of the arrays it moves",
                  "orc_x86_compile emits the head region (line %s) without first clearing vars[i].is_aligned for the arrays other than the alignment variable: "
                  "orc_x86_adjust_alignment marked them from their DECLARED alignment, the head moves them by the number of elements that aligns another "
                  "array, and the main loop still uses aligned moves on them - `.dest 1 d1` / `.source 1 s1 align 32` faults with #GP for a valid call" % h.line,
                  line=first.line)
    if n < 1:
        raise AnalysisBroken("orc_x86_compile: no orc_x86_emit_loop inside the head region")
    return n


def d16_setter_prints_its_field(db, rep, rule="D16-SETTER-FIELD"):
    """orcc writes the program's loop attributes into the generated initialisation code as `orc_program_set_<attr> (p, %d)`.  The
    value printed for `%d` must be that attribute of the parsed program (`p-><attr>`): with another one (constant_n for
    constant_m) the generated function compiles a program that differs from the source - under --compat below 0.4.16.1, where the
    program is rebuilt through these calls, a 2-D function with constant n and m runs n rows in JIT mode."""
    import re
    tu = db.tu("orcc")
    n = 0
    for f in tu.main_functions():
        for c in {c.id: c for c in f.calls("fprintf")}.values():
            a = c.args()
            lit = strip_casts(a[1]) if len(a) > 1 else None
            t = lit.get("str", "") if lit is not None and lit.k == "StringLiteral" else ""
            m = re.search(r"orc_program_set_([a-z_0-9]+) \(p, %d\)", t)
            if not m or len(a) < 3:
                continue
            n += 1
            rep.saw(f)
            got = access_path(strip_casts(a[2])) or unparse(a[2])
            rep.check(got.endswith("->" + m.group(1)), rule, where(f), "%s@%s" % (m.group(1), c.line), "the setter call is printed with the attribute it sets",
                      "%s prints `orc_program_set_%s (p, %%d)` with the value of `%s`: the generated code gives the program another %s than the source has" %
                      (f.name, m.group(1), got, m.group(1)), line=c.line)
    if n < 5:
        raise AnalysisBroken("only %d printed attribute setters found in orcc.c" % n)
    return n
