"""C14 — the .orc parser is total.

Decided structurally (see DESIGN.md §4 C14):
  D1 R-CAP    token array append is bounded
  D2 R-NULL   parser->program is never dereferenced while it may be NULL
  D3 R-SENT   failure sentinel of orc_program_add_constant_str never used as index
  D4 R-CAP    instruction append used by the parser is bounded
  D5 R-TERM   arrays handed to a NULL-sentinel consumer are NULL-terminated
  D6 R-WHO    every error record is built with the parser's line number
  D7 R-LOOP   loop classification, definite divergence / skippable equality exit
  D10 R-GROW  a buffer enlarged on demand (error log) grows by at least the length about to be written
  D9 R-BOUND  the text cursor OrcParser.p is advanced by a constant only over bytes known to be non-NUL
  D8 R-NULL   a parser-state field that a handler frees is overwritten before the handler returns
"""
from facts import AnalysisBroken, access_path, strip_casts, unparse
from flow import Facts, single_defs
from nullflow import NullAnalysis
from rules_common import rcap, where, returned_constants, is_null_test, free_then_null
import loops


def parser_path(func):
    """access path of the OrcParser's `program` field inside func, if it takes a parser."""
    for p in func.params:
        if p["ty"].replace("const ", "").strip() in ("OrcParser *", "struct _OrcParser *"):
            return p["name"] + "->program"
    return None


def run(ctx):
    db = ctx.db()
    rep = ctx.report
    rep.explanation = (
        "Structural necessary conditions of parser totality decided on every CFG path of orc/orcparse.c and the "
        "orc_program_* / orc_vector_* functions it calls: bounded token append (R-CAP), path-sensitive nullness of "
        "parser->program with interprocedural dereference summaries and dispatch-table narrowing (R-NULL), "
        "failure sentinel of orc_program_add_constant_str tested before it is used as an index (R-SENT), "
        "bounded instruction append (R-CAP), NULL terminator contract between orc_vector_append and "
        "orc_parse_error_freev (R-TERM), line number carried by every error record (R-WHO), loop classification with "
        "the exact definite-divergence rule (R-LOOP). Termination as a theorem and value-level contents of error "
        "records are NOT decided.")
    rep.assumptions += [
        "orc_malloc/orc_realloc abort instead of returning NULL (checked structurally: NULL branch reaches abort())",
        "library calls strdup/calloc failing are out of scope (OOM)",
        "nullness analysis tracks one access path per query and forgets correlations with other variables",
    ]
    tu = db.tu("orcparse")
    pfuncs = tu.main_functions()
    if len(pfuncs) < 40:
        raise AnalysisBroken("orcparse.c: only %d functions extracted" % len(pfuncs))

    # ---- D1: token array -------------------------------------------------
    n1 = 0
    for f in pfuncs:
        n1 += rcap(db, f, rep, rule="D1-R-CAP")
    rep.floor("D1-R-CAP", 1)

    # ---- D4: append capacity --------------------------------------------
    f = db.func("orc_program_append_str_n", "orcprogram")
    rcap(db, f, rep, rule="D4-R-CAP")
    rep.floor("D4-R-CAP", 1)

    # ---- D2: parser->program nullness -----------------------------------
    # orc_malloc aborts on failure => orc_program_new never returns NULL
    om = db.func("orc_malloc", "orcutils")
    aborts = any(c.name == "abort" for c in om.calls())
    rep.check(aborts, "D2-R-NULL", where(om), "orc_malloc-aborts-on-NULL",
              "orc_malloc's failure branch calls abort(): constructors built on it never return NULL",
              "orc_malloc no longer aborts on failure: orc_program_new may return NULL")
    na = NullAnalysis(db, never_null={"orc_program_new", "orc_malloc", "orc_realloc", "_strndup"})
    # roots: every non-static function of orcparse.c that owns a parser object
    roots = []
    for f in pfuncs:
        for n in f.walk():
            if n.k == "VarDecl" and n.ty.replace("struct _OrcParser", "OrcParser") == "OrcParser":
                roots.append((f, n.name))
    if not roots:
        raise AnalysisBroken("no function of orcparse.c declares an OrcParser object")
    nsites = 0
    for f, objname in roots:
        # the pointer alias `parser = &_parser`
        sd = single_defs(f)
        alias = None
        for nm, d in sd.items():
            if unparse(d) == "&" + objname:
                alias = nm
        if alias is None:
            raise AnalysisBroken("%s: no pointer alias to the OrcParser object" % f.name)
        path = alias + "->program"
        # after orc_parse_init (memset 0) the field is NULL: model as 'U' at entry (weaker)
        bad = na.unguarded_derefs(f, path, "U")
        badleaf = {}
        for n, d, chain in bad:
            # chain = (fn, fn, ..., leaf-fn, leaf-deref); the instance names the
            # parser function that lets the NULL escape and what it reaches
            pchain = [x for x in chain[:-1] if x in tu.fn]
            rest = [x for x in chain[:-1] if x not in tu.fn]
            inst = "parser->program@%s>%s" % (pchain[-1], rest[0] if rest else chain[-1])
            badleaf.setdefault(inst, (pchain[-1], n, d))
        # every dereference obligation examined (handlers and helpers)
        for g in pfuncs:
            pp = parser_path(g)
            if pp is None and g is not f:
                continue
            pp = pp or path
            sites = set()
            for n, d in na.deref_sites(g, pp):
                sites.add(d.replace(pp, "parser->program"))
            for c in g.calls():
                for a in c.args():
                    if a is not None and access_path(a) == pp and c.name:
                        sites.add(c.name)
            for sname in sorted(sites):
                inst = "parser->program@%s>%s" % (g.name, sname)
                hit = [k for k in badleaf if k == inst or (k.startswith("parser->program@%s>" % g.name) and sname in k)]
                if hit:
                    continue
                rep.ok("D2-R-NULL", "orc/orcparse.c::" + g.name, inst,
                       "non-NULL on every path from %s (path-sensitive, dispatch-table aware)" % f.name)
        for inst, (leaf, n, d) in sorted(badleaf.items()):
            rep.violation("D2-R-NULL", "orc/orcparse.c::" + leaf, inst,
                          "parser->program may be NULL (no .function seen yet) on the path: " + d, line=n.line)
    rep.floor("D2-R-NULL", 20)

    # ---- D3: sentinel used as index -------------------------------------
    callee = db.func("orc_program_add_constant_str", "orcprogram")
    rets = returned_constants(callee)
    neg = sorted(v for v in rets if v < 0)
    if not neg:
        rep.info("orc_program_add_constant_str returns no negative literal any more; D3 has no sentinel to check")
    sites = 0
    for f in pfuncs:
        fc = None
        for call in f.calls("orc_program_add_constant_str"):
            sites += 1
            p = call.parent
            var = None
            if p is not None and p.k == "BinaryOperator" and p.op == "=":
                var = access_path(p.c[0])
            elif p is not None and p.k == "VarDecl":
                var = p.name
            if var is None:
                rep.ok("D3-R-SENT", where(f), "add_constant_str@result-unused", "result not used as a value")
                continue
            fc = fc or Facts(f)
            used = 0
            for n in f.walk():
                if n.k == "ArraySubscriptExpr" and var in {access_path(x) for x in n.c[1].walk() if x.k == "DeclRefExpr"} \
                        and f.dominates(call, n):
                    used += 1
                    conds = fc.conds(n)
                    okc = all(any(c[0] != "switch" and is_null_test(c[0], c[1], var, s) for c in conds) for s in neg) if neg else True
                    rep.check(okc, "D3-R-SENT", where(f), "add_constant_str-result-as-index:%s" % access_path(n.c[0]),
                              "index use of `%s` is dominated by a test against the failure sentinel %s" % (var, neg),
                              "`%s` (result of orc_program_add_constant_str, which returns %s for an unparsable literal) indexes %s without a test" %
                              (var, neg, unparse(n.c[0])), line=n.line)
            if not used:
                rep.ok("D3-R-SENT", where(f), "add_constant_str@no-index-use", "result never used as index")
    if sites < 2:
        raise AnalysisBroken("expected >=2 call sites of orc_program_add_constant_str in orcparse.c, found %d" % sites)
    # ... the same for every other constructor the parser calls: whichever of them can return a negative value, the parser must not
    # use that value as a variable index - neither in a subscript of its own nor by handing it to a function that subscripts an
    # array with that parameter without testing it (orc_program_set_var_alignment, orc_program_set_type_name ...)
    from flow import lower_bound
    negret = {}

    def neg_returns(name):
        if name not in negret:
            try:
                g_ = db.func(name)
                negret[name] = sorted(v for v in returned_constants(g_) if isinstance(v, int) and v < 0) if g_.body is not None else []
            except AnalysisBroken:
                negret[name] = []
        return negret[name]
    idxparam = {}

    def indexing_params(h):
        """indices of parameters h uses as an array subscript without a lower bound of its own"""
        if h.name not in idxparam:
            out = set()
            fh = None
            for x in h.walk():
                if x.k == "ArraySubscriptExpr":
                    ix = strip_casts(x.c[1])
                    if ix is not None and ix.k == "DeclRefExpr" and ix.get("dk") == "param":
                        fh = fh or Facts(h)
                        lb = lower_bound(fh.conds(x), ix.name)
                        if lb is None or lb < 0:
                            out |= {i for i, pr in enumerate(h.params) if pr["name"] == ix.name}
            idxparam[h.name] = out
        return idxparam[h.name]
    n3b = 0
    for f in pfuncs:
        fc = None
        for call in f.calls():
            if not call.name or call.name == "orc_program_add_constant_str" or not call.name.startswith("orc_program_add_"):
                continue
            n3b += 1
            neg_ = neg_returns(call.name)
            p = call.parent
            while p is not None and p.k in ("ParenExpr", "CStyleCastExpr", "ImplicitCastExpr"):
                p = p.parent
            var = access_path(p.c[0]) if p is not None and p.k == "BinaryOperator" and p.op == "=" else (p.name if p is not None and p.k == "VarDecl" else None)
            if not neg_ or var is None:
                rep.ok("D3-R-SENT", where(f), "%s@%s" % (call.name, call.line), "returns no negative value / result not kept" if not neg_ else "result not kept")
                continue
            fc = fc or Facts(f)
            bad = None
            for x in f.walk():
                if x.k == "CallExpr" and x is not call and x.name and f.dominates(call, x):
                    for j, a in enumerate(x.args()):
                        if access_path(strip_casts(a)) == var:
                            try:
                                h = db.func(x.name)
                            except AnalysisBroken:
                                continue
                            if h.body is not None and j in indexing_params(h):
                                lb = lower_bound(fc.conds(x), var)
                                if lb is None or lb < 0:
                                    bad = bad or (x, h.name)
            rep.check(bad is None, "D3-R-SENT", where(f), "%s@%s" % (call.name, call.line),
                      "the (possibly negative) result of %s is tested before it is used as a variable index" % call.name,
                      "%s keeps the result of %s, which can be %s, in `%s` and passes it to %s, which uses it as an array subscript without a test: "
                      "vars[-1] is written (inside the program object, in front of the variable table)" %
                      ((f.name, call.name, neg_, var, bad[1]) if bad else ("",) * 5), line=bad[0].line if bad else call.line)
    if n3b < 5:
        raise AnalysisBroken("only %d calls of orc_program_add_* constructors found in the parser" % n3b)

    # ---- D5: NULL-terminated vectors ------------------------------------
    d5(db, rep, tu)

    # ---- D6: who may build an error record ------------------------------
    callers = db.callers().get("orc_parse_error_new", [])
    if not callers:
        raise AnalysisBroken("orc_parse_error_new has no callers")
    for f, call in callers:
        a = call.args()
        ln = strip_casts(a[1]) if len(a) > 1 else None
        okc = ln is not None and access_path(ln) is not None and access_path(ln).endswith("->line_number")
        rep.check(okc, "D6-R-WHO", where(f), "orc_parse_error_new:line_number",
                  "error record built with %s" % unparse(ln), "error record built with line argument `%s`, not the parser's current line" % unparse(ln),
                  line=call.line)
    # nobody else allocates an OrcParseError
    for f in db.all_functions():
        for n in f.walk():
            if n.k == "CallExpr" and n.name in ("calloc", "malloc", "orc_malloc"):
                t = unparse(n)
                par = n.parent
                ty = par.ty if par is not None and par.k in ("VarDecl", "CStyleCastExpr") else ""
                if "OrcParseError" in ty and "OrcParseError **" not in ty:
                    rep.check(f.name == "orc_parse_error_new", "D6-R-WHO", where(f), "allocates-OrcParseError",
                              "only constructor", "OrcParseError allocated outside orc_parse_error_new", line=n.line)
    nrep = 0
    for f in pfuncs:
        for call in f.calls("orc_parse_add_error"):
            nrep += 1
    rep.check(nrep >= 20, "D6-R-WHO", "orc/orcparse.c", "report-sites-go-through-add_error",
              "%d report sites call orc_parse_add_error -> orc_parse_add_error_valist -> orc_parse_error_new" % nrep,
              "only %d report sites" % nrep)
    # add_error must reach add_error_valist
    ae = db.func("orc_parse_add_error", "orcparse")
    rep.check(any(True for _ in ae.calls("orc_parse_add_error_valist")), "D6-R-WHO", where(ae), "forwards-to-valist",
              "forwards", "orc_parse_add_error no longer forwards to orc_parse_add_error_valist")

    # ---- D7: loops -------------------------------------------------------
    lf = list(pfuncs) + [db.func("_strtoll", "orcutils"), db.func("strsplit", "orcutils")]
    loops.classify_and_judge(db, lf, rep, rule="D7-R-LOOP")

    # ---- D10: buffers that grow on demand grow by at least what is about to be written -------------
    from rules_common import check_guarded_growth
    n10 = check_guarded_growth(db, list(pfuncs), rep, "D10-GROWTH")
    if n10 < 1:
        raise AnalysisBroken("no guarded buffer growth found in orcparse.c (orc_parse_splat_error)")

    # ---- D11: values obtained through out-parameters are defined when they are read ----------------
    # (the parser hands every number to helpers that report the end of the conversion through `char **end`)
    import outparam
    libf = [g for g in db.all_functions() if g.relfile.startswith("orc/")]
    n11 = outparam.check(db, libf, rep, "D11-OUTPARAM-DEFINED", where)
    rep.extra["outparam_sites_judged"] = n11
    if n11 < 3:
        raise AnalysisBroken("only %d out-parameter sites (uninitialised local passed by address to an in-tree function and read afterwards) found" % n11)

    # ---- D12: programs returned by the parser can be compiled safely whatever their names' length: the listing writers
    # never use a (v)snprintf result as a length without bounding it (shared with C05 D1c)
    from rules_common import check_snprintf_lengths
    n12 = check_snprintf_lengths(db, [g for g in db.all_functions() if g.relfile.startswith("orc/")], rep, "D12-FMT-LENGTH")
    rep.extra["snprintf_result_uses_judged"] = n12
    # expected count on the unchanged tree is zero: positive control on every run
    from driver import Report as _Report
    fx = ctx.fixture_db(["fmtlen"])
    frep = _Report("fixture")
    check_snprintf_lengths(fx, fx.tu("fmtlen").main_functions(), frep, "FXF")
    st = {o[1].split("|")[0].split("::")[1]: o[2] for o in frep.obligations}
    if st != {"fmt_bad": "VIOLATED", "fmt_good": "held"}:
        raise AnalysisBroken("snprintf-length positive control failed: %s" % st)

    # ---- D9: the text cursor never steps over the terminating NUL -------------------------------
    # OrcParser.p walks the caller's NUL-terminated text.  Advancing it by a constant k is safe only if the k bytes it
    # steps over are known to be non-NUL at that point (finite evaluation of the guards over a byte alphabet).
    from exprval import admitted, key_of
    n9 = 0
    for f in pfuncs:
        fc9 = None
        for st in f.walk():
            k = None
            tgt = None
            if st.k == "UnaryOperator" and st.op == "++":
                tgt, k = st.c[0], 1
            elif st.k == "CompoundAssignOperator" and st.op == "+=" and strip_casts(st.c[1]).v is not None:
                tgt, k = st.c[0], strip_casts(st.c[1]).v
            if tgt is None:
                continue
            t = strip_casts(tgt)
            if not (t.k == "MemberExpr" and t.name == "p" and (t.get("rec") or "").lstrip("_") == "OrcParser"):
                continue
            n9 += 1
            fc9 = fc9 or Facts(f)
            base = key_of(t)
            keys = tuple("%s[%d]" % (base, j) for j in range(k))
            conds9 = list(fc9.conds(st))
            # whole conditions of the enclosing if statements (a disjunction is not a must-fact on the joined edge, but it
            # still holds in the branch), provided the cursor is not written between the test and this statement
            x, prev = st.parent, st
            while x is not None:
                if x.k == "IfStmt" and x.c[0] is not None and prev is not x.c[0]:
                    branch = True if prev is x.c[1] else False
                    body = x.c[1] if branch else (x.c[2] if len(x.c) > 2 else None)
                    writes = [w for w in (body.walk() if body is not None else []) if w.line < st.line and w is not st and
                              ((w.k == "UnaryOperator" and w.op in ("++", "--")) or (w.k in ("BinaryOperator", "CompoundAssignOperator") and w.op in ("=", "+=", "-="))) and
                              key_of(w.c[0]) == base]
                    if not writes:
                        conds9.append((x.c[0], branch))
                prev, x = x, x.parent
            got, rel = admitted(conds9, keys, (0, 10, 13, 65))
            bad = sorted(v for v in got if any(x == 0 for x in v))
            rep.check(not bad, "D9-TEXT-CURSOR", where(f), "%s+=%d" % (base, k),
                      "the %d byte(s) stepped over are known to be non-NUL" % k,
                      "%s advances the text cursor by %d although byte(s) %s may be the terminating NUL (guards: %s): the parser then reads "
                      "past the end of the caller's text" % (f.name, k, [i for i in range(k) if any(v[i] == 0 for v in bad)],
                                                            [unparse(x[0]) for x in rel]), line=st.line)
    if n9 < 1:
        raise AnalysisBroken("no constant advance of OrcParser.p found in orcparse.c")

    # ---- D13: one line terminator per line ------------------------------------------------------------
    # orc_parse_find_line_length ends the line before "\n", before "\r\n" (the CR is stripped) or at the end of the text;
    # orc_parse_advance must then step over exactly that terminator: 2 bytes for CR LF, 1 for LF, 1 for a final CR, 0 at the
    # NUL.  Stepping over only part of CR LF makes the rest count as one more (empty) line: every error record of a CRLF text
    # then carries the wrong line number.  The function is walked concretely for the four terminator shapes.
    from exprval import evaluate as _ev, NotPure as _NP
    adv = db.func("orc_parse_advance", "orcparse")
    rep.saw(adv)
    start = [x for x in adv.walk() if x.k == "CompoundAssignOperator" and x.op == "+=" and (access_path(x.c[0]) or "").endswith("->p")
             and (access_path(strip_casts(x.c[1])) or "").endswith("->line_length")]
    if len(start) != 1:
        raise AnalysisBroken("orc_parse_advance: `p += line_length` not found")
    sp = adv.pos(start[0])
    for text, want, label in (((13, 10, 65), 2, "CR LF"), ((10, 65, 65), 1, "LF"), ((13, 0, 0), 1, "CR at the end of the text"), ((0, 0, 0), 0, "end of the text")):
        b, i, off, steps = sp[0], sp[1] + 1, 0, 0
        res = None
        while steps < 200:
            steps += 1
            blk = adv.blocks[b]
            for e in blk.el[i:]:
                if e.k == "UnaryOperator" and e.op in ("++", "--") and (access_path(e.c[0]) or "").endswith("->p"):
                    off += 1 if e.op == "++" else -1
                elif e.k == "CompoundAssignOperator" and e.op in ("+=", "-=") and (access_path(e.c[0]) or "").endswith("->p") and strip_casts(e.c[1]).v is not None:
                    off += strip_casts(e.c[1]).v * (1 if e.op == "+=" else -1)
            if b == adv.exit or not [s_ for s_ in blk.succs if s_ is not None]:
                res = off
                break
            succ = [(j, s_) for j, s_ in enumerate(blk.succs) if s_ is not None]
            if blk.cond is not None and len(succ) == 2:
                base = next((access_path(x) for x in blk.cond.walk() if x.k == "MemberExpr" and x.name == "p"), "parser->p")
                env = {"%s[%d]" % (base, j): (text[off + j] if 0 <= off + j < len(text) else 0) for j in range(-1, 3)}
                try:
                    v = bool(_ev(blk.cond, env))
                except _NP as ex:
                    raise AnalysisBroken("orc_parse_advance: condition `%s` not evaluable (%s)" % (unparse(blk.cond), ex))
                b = [s_ for j, s_ in succ if adv.edge_kind(b, j) == v][0]
            else:
                b = succ[0][1]
            i = 0
        rep.check(res == want, "D13-LINE-TERMINATOR", where(adv), "after:%s" % label,
                  "a line ending in %s is followed by a step of %d byte(s)" % (label, want),
                  "after a line that ends with %s orc_parse_advance steps over %s byte(s) instead of %d: %s" %
                  (label, res, want, "the rest of the terminator is read as one more, empty line, so every later line number (error records, instruction "
                   "lines) is off" if res is not None and res < want else "the cursor passes the end of the line terminator (or of the text)"), line=start[0].line)

    # ---- D14: refusals of the construction API reach the caller as error records ----------------------
    # (a) a constructor that reports failure through its result (orc_program_add_constant_str: -1 not a number, 0 no room) has
    #     that result tested at every call in the parser;
    # (b) constructors that only record an error in the program (table full: temporaries, instructions ...) are covered by the
    #     parse loop turning the program's error text into an error record after each handled line.
    n14 = 0
    for f in pfuncs:
        for c in f.calls("orc_program_add_constant_str"):
            n14 += 1
            par = c.parent
            while par is not None and par.k in ("ParenExpr", "CStyleCastExpr", "ImplicitCastExpr"):
                par = par.parent
            tested = par is not None and par.k == "BinaryOperator" and par.op in ("<", "<=", ">", ">=", "==", "!=")
            if not tested and par is not None and ((par.k == "BinaryOperator" and par.op == "=") or par.k == "VarDecl"):
                nm = access_path(par.c[0]) if par.k == "BinaryOperator" else par.name
                tested = any(x.k == "BinaryOperator" and x.op in ("<", "<=", ">", ">=", "==", "!=") and nm in (access_path(x.c[0]), access_path(x.c[1]))
                             for x in f.walk())
            rep.check(tested, "D14-REFUSAL-REPORTED", where(f), "add_constant_str@%s" % c.line,
                      "the result of orc_program_add_constant_str is tested",
                      "%s ignores the result of orc_program_add_constant_str: a value that is not a number (or a full constant table) is dropped "
                      "without an error record and only a later use of the name fails" % f.name, line=c.line)
    pc14 = db.func("orc_parse_code", "orcparse")
    hcalls = [c for c in pc14.calls() if c.name in ("orc_parse_handle_directive", "orc_parse_handle_opcode")]
    gets = [c for c in pc14.calls("orc_program_get_error")]
    adds = [c for c in pc14.calls("orc_parse_add_error")]
    loops14 = [x for x in pc14.walk() if x.k in ("WhileStmt", "ForStmt") and all(any(a is x for a in h.ancestors()) for h in hcalls)]
    okb = bool(hcalls) and bool(loops14) and any(any(a is loops14[-1] for a in g.ancestors()) and any(h.line < g.line for h in hcalls) for g in gets) and \
        any(any(a is loops14[-1] for a in ad.ancestors()) for ad in adds)
    n14 += 1
    rep.check(okb, "D14-REFUSAL-REPORTED", where(pc14), "program-error-to-record",
              "after each handled line the program's own error text is turned into an error record",
              "orc_parse_code does not look at orc_program_get_error() after handling a line: what the construction API refuses because a table is "
              "full (17th temporary, 101st instruction ...) produces no error record")
    if n14 < 3:
        raise AnalysisBroken("only %d refusal sites judged in orcparse.c" % n14)

    # ---- D15: what the parser accepts without complaint can be compiled without aborting: the parser does not look at operand
    # classes (`loadpw t1, t2` parses); orc_compiler_check_sizes must refuse a non-scalar operand in a SCALAR position before a
    # back-end rule asserts on it (rule shared with C05)
    import importlib
    importlib.import_module("rules.c05").scalar_operand_checked(db, rep, "D15-SCALAR-OPERAND-CHECKED")
    # ... and a refused slot must not be counted: the compile of a text that needs too many compiler temporaries must end in a
    # result code, not in a clean-up that trusts a counter bumped before the capacity test (shared with C05)
    importlib.import_module("rules.c05").counter_unchanged_on_refusal(db, rep, "D19-COUNTER-ON-REFUSAL")
    # ---- D24: "returned programs can be compiled safely": a program of at most ORC_N_INSNS instructions grows while it is rewritten
    # (a load per source, a store per destination); the compiler's own appenders are the last bound check before its fixed tables
    # (rule shared with C05 D1)
    n20 = 0
    for f20 in db.tu("orccompiler").main_functions():
        n20 += rcap(db, f20, rep, rule="D24-R-CAP-COMPILER") or 0
    rep.floor("D24-R-CAP-COMPILER", 3)
    errno_cleared_before_judged(db, rep)
    out_params_not_read(db, rep)
    growth_covers_need(db, rep)
    # "returns program objects that can be compiled ... safely": whatever size or offset the text declares, the compile returns.
    # The two search-loop rules of C05 (shared): a loop that shifts by its induction variable, or searches the rotations of a
    # value, bounds its steps.
    import loops as _loops
    _lib = [f for f in db.all_functions() if f.relfile.startswith("orc/")]
    _loops.judge_shift_searches(db, _lib, rep, rule="D21-LOOP-SHIFT")
    _loops.judge_rotation_searches(db, _lib, rep, rule="D21-LOOP-ROTATE")

    # ---- D16: "bad numbers ... reports each problem as an error record": every conversion of a token into a number looks at
    # how much of the token the conversion took
    d16_numbers_checked(db, rep, pfuncs)
    d17_name_scan_complete(db, rep, pfuncs)
    d18_hex_prefix_needs_digit(db, rep)

    # ---- D8: parser state never keeps a freed pointer ---------------------
    # (a freed parser/program field left in place is freed again by orc_parse_code / orc_program_free,
    #  or handed to the caller through orc_parse_get_init_function)
    n8 = 0
    for f in pfuncs:
        if f.name in ("orc_parse_error_free", "orc_parse_error_freev"):
            continue            # destructors: the object itself goes away
        if f.name == "orc_parse_code":
            continue            # scope end of the stack parser object (its releases are judged by C16-D1)
        n8 += free_then_null(f, rep, "D8-FREE-THEN-NULL", ("OrcParser", "OrcProgram"))
    if n8 < 2:
        raise AnalysisBroken("only %d releases of parser-state fields found in orcparse.c" % n8)


def d5(db, rep, tu):
    """consumer scans to NULL  =>  producer must terminate."""
    cons = db.func("orc_parse_error_freev", "orcparse")
    scans = False
    for n in cons.walk():
        if n.k == "ForStmt" or n.k == "WhileStmt":
            cond = n.c[1] if n.k == "ForStmt" else n.c[0]
            if cond is not None:
                t = unparse(cond)
                if "errors[" in t and ("!= 0" in t or "!=" in t or cond.k == "ArraySubscriptExpr"):
                    scans = True
    if not scans:
        rep.ok("D5-R-TERM", where(cons), "consumer-not-sentinel-scan",
               "orc_parse_error_freev no longer scans for a NULL sentinel: no terminator contract")
        return
    # producers: arrays stored into *errors come from OrcVector.items
    app = db.func("orc_vector_append", "orcutils")
    ext = db.func("orc_vector_extend", "orcutils")
    # idiom (a): a store items[n_items] = NULL that post-dominates the counter increment
    inc = None
    for n in app.walk():
        if n.k in ("UnaryOperator", "CompoundAssignOperator") and access_path(n.c[0]) and access_path(n.c[0]).endswith("->n_items") and n.op in ("++", "+="):
            inc = n
    term = []
    for n in app.walk():
        if n.k == "BinaryOperator" and n.op == "=" and n.c[1] is not None and strip_casts(n.c[1]).v == 0:
            l = strip_casts(n.c[0])
            if l.k == "ArraySubscriptExpr" and (access_path(l.c[0]) or "").endswith("->items"):
                idx = access_path(l.c[1])
                if idx and idx.endswith("->n_items") and inc is not None and app.dominates(inc, n):
                    term.append(n)
    ok_a = False
    if term and inc is not None:
        # every path from the increment to exit passes a terminator store
        from flow import paths_avoiding
        ok_a = paths_avoiding(app, inc, lambda e: e in term) is None
    # idiom (b): new slots zero-filled on extension AND one spare slot always kept
    zero_fill = any(c.name in ("memset", "calloc") for c in ext.calls()) or any(c.name in ("memset", "calloc") for c in app.calls())
    spare = False
    for n in app.walk():
        if n.k == "IfStmt":
            t = unparse(n.c[0])
            if "n_items + 1" in t or "n_items_alloc - 1" in t:
                spare = True
    ok_b = zero_fill and spare
    rep.check(ok_a or ok_b, "D5-R-TERM", where(app), "OrcVector.items-NULL-terminated",
              "orc_vector_append keeps items[n_items] == NULL (%s), as orc_parse_error_freev's sentinel scan requires" %
              ("terminator store after increment" if ok_a else "zero-filled growth with spare slot"),
              "orc_parse_error_freev walks errors[] to a NULL sentinel, but orc_vector_append/orc_vector_extend never "
              "store one (orc_realloc does not zero): the scan reads an uninitialised / out-of-bounds slot after the last error",
              line=app.line)
    # the errors array given to the caller is exactly the vector's items
    pc = db.func("orc_parse_code", "orcparse")
    src_ok = False
    for n in pc.walk():
        if n.k == "BinaryOperator" and n.op == "=" and unparse(n.c[0]) == "*errors":
            src_ok = "items" in unparse(n.c[1])
    rep.check(src_ok, "D5-R-TERM", where(pc), "errors-out-param-is-vector-items",
              "*errors is the OrcVector items array", "*errors no longer comes from an OrcVector: producer unknown")


def d16_numbers_checked(db, rep, pfuncs, rule="D16-NUMBERS-CHECKED"):
    """D16: a token that is converted with strtol/strtoul/strtoll/strtod (or the parser's own _strtoll) must be converted with an
    end pointer, and that end pointer must be examined afterwards (compared, or dereferenced in a condition) on the way to
    any use of the value; atoi-style conversions cannot report anything.  Otherwise `.source abc s1` or `align zz` is read
    as 0 (or as its numeric prefix) without an error record."""
    CONV = {"strtol": 1, "strtoul": 1, "strtoll": 1, "strtoull": 1, "_strtoll": 1, "strtod": 1, "strtof": 1}
    BLIND = ("atoi", "atol", "atoll", "atof")
    n = 0
    for f in pfuncs:
        for c in f.calls():
            if c.name not in CONV and c.name not in BLIND:
                continue
            a = c.args()
            if not a:
                continue
            src = strip_casts(a[0])
            tok = any(y.k == "MemberExpr" and y.name == "tokens" for y in src.walk()) or (src.k == "DeclRefExpr" and src.get("dk") == "param")
            if not tok:
                continue
            n += 1
            rep.saw(f)
            bad = None
            if c.name in BLIND:
                bad = "%s () cannot tell a number from anything else" % c.name
            else:
                e = strip_casts(a[CONV[c.name]]) if len(a) > CONV[c.name] else None
                if e is None or e.v == 0 or e.k != "UnaryOperator" or e.op != "&":
                    bad = "the end pointer argument is `%s`" % (unparse(a[CONV[c.name]])[:20] if len(a) > CONV[c.name] else "missing")
                else:
                    ev = access_path(e.c[0])
                    used = False
                    for blk in f.blocks.values():
                        if blk.cond is not None and any(y.k == "DeclRefExpr" and y.name == ev for y in blk.cond.walk()):
                            used = True
                    if not used:
                        bad = "the end pointer `%s` is never examined" % ev
            # a long squeezed into an int: the range must be looked at too (4294967298 is not 2)
            if bad is None and c.name in ("strtol", "strtoll", "strtoul") and ("int" == (f.ret or "").strip() or True):
                narrowed = (f.ret or "").strip() == "int" or any(x.k == "VarDecl" and (x.ty or "") == "int" and x.c and x.c[0] is not None and any(y.id == c.id for y in x.c[0].walk()) for x in f.walk()) \
                    or any(x.k == "BinaryOperator" and x.op == "=" and (strip_casts(x.c[0]).ty or "") == "int" and any(y.id == c.id for y in x.c[1].walk()) for x in f.walk())
                if narrowed:
                    ranged = False
                    for blk in f.blocks.values():
                        if blk.cond is None:
                            continue
                        for y in blk.cond.walk():
                            if y.v is not None and abs(y.v) >= 2147483647:
                                ranged = True
                            if y.k == "BinaryOperator" and y.op in ("==", "!=") and strip_casts(y.c[1]) is not None and strip_casts(y.c[1]).v == 34 and "errno" in unparse(y.c[0]):
                                ranged = True
                    if not ranged:
                        bad = "its long result is narrowed to int without a range test (neither ERANGE nor INT_MIN/INT_MAX is looked at)"
            rep.check(bad is None, rule, where(f), "%s(%s)@%s" % (c.name, unparse(src)[:30], c.line),
                      "the conversion reports how much of the token it took and the handler looks at it",
                      "%s converts the token `%s` with %s, but %s: a token that is not a number (`.source abc s1`, `align zz`, `.n mult q`) is taken as 0 "
                      "or as its numeric prefix and no error record is produced" % (f.name, unparse(src)[:40], c.name, bad), line=c.line)
    if n < 2:
        raise AnalysisBroken("only %d token-to-number conversions found in orcparse.c" % n)
    return n


def d17_name_scan_complete(db, rep, pfuncs, rule="D17-NAME-SCAN-COMPLETE"):
    """D17: the parser reports a name declared twice by comparing the names of the program's variable slots pairwise.  Every
    slot that a declaration can fill has to take part: both loops of the comparison must run up to the LAST enumerator of the
    variable numbering (the 16th temporary) - a bound one short leaves exactly the declarations that overflow into the last
    slot unreported."""
    from loops import counted
    tu = db.tu("orcparse")
    last = max(v for k, v in tu.enums.items() if k.startswith("ORC_VAR_") and k[8:9] in "DSACPT" and k[9:].isdigit())
    n = 0
    for f in pfuncs:
        cmps = [c for c in f.calls("strcmp") if sum(1 for a in c.args() if any(y.k == "MemberExpr" and y.name == "name" for y in a.walk())
                                                  and any(y.k == "MemberExpr" and y.name == "vars" for y in a.walk())) == 2]
        for c in cmps:
            loops_ = [a for a in c.ancestors() if a.k == "ForStmt"]
            cls = [counted(l) for l in loops_]
            cls = [x for x in cls if x and x["dir"] == "asc"]
            if len(cls) < 2:
                continue
            n += 1
            rep.saw(f)
            short = [x for x in cls if x["last"][0] is None and x["last"][1] < last]
            rep.check(not short, rule, where(f), "name-scan@%s" % c.line,
                      "both loops of the pairwise name comparison run to slot %d (the last variable)" % last,
                      "%s compares variable names pairwise only up to slot %s, the numbering goes to %d: a name declared twice is not reported when one of "
                      "the two declarations is the last temporary" % (f.name, short[0]["last"][1] if short else "?", last), line=c.line)
    if n < 1:
        raise AnalysisBroken("the pairwise variable-name comparison was not found in orcparse.c")
    return n


def d18_hex_prefix_needs_digit(db, rep, rule="D18-HEX-PREFIX-NEEDS-DIGIT"):
    """D18: "bad numbers ... reported".  The parser's own _strtoll steps over a `0x` prefix; it may do so only where a hex digit
    follows, otherwise `0x` alone converts to 0 with the whole token consumed and no error.  Every advance of the text cursor
    by two in _strtoll must be control-dependent on a test of the character after the prefix (isxdigit / a range test on
    index 2)."""
    f = db.func("_strtoll", "orcutils")
    rep.saw(f)
    fc = Facts(f)
    adv = [x for x in f.walk() if x.k == "CompoundAssignOperator" and x.op == "+=" and strip_casts(x.c[1]).v == 2]
    if not adv:
        raise AnalysisBroken("_strtoll: prefix skip (`nptr += 2`) not found")
    for x in adv:
        cur = access_path(x.c[0])
        ok = False
        for c_ in fc.conds(x):
            if c_[0] == "switch":
                continue
            t = unparse(c_[0]).replace(" ", "")
            if c_[1] and ("xdigit" in t.lower() or "isdigit" in t.lower()) and ("%s+2" % cur in t or "%s[2]" % cur in t):
                ok = True
        rep.check(ok, rule, where(f), "prefix-skip@%s" % x.line,
                  "the 0x prefix is stepped over only in front of a hex digit",
                  "_strtoll steps over `0x` (line %s) without looking at the character after it: the token `0x` converts to 0 with everything consumed, "
                  "so `.const 4 c 0x` is accepted without an error record" % x.line, line=x.line)



def errno_cleared_before_judged(db, rep, rule="D20-ERRNO-CLEARED"):
    """errno is only ever SET by the C library, never cleared: a conversion that succeeds leaves an ERANGE from any earlier call
    (a strtod of `1e-310` three lines up in the same text) in place.  A function that judges a conversion by comparing errno
    must therefore store 0 into errno on every path to the comparison - otherwise a well-formed number is reported as out of
    range (and replaced) depending on what was parsed before: the parse of one function depends on the text of another."""
    n = 0
    for f in db.all_functions():
        def is_errno(e):
            return any(y.k == "CallExpr" and y.name == "__errno_location" for y in e.walk())
        cmps = [x for x in f.walk() if x.k == "BinaryOperator" and x.op in ("==", "!=") and (is_errno(x.c[0]) != is_errno(x.c[1]))]
        if not cmps:
            continue
        clears = [x for x in f.walk() if x.k == "BinaryOperator" and x.op == "=" and is_errno(x.c[0]) and strip_casts(x.c[1]).v == 0]
        for c in cmps:
            n += 1
            rep.saw(f)
            ok = any(f.dominates(s, c) for s in clears)
            rep.check(ok, rule, where(f), "%s@%s" % (f.name, c.line), "errno is cleared on every path before it is compared",
                      "%s compares errno (line %s) without having stored 0 into it first: an ERANGE left by an earlier library call - strtod of a "
                      "subnormal literal anywhere before - makes every following well-formed number `out of range`; what one line parses to depends on "
                      "the lines before it" % (f.name, c.line), line=c.line)
    # no floor of its own: that a range test exists at all is demanded by D16-NUMBERS-CHECKED (which reports its absence as a
    # violation); this rule judges the errno comparisons that are there
    return n


def out_params_not_read(db, rep, rule="D22-OUT-PARAM-NOT-READ"):
    """The entry points return their results through out-parameters (`OrcProgram ***programs`, `char **log`, `int *n_errors`
    ...): objects of the CALLER that need not be initialised.  A function that stores through such a parameter (itself or by
    handing it to a helper of the file that does) must not read the pointee before it has stored into it: the condition
    `if (*log)` decides on the caller's uninitialised variable whether errors are reported at all - with the natural
    `char *log = NULL;` every error record is dropped, with a NULL argument the parser crashes.  Whether the caller wants the
    result is asked of the POINTER."""
    tu = db.tu("orcparse")
    n = 0

    def stores_through(g, pname, depth=0):
        for st in g.walk():
            if st.k in ("BinaryOperator",) and st.op == "=":
                l = strip_casts(st.c[0])
                if l is not None and l.k == "UnaryOperator" and l.op == "*" and strip_casts(l.c[0]) is not None and strip_casts(l.c[0]).k == "DeclRefExpr" and strip_casts(l.c[0]).name == pname:
                    return True
        if depth < 2:
            for c in g.calls():
                h = tu.fn.get(c.name or "")
                if h is None or h.body is None or h is g:
                    continue
                for p_, a_ in zip(h.params, c.args()):
                    sa = strip_casts(a_)
                    if sa is not None and sa.k == "DeclRefExpr" and sa.name == pname and stores_through(h, p_["name"], depth + 1):
                        return True
        return False
    for f in tu.main_functions():
        for p_ in f.params:
            if "*" not in (p_.get("ty") or "") or "const" in (p_.get("ty") or "").split("*")[0] and (p_.get("ty") or "").count("*") == 1:
                continue
            pn = p_["name"]
            if not stores_through(f, pn):
                continue
            writes = [st for st in f.walk() if st.k == "BinaryOperator" and st.op == "=" and strip_casts(st.c[0]) is not None and strip_casts(st.c[0]).k == "UnaryOperator"
                      and strip_casts(st.c[0]).op == "*" and strip_casts(strip_casts(st.c[0]).c[0]) is not None and strip_casts(strip_casts(st.c[0]).c[0]).k == "DeclRefExpr"
                      and strip_casts(strip_casts(st.c[0]).c[0]).name == pn]
            bad = None
            for x in f.walk():
                if not (x.k == "UnaryOperator" and x.op == "*" and strip_casts(x.c[0]) is not None and strip_casts(x.c[0]).k == "DeclRefExpr" and strip_casts(x.c[0]).name == pn):
                    continue
                par = x.parent
                while par is not None and par.k in ("ParenExpr",):
                    par = par.parent
                if par is not None and par.k == "BinaryOperator" and par.op == "=" and any(y.id == x.id for y in par.c[0].walk()):
                    continue                    # the store itself
                if par is not None and par.k == "UnaryOperator" and par.op == "&":
                    continue
                if not any(f.dominates(w, x) for w in writes) and bad is None:
                    bad = x
            n += 1
            rep.saw(f)
            rep.check(bad is None, rule, where(f), "%s:*%s" % (f.name, pn), "an out-parameter's object is stored before it is read",
                      "%s reads `*%s` (line %s) before anything has been stored there: `%s` is an out-parameter - the function stores its result through "
                      "it - so the value read is whatever the caller's variable happened to hold; as the test for `does the caller want this result` it "
                      "drops every error record for `char *log = NULL; orc_parse_full (code, &p, &log)` and dereferences NULL when the argument is NULL" %
                      (f.name, pn, bad.line if bad else "?", pn), line=bad.line if bad else None)
    if n < 5:
        raise AnalysisBroken("only %d out-parameters found in orcparse.c" % n)
    return n


def growth_covers_need(db, rep, rule="D23-GROWTH-COVERS-NEED"):
    """A buffer that is grown on demand - `if (len + need >= size) { size = ...; buf = realloc (buf, size); }` followed by a write of
    `need` bytes - holds the write only if the new size is computed FROM the need (or the growth is repeated until it fits).  A
    growth step that does not look at the need (`size = size * 2`) is too small for one large record: the error log of
    orc_parse_full is written past its block by a single long message.  For every such guarded growth in the library: a need
    that is computed per record (a local defined inside the enclosing loop) must occur in the new size, unless the guard is
    itself a loop."""
    from facts import ASSIGN_OPS
    n = 0
    for f in db.all_functions():
        if not f.relfile.startswith("orc/"):
            continue
        reallocs = [c for c in {c.id: c for c in f.calls()}.values() if c.name in ("realloc", "orc_realloc") and len(c.args()) > 1]
        for c in reallocs:
            cap = strip_casts(c.args()[1])
            if cap is None or cap.k != "DeclRefExpr" or cap.get("dk") != "local":
                continue
            guard = next((a for a in c.ancestors() if a.k in ("IfStmt", "WhileStmt") and a.c[0] is not None and
                          any(y.k == "DeclRefExpr" and y.name == cap.name for y in a.c[0].walk())), None)
            if guard is None:
                continue
            encl = next((a for a in guard.ancestors() if a.k in ("ForStmt", "WhileStmt", "DoStmt")), None)
            if encl is None:
                continue
            body_decls = {v.name for v in encl.walk() if v.k == "VarDecl"}
            needs = sorted({y.name for y in guard.c[0].walk() if y.k == "DeclRefExpr" and y.get("dk") == "local" and y.name != cap.name and y.name in body_decls})
            if not needs:
                continue
            n += 1
            rep.saw(f)
            ok = guard.k == "WhileStmt"
            for st in guard.walk():
                if st.k in ("BinaryOperator", "CompoundAssignOperator") and st.op in ASSIGN_OPS and access_path(st.c[0]) == cap.name:
                    if any(y.k == "DeclRefExpr" and y.name in needs for y in st.c[1].walk()):
                        ok = True
            rep.check(ok, rule, where(f), "%s:%s" % (f.name, cap.name), "the grown size is computed from the need of the record about to be written",
                      "%s grows `%s` under `%s` without looking at `%s`, the size of the record it is about to write: one record larger than the growth step "
                      "is written past the block (the error log of orc_parse_full: a single long message)" % (f.name, cap.name, unparse(guard.c[0])[:50], ", ".join(needs)),
                      line=guard.line)
    if n < 1:
        raise AnalysisBroken("no guarded buffer growth with a per-record need found (orc_parse_splat_error has moved)")
    return n
